#!/usr/bin/env python3
"""Development aid: apply a seeded change to /repo, run the given checks, undo the change.
usage: tools/seedtest.py <patch.diff> <ID> [<ID> ...]   (never leaves the change applied)"""
import os
import subprocess
import sys

VERIF = os.path.dirname(os.path.dirname(os.path.abspath(__file__)))


def in_copy(patch, ids):
    """evaluate in a private copy of /repo (VERIF_REPO), so that other runs against /repo are not disturbed"""
    import shutil
    import tempfile
    d = tempfile.mkdtemp(prefix="verif-repo-")
    try:
        subprocess.run("cd /repo && git archive HEAD | tar -x -C %s" % d, shell=True, check=True)
        a = subprocess.run(["patch", "-p1", "-s", "-d", d, "-i", patch], capture_output=True, text=True)
        if a.returncode != 0:
            print("patch does not apply: " + a.stdout + a.stderr)
            return 3
        env = dict(os.environ, VERIF_REPO=d, VERIF_EVIDENCE_DIR=os.path.join(d, ".evidence"), VERIF_REPLAYS_DIR=os.path.join(d, ".replays"))
        for pid in ids:
            p = subprocess.run([os.path.join(VERIF, "tools", "check"), pid, "--tier", os.environ.get("VERIF_TIER", "quick")],
                               capture_output=True, text=True, cwd=VERIF, env=env)
            lines = [l for l in p.stdout.splitlines() if l.startswith(("VIOLATION", "  ", "MACHINERY", "KNOWN"))]
            print("== %s exit=%d" % (pid, p.returncode))
            for l in lines[:8]:
                print("   " + l[:260])
    finally:
        shutil.rmtree(d, ignore_errors=True)
    return 0


def main():
    patch = os.path.abspath(sys.argv[1])
    ids = sys.argv[2:]
    if os.environ.get("SEED_IN_COPY"):
        return in_copy(patch, ids)
    st = subprocess.run(["git", "-C", "/repo", "status", "--porcelain"], capture_output=True, text=True).stdout.strip()
    if st:
        print("refusing: /repo has local changes:\n" + st)
        return 3
    a = subprocess.run(["git", "-C", "/repo", "apply", patch], capture_output=True, text=True)
    if a.returncode != 0:
        print("patch does not apply: " + a.stderr)
        return 3
    try:
        for pid in ids:
            p = subprocess.run([os.path.join(VERIF, "tools", "check"), pid, "--tier", os.environ.get("VERIF_TIER", "quick")],
                               capture_output=True, text=True, cwd=VERIF)
            lines = [l for l in p.stdout.splitlines() if l.startswith(("VIOLATION", "  ", "MACHINERY", "KNOWN"))]
            print("== %s exit=%d" % (pid, p.returncode))
            for l in lines[:8]:
                print("   " + l[:260])
    finally:
        subprocess.run(["git", "-C", "/repo", "checkout", "--", "."])
        subprocess.run(["git", "-C", "/repo", "clean", "-fdq", "--", "."])
        # evidence / replays written while the change was applied are not evidence of the unchanged tree
        subprocess.run(["git", "-C", VERIF, "checkout", "--", "evidence"], capture_output=True)
    return 0


if __name__ == "__main__":
    sys.exit(main())
