#!/usr/bin/env python3
"""Development aid: apply a seeded change to /repo, run the given checks, undo the change.
usage: tools/seedtest.py <patch.diff> <ID> [<ID> ...]   (never leaves the change applied)"""
import os
import subprocess
import sys

VERIF = os.path.dirname(os.path.dirname(os.path.abspath(__file__)))


def main():
    patch = os.path.abspath(sys.argv[1])
    ids = sys.argv[2:]
    st = subprocess.run(["git", "-C", "/repo", "status", "--porcelain"], capture_output=True, text=True).stdout.strip()
    if st:
        print("refusing: /repo has local changes:\n" + st)
        return 3
    a = subprocess.run(["git", "-C", "/repo", "apply", patch], capture_output=True, text=True)
    if a.returncode != 0:
        print("patch does not apply: " + a.stderr)
        return 3
    try:
        for pid in ids:
            p = subprocess.run([os.path.join(VERIF, "tools", "check"), pid, "--tier", os.environ.get("VERIF_TIER", "quick")],
                               capture_output=True, text=True, cwd=VERIF)
            lines = [l for l in p.stdout.splitlines() if l.startswith(("VIOLATION", "  ", "MACHINERY", "KNOWN"))]
            print("== %s exit=%d" % (pid, p.returncode))
            for l in lines[:8]:
                print("   " + l[:260])
    finally:
        subprocess.run(["git", "-C", "/repo", "checkout", "--", "."])
        subprocess.run(["git", "-C", "/repo", "clean", "-fdq", "--", "."])
        # evidence / replays written while the change was applied are not evidence of the unchanged tree
        subprocess.run(["git", "-C", VERIF, "checkout", "--", "evidence"], capture_output=True)
    return 0


if __name__ == "__main__":
    sys.exit(main())
