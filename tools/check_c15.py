#!/usr/bin/env python3
"""C15 - bounded indicators stay in range, bands stay ordered - on the lattice of spec/Formulas.tla.

The range and ordering statements of the property are written as theorems about the DOCUMENTED formulas
(RangeOK / GeOK / NonNegOK in spec/Formulas.tla: RSI, MFI, %K, %D, Aroon in [0,100], %R in [-100,0], Stochastic RSI
in [0,1], MFM, CMF, BoP in [-1,1]; upper >= middle >= lower for Bollinger, Keltner, Donchian, Acceleration and Envelope
bands; moving min <= value <= moving max; standard deviation, ATR, Ulcer index, band width >= 0).  TLC evaluates them
exactly (rational arithmetic) on every valid OHLCV word over small alphabets - long words with few symbols, because the
statements fail on long flat or monotone runs rather than on many symbols - and prints each word; the harness runs the
real indicators on the same words and the same statements are evaluated on the real outputs at every position
(tolerance 1e-9).  Positions whose documented formula has a zero denominator are exempt, and so are non-finite values
carried on from such a position (that is the C01 finding about poisoned windows, not a range question).
That the real values ARE the documented ones at every defined position is C01's comparison on the same machinery."""
import time

import check_c01_formulas
import vlib

PID = "C15"


def main():
    t0 = time.time()
    tier = vlib.tier()
    vlib.build_harness()
    V = vlib.Verdicts(PID)
    cov = check_c01_formulas.run(tier, V, V15=V)
    machinery = []
    if cov["statements_checked"] < 10000:
        machinery.append("only %d statements evaluated" % cov["statements_checked"])
    never = sorted(k for k, v in cov["per_statement"].items() if v == 0)
    expected_statements = sum(len(e["c15"]) for e in check_c01_formulas.F.ENTRIES if e["c15"])
    if never or len(cov["per_statement"]) < expected_statements:
        machinery.append("statements never evaluated on a real output (no values delivered?): %s (%d of %d statements seen)" %
                         (never, len(cov["per_statement"]), expected_statements))
    if cov["documented_formula_leaves_range"]:
        # the documentation itself would contradict the property: reported as a note, the verdict is about the real values
        print("MODEL: the documented formula does not satisfy: %s" % cov["documented_formula_leaves_range"])
    rc = V.finish()
    for m in machinery:
        print("MACHINERY: " + m)
    vlib.write_evidence(PID, "model_checking", {
        "states": 1, "transitions": cov["cases"], "traces_validated_against_impl": cov["cases"],
        "evaluations": cov["statements_checked"], "distinct_nontrivial": cov["cases"],
        "rule": "case = (indicator, configuration, input word); every word of length warm-up + longest period + 3..5 over 2-6 valid "
                "OHLCV bars (flat bar, close at high / low, zero volume) or prices; non-trivial = all (every word reaches past the warm-up)",
        "samples": [{"per_statement_positions": cov["per_statement"]}],
        "exhaustive": False, "known_findings_hit": V.hit, **{k: v for k, v in cov.items() if k != "per_statement"}},
        time.time() - t0, len(V.new),
        assumptions=["words over small alphabets of valid bars; periods 1..5", "positions with a zero denominator (and non-finite values "
                     "carried on from them) are exempt", "tolerance 1e-9"])
    if rc == 0 and machinery:
        return 2
    return rc


if __name__ == "__main__":
    vlib.main_wrapper(main)
