#!/usr/bin/env python3
"""C05 - strategies emit exactly one action per snapshot, Hold through warm-up.

For every strategy (base strategies, compounds, decorators) x configurations x n in 0..2w+2 the network
recorded from the real code is model checked by TLC (spec/Pipeline.tla).  Pass 1 derives the warm-up W
(number of leading Shift-fill tokens of a long run; must equal IdlePeriod() where declared); pass 2
evaluates, in every terminal state: ActCount (n actions for n >= W, at least n otherwise), ActFill (the
first W actions are fills = Hold), ActAlign (the i-th non-fill action depends on snapshot i).  Every
instance is executed on the real code: action count, values in {-1,0,1}, Hold prefix; model-reported
shifts are confirmed by perturbation runs."""
import random
import time

import pipeline_engine as pe
import vlib

PID = "C05"
HOLD = ("0", "8000000000000000")


def actions_of(real):
    bits = (real["outs"][0].get("bits") or [])
    vals = []
    for b in bits:
        if b in HOLD:
            vals.append(0)
        elif b == "3ff0000000000000":
            vals.append(1)
        elif b == "bff0000000000000":
            vals.append(-1)
        else:
            vals.append(None)
    return vals


def main():
    t0 = time.time()
    tier = vlib.tier()
    rng = random.Random(vlib.seed())
    vlib.build_harness()
    entries = [e for e in pe.catalogue() if e["class"] in ("strategy", "compound")]
    caps = [0] if tier == "quick" else [0, 2]
    cases = pe.build_cases(entries, tier, caps, rng, max_alt=2 if tier == "quick" else 5)
    # recording run, long enough for any warm-up
    for c in cases:
        c.rec_len = 2 * sum(c.cfg) + 16
    reqs = [{"id": "rec%d" % i, "pipe": c.pipe, "cfg": c.cfg, "cap": c.cap, "lens": [c.rec_len],
             "data": {"seed": 7}, "wiring": True, "values": True} for i, c in enumerate(cases)]
    res = vlib.run_children(reqs)
    V = vlib.Verdicts(PID)
    machinery = []
    cov = pe.Coverage()
    for c, r in zip(cases, res):
        c.rec = r
        if r is None or r.get("deadlock") or r.get("crash") or r.get("err"):
            if r and (r.get("deadlock") or r.get("crash")):
                # a strategy that hangs (Go runtime: all goroutines are asleep) or dies on n snapshots does not emit one action per
                # snapshot: a verdict on the real run, whatever its wiring looks like
                got = [o["n"] for o in (r.get("outs") or [])]
                V.violation({"pipe": c.pipe, "symptom": "never-completes"},
                            "%s: on %d snapshots the real strategy %s before its %d actions are out%s" %
                            (c.key(), c.rec_len, "hangs (Go runtime: all goroutines are asleep)" if r.get("deadlock") else "crashes",
                             c.rec_len, (": delivered %s" % got) if got else ""), {"pipe": c.pipe, "cfg": c.cfg, "cap": c.cap, "n": c.rec_len})
            else:
                machinery.append("%s: recording run failed (%s)" % (c.key(), r))
            continue
        c.idle = r.get("idle", -1)
        c.wiring = r.get("wiring")
        c.lens = [[c.rec_len]]
    # pass 1: warm-up = leading fills of the long run
    pe.run_models(cases, mode="por", W_of=lambda c: 0)
    def real_only(c):
        """no usable model of this wiring: exit 2 for the model, but the REAL runs are still judged against the property's
        arithmetic, with the warm-up the strategy declares (or the Hold prefix of its long run)"""
        acts = actions_of(c.rec) if c.rec else []
        lead = 0
        while lead < len(acts) and acts[lead] == 0:
            lead += 1
        c.w = c.idle if c.idle >= 0 else lead
        c.real_only = True
        c.wiring = None
        c.lens = [[n] for n in sorted({0, 1, 2, c.w, c.w + 1, c.w + 3})]

    for c in cases:
        if c.error or c.tlc is None:
            if c.lens:
                machinery.append("%s: %s" % (c.key(), c.error or "no model"))
                real_only(c)
            continue
        cov.add_tlc(c.tlc)
        t = c.terms.get((c.rec_len,), [None])[0]
        if t is None or not t["done"]:
            machinery.append("%s: long run does not terminate in the model" % c.key())
            real_only(c)
            continue
        toks = pe.sink_tokens(c.net, t)[0]
        w = 0
        while w < len(toks) and toks[w]["fill"]:
            w += 1
        c.w = w
        c.long_term = t
        if c.idle >= 0 and c.idle != w:
            # declared IdlePeriod disagrees with the Hold prefix the network produces: confirm on the real run
            acts = actions_of(c.rec)
            lead = 0
            while lead < len(acts) and acts[lead] == 0:
                lead += 1
            if lead < c.idle:
                V.violation({"pipe": c.pipe, "symptom": "idle-mismatch"},
                            "%s: declares IdlePeriod %d but emits a non-Hold action at position %d" % (c.key(), c.idle, lead),
                            {"pipe": c.pipe, "cfg": c.cfg, "declared": c.idle, "model_fills": w})
            else:
                cov.notes.append("%s: IdlePeriod() = %d, Shift-fill prefix = %d" % (c.key(), c.idle, w))
        ns = sorted(set(list(range(0, min(2 * w + 3, 14 if tier == "quick" else 40))) + [w - 1, w, w + 1, w + 2, 2 * w + 2]))
        c.lens = [[n] for n in ns if n >= 0]
    # pass 2
    pe.run_models(cases, mode="por", W_of=lambda c: c.w)
    cov.real_runs += pe.run_real(cases, values=True)
    for c in cases:
        if not c.lens:
            continue
        if c.error or getattr(c, "real_only", False):
            # no model of this wiring: exit 2 for the model - the action count of the REAL runs is still a verdict
            if c.error:
                machinery.append("%s: %s" % (c.key(), c.error))
            for lv in c.lens:
                real = c.real.get((lv[0],))
                if real is None or real.get("deadlock") or real.get("crash"):
                    continue
                acts = actions_of(real)
                n, w = lv[0], c.w
                if n >= w and len(acts) != n:
                    V.violation({"pipe": c.pipe, "symptom": "count", "delta": len(acts) - n, "len": "long"},
                                "%s n=%d: emits %d actions for %d snapshots" % (c.key(), n, len(acts), n),
                                {"pipe": c.pipe, "cfg": c.cfg, "cap": c.cap, "n": n, "warmup": w, "model": None})
            continue
        cov.add_tlc(c.tlc)
        cov.instances += 1
        w = c.w
        for lv in c.lens:
            n = lv[0]
            real = c.real.get((n,))
            terms = c.terms.get((n,), [])
            if len(terms) != 1 or real is None:
                machinery.append("%s n=%d: %d terminal states / real %s" % (c.key(), n, len(terms), real is not None))
                continue
            term = terms[0]
            cov.nontrivial.add((c.pipe, tuple(c.cfg), c.cap, n))
            replay = {"pipe": c.pipe, "cfg": c.cfg, "cap": c.cap, "n": n, "warmup": w,
                      "model": {k: term[k] for k in ("done", "actCount", "actFill", "actAlign")}}
            if real.get("deadlock") or real.get("crash"):
                cov.notes.append("%s n=%d: real run does not terminate (C03)" % (c.key(), n))
                continue
            diffs = pe.compare_real_model(c.net, term, real)
            if diffs:
                machinery.append("MODEL-DIVERGENCE %s n=%d: %s" % (c.key(), n, diffs))
            acts = actions_of(real)
            cnt = len(acts)
            replay["real_count"] = cnt
            replay["real_actions"] = acts[:40]
            mtoks = pe.sink_tokens(c.net, term)[0]
            if any(a is None for a in acts):
                V.violation({"pipe": c.pipe, "symptom": "not-an-action"},
                            "%s n=%d: emits a value that is not Sell/Hold/Buy" % (c.key(), n), replay)
            rel = "long" if n >= w else "short"
            if n >= w and cnt != n:
                shift = None
                # where does the model say action i comes from?
                nf = [(i, t["hi"]) for i, t in enumerate(mtoks) if not t["fill"]]
                if nf:
                    shift = nf[0][0] - nf[0][1]
                V.violation({"pipe": c.pipe, "symptom": "count", "delta": cnt - n, "len": rel},
                            "%s n=%d: emits %d actions for %d snapshots (model: %d; first data-dependent action at index %s "
                            "depends on snapshot %s)" % (c.key(), n, cnt, n, len(mtoks), nf[0][0] if nf else None,
                                                          nf[0][1] if nf else None), replay)
            elif n < w and cnt < n:
                V.violation({"pipe": c.pipe, "symptom": "count", "delta": cnt - n, "len": rel},
                            "%s n=%d (< warm-up %d): emits only %d actions" % (c.key(), n, w, cnt), replay)
            lead = acts[:min(w, cnt)]
            if any(a != 0 for a in lead):
                V.violation({"pipe": c.pipe, "symptom": "hold-prefix", "len": rel},
                            "%s n=%d: non-Hold action inside the warm-up of %d: %s" % (c.key(), n, w, lead), replay)
            if term["done"] and cnt == n and n >= w and not term["actAlign"]:
                # model: some data-dependent action i depends on snapshot hi != i
                bad = [(i, t["hi"]) for i, t in enumerate(mtoks) if not t["fill"] and t["hi"] != i][:3]
                V_model = "%s n=%d: model: action index/snapshot pairs %s" % (c.key(), n, bad)
                conf = confirm_shift(c, n, bad)
                if conf:
                    V.violation({"pipe": c.pipe, "symptom": "shifted", "len": rel}, V_model + "; " + conf, replay)
                else:
                    machinery.append("MODEL-ONLY " + V_model + " (not confirmed on the code)")
            if len(cov.samples) < 5 and n == w + 2:
                cov.samples.append({"pipe": c.pipe, "cfg": c.cfg, "n": n, "warmup": w, "real_actions": acts,
                                    "model_tokens": [(t["hi"], t["fill"]) for t in mtoks]})
    rc = V.finish()
    for m in machinery[:40]:
        print("MACHINERY: " + m)
    vlib.write_evidence(PID, "model_checking", {
        "states": cov.states, "transitions": cov.transitions, "traces_validated_against_impl": cov.real_runs,
        "samples": cov.samples or [{"note": "none"}], "evaluations": cov.real_runs,
        "distinct_nontrivial": len(cov.nontrivial),
        "rule": "instance = (strategy, configuration, capacity, n); TLC on the recorded network, all n as initial states, "
                "ActCount/ActFill/ActAlign evaluated in every terminal state; each instance run on the real code; "
                "every instance is non-trivial (a strategy must emit for every n)",
        "tlc_runs": cov.tlc_runs, "instances": cov.instances, "strategies": len(entries), "exhaustive": False,
        "notes": cov.notes[:40], "machinery": machinery[:40], "known_findings_hit": V.hit},
        time.time() - t0, len(V.new),
        assumptions=["fill tokens stand for the Hold value passed to helper.Shift; a decision closure maps any input to an action",
                     "stage programs bound by C16 probes; reduction cross-checked under C03"])
    if rc == 0 and machinery:
        return 2
    return rc


def confirm_shift(c, n, bad):
    """perturbation: does action i change when snapshot hi changes, and not when only later ones change?"""
    if not bad:
        return None
    i, hi = bad[0]
    base = {"pipe": c.pipe, "cfg": c.cfg, "cap": c.cap, "lens": [n], "values": True}
    reqs = []
    seeds = [21, 22, 23, 24]
    for sd in seeds:
        reqs.append(dict(base, id="b%d" % sd, data={"seed": sd}))
        reqs.append(dict(base, id="p%d" % sd, data={"seed": sd, "perturbed": True, "perturb_at": hi + 1, "seed2": 900 + sd}))
    res = vlib.run_children(reqs, jobs=4)
    stable = True
    for k in range(0, len(res), 2):
        a, b = res[k], res[k + 1]
        if not a or not b or a.get("deadlock") or b.get("deadlock"):
            return None
        xa, xb = actions_of(a), actions_of(b)
        if xa[:i + 1] != xb[:i + 1]:
            stable = False
    if stable and hi < i:
        return "confirmed on the code: actions up to index %d do not change when snapshots after %d change " \
               "(the action at index %d belongs to snapshot %d)" % (i, hi, i, hi)
    return None


if __name__ == "__main__":
    vlib.main_wrapper(main)
