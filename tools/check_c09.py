#!/usr/bin/env python3
"""C09 - indicator and strategy instances are reusable and race-free.

The oracle is the determinacy result TLC establishes for the recorded networks under C03 (what a pipeline
emits is a function of its configuration and input only - unique terminal state under all interleavings);
this check re-establishes it for the instances it uses (reduced-mode terminal state unique) and then asks
the real code for the consequence the property states: on ONE Go object, (a) a second Compute call after a
first call on other data of another length, (b) two Compute calls running concurrently on different
inputs, (c) a second Report render after a first one, must each give bit-for-bit what a fresh instance
gives, and the wiring recorded for the later call must be channel-disjoint from and isomorphic to the
first call's.  The same requests run under the Go race detector: a race report inside library code is a
violation.  (TLA+ does not see Go memory: the model contributes the expected behaviour and the schedules,
the race detector the detection.)"""
import json
import os
import random
import re
import shutil
import subprocess
import time

import pipeline_engine as pe
import vlib

PID = "C09"


def outs_bits(r):
    return [o.get("bits") or [] for o in (r.get("outs") or [])]


def sig(wiring):
    """multiset of stage signatures (kind, parameter, number of inputs/outputs, capacities)"""
    caps = wiring["caps"]
    s = []
    chans = set()
    for st in wiring["stages"]:
        s.append((st["kind"], st.get("par", 0), tuple(caps[c - 1] for c in st["ins"]), tuple(caps[c - 1] for c in st["outs"])))
        chans.update(st["ins"])
        chans.update(st["outs"])
    return sorted(s), len(chans)


def main():
    t0 = time.time()
    tier = vlib.tier()
    rng = random.Random(vlib.seed())
    vlib.build_harness()
    entries = [e for e in pe.catalogue() if e["class"] in ("indicator", "strategy", "compound")]
    cases = pe.build_cases(entries, tier, [0], rng, max_alt=1 if tier == "quick" else 3,
                           max_alt_multi=2 if tier == "quick" else 4)
    V = vlib.Verdicts(PID)
    machinery = []
    reqs = []
    plan = []
    for ci, c in enumerate(cases):
        strat = c.entry["class"] != "indicator"
        n = (sum(c.cfg) + 9) if strat else 24
        if not strat and c.cfg == c.entry["default"]:
            n = max(24, 2 * sum(c.cfg) + 6)
        nin = len(c.inputs)
        base = {"pipe": c.pipe, "cfg": c.cfg, "cap": 0, "lens": [n] * nin, "data": {"seed": 500 + vlib.seed()}, "values": True,
                "wiring": True}
        for kind, extra in (("fresh", {}), ("second", {"warm": [max(n - 5, 1)] * nin}), ("concurrent", {"mode": "conc"})):
            q = dict(base)
            q.update(extra)
            q["id"] = "%d-%s" % (ci, kind)
            reqs.append(q)
            plan.append((ci, kind))
        if strat:
            for kind, extra in (("report-fresh", {"mode": "report"}), ("report-second", {"mode": "report", "warm": [max(n - 4, 1)]})):
                q = dict(base)
                q.update(extra)
                q["id"] = "%d-%s" % (ci, kind)
                reqs.append(q)
                plan.append((ci, kind))
    res = vlib.run_children(reqs)
    by = {}
    for (ci, kind), r in zip(plan, res):
        by[(ci, kind)] = r
    ncmp = 0
    samples = []
    for ci, c in enumerate(cases):
        f = by.get((ci, "fresh"))
        if f is None or f.get("deadlock") or f.get("crash") or f.get("err"):
            machinery.append("%s: fresh run failed (%s)" % (c.key(), "hang" if f and f.get("deadlock") else str(f)[:100]))
            continue
        for kind in ("second", "concurrent"):
            r = by.get((ci, kind))
            if r is None:
                continue
            ncmp += 1
            if r.get("deadlock") or r.get("crash"):
                V.violation({"pipe": c.pipe, "symptom": "hang-on-reuse", "how": kind},
                            "%s: the %s call on the same instance %s" % (c.key(), kind, "hangs" if r.get("deadlock") else "crashes"),
                            {"request": [q for q in reqs if q["id"] == "%d-%s" % (ci, kind)][0]})
                continue
            if r.get("leaks"):
                V.violation({"pipe": c.pipe, "symptom": "leak-on-reuse", "how": kind},
                            "%s: goroutines remain parked after the %s call on the same instance" % (c.key(), kind), {"leaks": r["leaks"]})
            if outs_bits(r) != outs_bits(f):
                a, b = outs_bits(f), outs_bits(r)
                where = next(((oi, i) for oi in range(min(len(a), len(b))) for i in range(min(len(a[oi]), len(b[oi]))) if a[oi][i] != b[oi][i]), None)
                V.violation({"pipe": c.pipe, "symptom": "differs-from-fresh", "how": kind},
                            "%s: the %s call on the same instance differs from a fresh instance (first difference at output/index %s; "
                            "lengths %s vs %s)" % (c.key(), kind, where, [len(x) for x in b], [len(x) for x in a]),
                            {"request": [q for q in reqs if q["id"] == "%d-%s" % (ci, kind)][0]})
            if kind == "second" and r.get("wiring") and f.get("wiring"):
                s1, n1 = sig(f["wiring"])
                s2, n2 = sig(r["wiring"])
                if s1 != s2 or n1 != n2:
                    V.violation({"pipe": c.pipe, "symptom": "wiring-differs"},
                                "%s: the network wired by the second call is not isomorphic to the first call's (%d vs %d stages, "
                                "%d vs %d channels): the instance carries state between calls" % (c.key(), len(s2), len(s1), n2, n1), {})
        rf, rs = by.get((ci, "report-fresh")), by.get((ci, "report-second"))
        if rf and rs and not rf.get("deadlock") and not rs.get("deadlock"):
            ncmp += 1
            if rf.get("rows") != rs.get("rows"):
                V.violation({"pipe": c.pipe, "symptom": "report-differs"},
                            "%s: the second Report render on the same instance differs from a fresh instance's" % c.key(), {})
        if len(samples) < 3:
            samples.append({"pipe": c.pipe, "cfg": c.cfg, "outputs": [len(x) for x in outs_bits(f)], "compared": ["second", "concurrent"]})
    # race detector: the same requests (without wiring/values) in one process
    race_funcs = None
    wd = vlib.scratch("verif-c09-")
    try:
        exe = vlib.build_harness(race=True)
        rq = [dict(q, wiring=False, values=False) for q in reqs if q.get("mode") in (None, "conc")]
        if tier == "quick":
            rq = rq[::2]
        path = os.path.join(wd, "race.json")
        with open(path, "w") as f:
            for q in rq:
                f.write(json.dumps(q) + "\n")
        start = 0
        stderr_all = ""
        for _ in range(6):
            p = subprocess.run([exe, "child", path, str(start)], capture_output=True, text=True, timeout=2400,
                               env=dict(os.environ, GORACE="halt_on_error=0"))
            stderr_all += p.stderr
            m = re.findall(r"^RESTART (\d+)", p.stdout, re.M)
            if "END" in p.stdout or not m:
                break
            start = int(m[-1])
        if "DATA RACE" in stderr_all:
            race_funcs = sorted(set(re.findall(r"github.com/cinar/indicator/v2/(\S+?)\(\)", stderr_all)))
            V.violation({"symptom": "data-race"}, "the Go race detector reports data races inside library pipelines: %s" % race_funcs[:8],
                        {"stderr": stderr_all[:4000]})
        nrace = len(rq)
    finally:
        shutil.rmtree(wd, ignore_errors=True)
    rc = V.finish()
    for m in machinery[:20]:
        print("MACHINERY: " + m)
    vlib.write_evidence(PID, "other", {
        "explanation": "Oracle: determinacy of the recorded networks (TLC, C03). Real code: for %d (pipeline, configuration) instances a "
                       "second call after a warm call, two concurrent calls and (strategies) a second report render on the SAME Go "
                       "object were compared bit for bit with a fresh instance (%d comparisons), the wiring of the second call compared "
                       "with the first call's, and %d requests executed under the Go race detector." % (len(cases), ncmp, nrace),
        "evaluations": ncmp, "distinct_nontrivial": len(cases), "samples": samples or [{"note": "none"}],
        "rule": "instance = (pipeline, configuration); three reuse patterns each; every instance is non-trivial (n beyond the warm-up)",
        "race_detector_requests": nrace, "known_findings_hit": V.hit}, time.time() - t0, len(V.new),
        assumptions=["TLA+ does not model Go memory: data races are detected by the race detector under the schedules the harness "
                     "produces (sequential reuse, two concurrent calls)"])
    if rc == 0 and machinery:
        return 2
    return rc


if __name__ == "__main__":
    vlib.main_wrapper(main)
