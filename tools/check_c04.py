#!/usr/bin/env python3
"""C04 - no look-ahead: output i depends only on inputs up to i.

Model side (a statement about ALL data, which no finite set of series can establish): for every
indicator and strategy x configurations, TLC checks on the network recorded from the real code that
every token delivered to a reader at index k has provenance hi <= k + w (indicators, w = declared
warm-up, + documented lag) resp. hi <= k (strategy actions) - NoLookAhead / ActNoLook, evaluated in
every terminal state for all n.
Real side: (a) prefix runs - the result on s[0:m] is bit-for-bit the prefix of the result on s[0:n];
(b) perturbation runs - replacing all inputs from position h on leaves every output before h - w
(actions: before h) unchanged.  A model-reported look-ahead is reported as a violation only when a
perturbation run reproduces it on the real code."""
import random
import time

import pipeline_engine as pe
import vlib

PID = "C04"


def outs_bits(r):
    return [o.get("bits") or [] for o in r.get("outs", [])]


def main():
    t0 = time.time()
    tier = vlib.tier()
    rng = random.Random(vlib.seed())
    vlib.build_harness()
    entries = [e for e in pe.catalogue() if e["class"] in ("indicator", "strategy", "compound")]
    cases = pe.build_cases(entries, tier, [0], rng, max_alt=1 if tier == "quick" else 4,
                           max_alt_multi=3 if tier == "quick" else 6)     # the boundary relations between two periods (equal, one apart)
    for c in cases:
        c.is_strategy = c.entry["class"] != "indicator"
        c.rec_len = (2 * sum(c.cfg) + 16) if c.is_strategy else 40
    pe_insts = [{"pipe": c.pipe, "cfg": c.cfg, "cap": c.cap, "inputs": c.inputs, "rec_len": c.rec_len} for c in cases]
    res = pe.record(pe_insts)
    V = vlib.Verdicts(PID)
    machinery = []
    cov = pe.Coverage()
    for c, r in zip(cases, res):
        c.rec = r
        if r is None or r.get("deadlock") or r.get("crash") or r.get("err"):
            machinery.append("%s: recording run failed" % c.key())
            continue
        c.idle = r.get("idle", -1)
        c.lag = r.get("lag")
        c.wiring = r.get("wiring")
        if c.is_strategy:
            c.w = 0
            est = max(sum(c.cfg), 2)
            ns = sorted({0, 1, 2, 3, est, est + 1, est + 3, min(2 * est + 2, est + 12)})
        else:
            if c.idle < 0:
                cov.notes.append("%s: no declared warm-up, skipped" % c.key())
                continue
            c.w = c.idle
            w = c.w
            ns = sorted({0, 1, w, w + 1, w + 2, w + 3, min(2 * w + 2, w + 12)})
        c.lens = [[n] * len(c.inputs) for n in ns]
        c.nmax = ns[-1]
    pe.run_models(cases, mode="por", W_of=lambda c: c.w, lags_of=lambda c: c.lag)
    # real side: base run at nmax, prefix runs, perturbation runs
    reqs = []
    plan = []
    nseeds = 1 if tier == "quick" else 3
    for ci, c in enumerate(cases):
        if not c.lens:
            continue        # (a case without a usable model is still driven: prefix and perturbation runs need no model)
        nin = len(c.inputs)
        n = c.nmax
        for sd in range(nseeds):
            seed = 100 + 17 * sd + vlib.seed()
            base = {"pipe": c.pipe, "cfg": c.cfg, "cap": c.cap, "values": True}
            reqs.append(dict(base, id=str(len(reqs)), lens=[n] * nin, data={"seed": seed}))
            plan.append((ci, sd, "base", n))
            ms = range(0, n) if (tier == "thorough" or n <= 24) else sorted(set(rng.sample(range(0, n), 16)))
            for m in ms:
                reqs.append(dict(base, id=str(len(reqs)), lens=[m] * nin, data={"seed": seed}))
                plan.append((ci, sd, "prefix", m))
            hs = range(0, n) if (tier == "thorough" or n <= 24) else sorted(set(rng.sample(range(0, n), 16)))
            for h in hs:
                reqs.append(dict(base, id=str(len(reqs)), lens=[n] * nin,
                                 data={"seed": seed, "perturbed": True, "perturb_at": h, "seed2": 7000 + seed}))
                plan.append((ci, sd, "perturb", h))
    res = vlib.run_children(reqs)
    cov.real_runs = len(reqs)
    bases = {}
    for (ci, sd, kind, x), r in zip(plan, res):
        if kind == "base":
            bases[(ci, sd)] = r
    for (ci, sd, kind, x), r in zip(plan, res):
        c = cases[ci]
        b = bases.get((ci, sd))
        if kind == "base" or b is None or r is None:
            continue
        if b.get("deadlock") or r.get("deadlock") or b.get("crash") or r.get("crash"):
            cov.notes.append("%s: a real run does not terminate (C03)" % c.key())
            continue
        bb, rb = outs_bits(b), outs_bits(r)
        lags = c.lag or [0] * len(bb)
        if kind == "prefix":
            for oi, (x_full, x_pre) in enumerate(zip(bb, rb)):
                m = min(len(x_full), len(x_pre))
                first = next((i for i in range(m) if x_full[i] != x_pre[i]), None)
                if first is not None:
                    V.violation({"pipe": c.pipe, "symptom": "prefix-differs"},
                                "%s: output %d value %d differs between the run on the first %d inputs and the run on %d inputs"
                                % (c.key(), oi, first, x, c.nmax),
                                {"pipe": c.pipe, "cfg": c.cfg, "n": c.nmax, "prefix": x, "output": oi, "index": first})
            cov.nontrivial.add((c.pipe, tuple(c.cfg), "prefix", x))
        else:
            h = x
            for oi, (x_full, x_per) in enumerate(zip(bb, rb)):
                m = min(len(x_full), len(x_per))
                first = next((i for i in range(m) if x_full[i] != x_per[i]), None)
                limit = (h - c.w - lags[oi]) if not c.is_strategy else h
                # outputs with index < limit may only depend on inputs before h
                if first is not None and first < limit:
                    V.violation({"pipe": c.pipe, "symptom": "look-ahead"},
                                "%s: output %d value %d changes when only inputs from position %d on change "
                                "(warm-up %d): it depends on a later input" % (c.key(), oi, first, h, c.w),
                                {"pipe": c.pipe, "cfg": c.cfg, "n": c.nmax, "perturb_at": h, "output": oi, "index": first})
            cov.nontrivial.add((c.pipe, tuple(c.cfg), "perturb", h))
    # model verdicts
    for c in cases:
        if not c.lens:
            continue
        if c.error:
            machinery.append("%s: %s" % (c.key(), c.error))
            continue
        cov.add_tlc(c.tlc)
        cov.instances += 1
        for lv in c.lens:
            terms = c.terms.get(tuple(lv), [])
            if len(terms) != 1:
                machinery.append("%s lens=%s: %d terminal states" % (c.key(), lv, len(terms)))
                continue
            t = terms[0]
            flag = t["actNoLook"] if c.is_strategy else t["noLook"]
            if not flag:
                toks = pe.sink_tokens(c.net, t)
                lags = c.lag or [0] * len(toks)
                bad = []
                for oi, seq in enumerate(toks):
                    for k, tok in enumerate(seq):
                        lim = k if c.is_strategy else k + c.w + lags[oi]
                        if tok["hi"] > lim:
                            bad.append((oi, k, tok["hi"]))
                            break
                already = any(key.get("pipe") == c.pipe and key.get("symptom") == "look-ahead" for key, _, _ in V.new) or \
                    any(True for k in V.hit)
                if not already:
                    machinery.append("MODEL-ONLY %s lens=%s: model reports look-ahead %s (output, index, input position) "
                                     "not reproduced by the perturbation runs" % (c.key(), lv, bad[:3]))
            if len(cov.samples) < 4 and lv[0] == c.nmax:
                toks = pe.sink_tokens(c.net, t)
                cov.samples.append({"pipe": c.pipe, "cfg": c.cfg, "n": lv[0], "warmup": c.w,
                                    "provenance_hi_of_output0": [x["hi"] for x in toks[0]][:16]})
    rc = V.finish()
    for m in machinery[:40]:
        print("MACHINERY: " + m)
    vlib.write_evidence(PID, "model_checking", {
        "states": cov.states, "transitions": cov.transitions, "traces_validated_against_impl": cov.real_runs,
        "samples": cov.samples or [{"note": "none"}], "evaluations": cov.real_runs,
        "distinct_nontrivial": len(cov.nontrivial),
        "rule": "model: NoLookAhead / ActNoLook evaluated by TLC in every terminal state of the recorded network for every n; "
                "real: one base run per (pipeline, configuration, seed), a prefix run for every cut point m and a perturbation run "
                "for every position h (sampled when n > 24 in the quick tier); distinct = (pipeline, configuration, kind, position)",
        "tlc_runs": cov.tlc_runs, "instances": cov.instances, "pipelines": len(entries), "exhaustive": False,
        "notes": cov.notes[:40], "machinery": machinery[:40], "known_findings_hit": V.hit},
        time.time() - t0, len(V.new),
        assumptions=["provenance tokens: a stage's output depends on the inputs it has consumed (closures are opaque)",
                     "real-side confirmation uses seeded random series: generic data"])
    if rc == 0 and machinery:
        return 2
    return rc


if __name__ == "__main__":
    vlib.main_wrapper(main)
