#!/usr/bin/env python3
"""C12 - Sync copies exactly the missing snapshots, once, for every asset.

spec/Sync.tla: job queue, W workers stepping Take -> LastDate -> GetSince -> Append one repository call per
step, faults injected by the environment, two consecutive runs; unsynchronised shared memory (error flag,
a target that is not safe for concurrent use) modelled so that DataRace is a reachable state predicate.
TLC checks Copied, Idempotent, Reported, NoDuplicates (and NoDataRace) over a set of scenarios (asset
lists, source/target contents, fault subsets, start date) x W x all interleavings and prints what the
property prescribes per scenario; Sync.Run is executed on every scenario with recording, fault-injecting
wrappers over in-memory and file-system targets for several worker counts, final contents and returned
errors are compared, the call log is validated against the specification (SyncTrace.tla), and the same
scenarios run under the Go race detector."""
import itertools
import json
import os
import random
import re
import subprocess
import time

import vlib

PID = "C12"
# are the error flag and the in-memory target synchronised in the code? (False at the pinned commit; True since fixes f4e09ee, e35f2ee)
LOCKED_AS_CODED = True

NAMES = ["a", "b", "c"]
SRC_CHOICES = [None, [], [1, 2], [2, 3], [1, 2, 3, 4], [5]]
TGT_CHOICES = [None, [], [1], [1, 2], [3], [2, 4]]


def scenarios(tier, rng):
    out = []

    def add(assets, src, tgt, fg, fa, start, from_target=False):
        out.append({"id": len(out) + 1, "assets": assets, "src": src, "tgt0": tgt, "failGet": fg, "failApp": fa,
                    "start": start, "fromTarget": from_target})
    # systematic single-asset core: every source x target content x start
    for s in SRC_CHOICES:
        for t in TGT_CHOICES:
            for start in (1, 3):
                add(["a"], {} if s is None else {"a": s}, {} if t is None else {"a": t}, [], [], start)
    # faults and several assets: sampled
    n = 40 if tier == "quick" else 400
    for _ in range(n):
        k = rng.choice([2, 3])
        assets = rng.sample(NAMES, k)
        src, tgt = {}, {}
        for a in NAMES:
            s = rng.choice(SRC_CHOICES)
            t = rng.choice(TGT_CHOICES)
            if s is not None:
                src[a] = s
            if t is not None:
                tgt[a] = t
        fg = [a for a in assets if rng.random() < 0.25]
        fa = [a for a in assets if rng.random() < 0.25]
        from_target = rng.random() < 0.3 and len(tgt) > 0
        if from_target:
            assets = sorted(tgt)
            fg = [a for a in fg if a in assets]
            fa = [a for a in fa if a in assets]
        add(assets, src, tgt, fg, fa, rng.choice([1, 3]), from_target)
    return out


def tla_seq(xs):
    return "<<" + ", ".join(str(x) for x in xs) + ">>"


def tla_fun(d):
    if not d:
        return "<<>>"     # the empty function
    return "(" + " @@ ".join('"%s" :> %s' % (k, tla_seq(v)) for k, v in sorted(d.items())) + ")"


def tla_scenario(sc):
    # tgt0 must be defined for every name that is requested or present (<<>> = holds nothing)
    tg = dict(sc["tgt0"])
    for a in sc["assets"]:
        tg.setdefault(a, [])
    return ('[id |-> %d, assets |-> %s, src |-> %s, tgt0 |-> %s, failGet |-> {%s}, failApp |-> {%s}, start |-> %d]' % (
        sc["id"], tla_seq('"%s"' % a for a in sc["assets"]), tla_fun(sc["src"]), tla_fun(tg),
        ", ".join('"%s"' % a for a in sc["failGet"]), ", ".join('"%s"' % a for a in sc["failApp"]), sc["start"]))


def main():
    t0 = time.time()
    tier = vlib.tier()
    rng = random.Random(vlib.seed())
    vlib.build_harness()
    V = vlib.Verdicts(PID)
    machinery = []
    scs = scenarios(tier, rng)
    mc = "---- MODULE MCSync ----\nEXTENDS Sync\nMCScenarios == {\n" + ",\n".join(tla_scenario(s) for s in scs) + "\n}\n====\n"
    states = trans = 0
    expected = {}
    model_race = None
    for W in ([1, 2] if tier == "quick" else [1, 2, 3]):
        cfg = ("CONSTANTS Scenarios <- MCScenarios W = %d Locked = %s\nSPECIFICATION Spec\nCHECK_DEADLOCK FALSE\n"
               "INVARIANTS Copied Idempotent Reported NoDuplicates InFlightBound EmitExpected\n" % (W, "TRUE" if LOCKED_AS_CODED else "FALSE"))
        r = vlib.run_tlc({"Sync.tla": None, "MCSync.tla": mc}, "MCSync", cfg, workers=8, timeout=3000, heap="8g")
        states += r.distinct
        trans += r.generated
        if r.violation:
            machinery.append("spec/Sync.tla W=%d: %s violated in the model:\n%s" % (W, r.violation, "\n".join(r.trace[:30])))
        for tag, o in r.prints:
            if tag == "EXP":
                expected[o["id"]] = o
    # data race as a reachable state of the design (2 workers, a few scenarios with two failing assets / two appends)
    small = [s for s in scs if len(s["assets"]) >= 2][:12]
    mcs = "---- MODULE MCSync ----\nEXTENDS Sync\nMCScenarios == {\n" + ",\n".join(tla_scenario(s) for s in small) + "\n}\n====\n"
    cfg = ("CONSTANTS Scenarios <- MCScenarios W = 2 Locked = %s\nSPECIFICATION Spec\nCHECK_DEADLOCK FALSE\nINVARIANTS NoDataRace\n"
           % ("TRUE" if LOCKED_AS_CODED else "FALSE"))
    rr = vlib.run_tlc({"Sync.tla": None, "MCSync.tla": mcs}, "MCSync", cfg, workers=4, timeout=1200, heap="4g")
    states += rr.distinct
    trans += rr.generated
    if rr.violation == "NoDataRace":
        model_race = True
    # liveness under fairness on a few scenarios
    cfg = ("CONSTANTS Scenarios <- MCScenarios W = 2 Locked = TRUE\nSPECIFICATION FairSpec\nCHECK_DEADLOCK FALSE\nPROPERTIES Termination\n")
    rl = vlib.run_tlc({"Sync.tla": None, "MCSync.tla": mcs}, "MCSync", cfg, workers=4, timeout=1200, heap="4g")
    states += rl.distinct
    trans += rl.generated
    if rl.violation:
        machinery.append("spec/Sync.tla: Termination violated under fairness (%s)" % rl.violation)
    # ---- the real code
    reqs = []
    for sc in scs:
        for target in ("memory", "fs"):
            for W in ((1, 2, 4) if tier == "quick" else (1, 2, 3, 4, 16)):
                if target == "memory" and W > 1 and not LOCKED_AS_CODED:
                    # the in-memory target is not safe for concurrent use (concurrent map writes may crash the runtime);
                    # that is exercised separately under the race detector
                    continue
                q = dict(sc)
                q["workers"] = W
                q["target"] = target
                reqs.append(q)
    res = vlib.run_children(reqs, subcmd="sync-child", timeout=1200)
    for r_ in res:
        if isinstance(r_, dict) and r_.get("log") is None:
            r_["log"] = []      # a run in which no call reached the wrappers logs nothing (JSON null)
    nreal = 0
    samples = []
    logs = []
    for q, r in zip(reqs, res):
        if r is None or r.get("crash") or r.get("deadlock") or r.get("err"):
            V.violation({"symptom": "crash", "target": q["target"]},
                        "Sync.Run crashed / hung on scenario %d (W=%d, %s target): %s" % (q["id"], q["workers"], q["target"], str(r)[:300]),
                        {"scenario": q})
            continue
        nreal += 1
        exp = expected.get(q["id"])
        if exp is None:
            machinery.append("no model expectation for scenario %d" % q["id"])
            continue
        want = {k: v for k, v in exp["expected"].items()}
        for run in (0, 1):
            got = r["after"][run]
            for a in sorted(set(want) | set(got)):
                w_ = want.get(a, [])
                g_ = got.get(a, [])
                if list(w_) != list(g_):
                    V.violation({"symptom": "contents", "run": run + 1},
                                "scenario %d (assets %s, W=%d, %s target) after run %d: target[%s] = %s, must be %s "
                                "(source %s, target before %s, start %d, failing get %s append %s)" %
                                (q["id"], q["assets"], q["workers"], q["target"], run + 1, a, g_, w_, q["src"].get(a), q["tgt0"].get(a),
                                 q["start"], q["failGet"], q["failApp"]), {"scenario": q, "result": {k: r[k] for k in ("after", "ret")}})
            if r["ret"][run] != exp["err"]:
                V.violation({"symptom": "error-report", "run": run + 1},
                            "scenario %d (W=%d, %s): run %d returned error=%s, failing assets say %s" %
                            (q["id"], q["workers"], q["target"], run + 1, r["ret"][run], exp["err"]), {"scenario": q})
        if len(samples) < 3 and len(q["assets"]) >= 2 and (q["failGet"] or q["failApp"]):
            samples.append({"scenario": q, "after_run1": r["after"][0], "returned_error": r["ret"], "calls_logged": len(r["log"] or [])})
        logs.append((q, r))
    # ---- race detector
    race_found = None
    rq = []
    for sc in [s for s in scs if len(s["assets"]) >= 2][:400 if tier == "thorough" else 40]:
        if True:
            q = dict(sc)
            q["workers"] = 4
            q["target"] = "memory"
            rq.append(q)
    wd = vlib.scratch("verif-c12-")
    try:
        exe = vlib.build_harness(race=True)
        path = os.path.join(wd, "race.json")
        with open(path, "w") as f:
            for q in rq:
                f.write(json.dumps(q) + "\n")
        p = subprocess.run([exe, "sync-child", path, "0"], capture_output=True, text=True, timeout=1200,
                           env=dict(os.environ, GORACE="halt_on_error=0"))
        if "DATA RACE" in p.stderr or "concurrent map" in p.stderr:
            funcs = sorted(set(re.findall(r"github.com/cinar/indicator/v2/(asset\.\S+?)\(\)", p.stderr)))
            race_found = funcs
            V.violation({"symptom": "data-race"},
                        "Sync.Run with 4 workers and an in-memory target: the Go race detector reports data races in %s" % funcs[:6],
                        {"scenarios": len(rq), "stderr": p.stderr[:3000]})
        elif p.returncode != 0 and "END" not in p.stdout:
            machinery.append("race run failed: " + p.stderr[:500])
    finally:
        import shutil
        shutil.rmtree(wd, ignore_errors=True)
    if model_race and not race_found and not LOCKED_AS_CODED:
        machinery.append("the model (Locked=FALSE as coded) reaches DataRace but the race detector saw none")
    if race_found and not model_race:
        print("MODEL-DIVERGENCE: race detector reports races the model (Locked=%s) does not admit" % LOCKED_AS_CODED)
    if model_race:
        print("MODEL: spec/Sync.tla with Locked=FALSE reaches DataRace (two workers in unsynchronised conflicting accesses)")
    # ---- trace validation of the call logs
    import check_c12_trace
    ntr, nacc, bad = check_c12_trace.validate(logs, LOCKED_AS_CODED, tier)
    for q, why in bad:
        V.violation({"symptom": "trace-rejected"},
                    "the call log of Sync.Run on scenario %d (W=%d, %s) is not a behaviour of spec/Sync.tla: %s" %
                    (q["id"], q["workers"], q["target"], why), {"scenario": q})
    # ---- beyond the property: factories and the command-line tool (spec/Tools.tla)
    import check_c12_cli
    clicov = check_c12_cli.run(tier, V, machinery, scs, tla_scenario)
    rc = V.finish()
    for m in machinery:
        print("MACHINERY: " + m[:600])
    vlib.write_evidence(PID, "model_checking", {
        "states": states, "transitions": trans, "traces_validated_against_impl": nreal + ntr,
        "samples": samples or [{"note": "none"}], "evaluations": nreal, "distinct_nontrivial": len([s for s in scs if s["src"]]),
        "rule": "scenario = (asset list, source contents, target contents, failing-get set, failing-append set, start date): %d "
                "scenarios (72 systematic single-asset + seeded multi-asset with faults), each model checked for W in 1..3 over all "
                "interleavings and executed on the real Sync.Run for W in {1,2,4,..} x {memory, file-system} targets, twice in a row; "
                "non-trivial = the source holds something" % len(scs),
        "scenarios": len(scs), "call_logs_validated": ntr, "call_logs_accepted": nacc, "corrupted_call_logs_rejected": check_c12_trace.REJECTED[0], "race_detector_scenarios": len(rq),
        "model_reaches_data_race": bool(model_race), "exhaustive": False, "known_findings_hit": V.hit, **clicov},
        time.time() - t0, len(V.new),
        assumptions=["asset lists without duplicates", "data races are detected by the Go race detector under the schedules of W=4; the "
                     "model shows them reachable in the design"])
    if rc == 0 and machinery:
        return 2
    return rc


if __name__ == "__main__":
    vlib.main_wrapper(main)
