#!/usr/bin/env python3
"""C08 - Outcome is a faithful all-in/all-out portfolio simulation; normalised action streams alternate.

spec/Actions.tla models Outcome, NormalizeActions, DenormalizeActions and CountTransactions as state
machines over (price, action) pairs with prices on the lattice 2^p (IEEE arithmetic exact).  TLC explores
every word up to the depth bound and checks ZeroUntilBuy, BuyAndHold, NormInvariant, NormDenormId,
Alternates, AllInAllOut; every behaviour is emitted with the expected outcomes and replayed on the real
functions, compared bit for bit; the model-derived relations are also asserted on generic prices."""
import json
import os
import shutil
import time

import vlib

PID = "C08"


def main():
    t0 = time.time()
    tier = vlib.tier()
    vlib.build_harness()
    V = vlib.Verdicts(PID)
    machinery = []
    depth = 4 if tier == "quick" else 5
    pmax = 3
    base = "CONSTANTS PMax = %d Depth = %d\nSPECIFICATION Spec\nCHECK_DEADLOCK FALSE\n" % (pmax, depth)
    # exhaustive invariants without emitting (deeper)
    deep = "CONSTANTS PMax = %d Depth = %d\nSPECIFICATION Spec\nCHECK_DEADLOCK FALSE\n" % (pmax, depth + 1)
    r1 = vlib.run_tlc({"Actions.tla": None}, "Actions",
                      deep + "INVARIANTS ZeroUntilBuy BuyAndHold NormInvariant NormDenormId\nPROPERTIES Alternates AllInAllOut\n",
                      workers=8, timeout=1800, heap="6g")
    model_viol = r1.violation
    r2 = vlib.run_tlc({"Actions.tla": None}, "Actions", base + "INVARIANTS Emit\n", workers=1, timeout=1800, heap="6g")
    hists = [o for t, o in r2.prints if t == "HIST"]
    wd = vlib.scratch("verif-c08-")
    try:
        path = os.path.join(wd, "hist.ndjson")
        with open(path, "w") as f:
            for h in hists:
                f.write(json.dumps(h) + "\n")
        p = vlib.harness_cmd(["replay-actions", path], timeout=1800)
        if p.returncode != 0:
            raise vlib.Machinery("replay-actions failed: " + p.stderr[:1000])
        rep = json.loads(p.stdout)
    finally:
        shutil.rmtree(wd, ignore_errors=True)
    for m in rep["mismatches"] or []:
        fn = m["what"].split("[")[0].split(" ")[0]
        V.violation({"function": fn}, m["what"], {"history": hists[m["hist"]], "mismatch": m})
    if model_viol and not rep["mismatches"]:
        machinery.append("spec/Actions.tla: %s violated in the model, no mismatch on the real code: the model does not follow "
                         "the code" % model_viol)
    elif model_viol:
        print("MODEL: spec/Actions.tla %s violated (confirmed on the real code)" % model_viol)
    rc = V.finish()
    for m in machinery:
        print("MACHINERY: " + m)
    vlib.write_evidence(PID, "model_checking", {
        "states": r1.distinct + r2.distinct, "transitions": r1.generated + r2.generated,
        "traces_validated_against_impl": len(hists), "samples": [{"history": hists[len(hists) // 3]}] if hists else [{"note": "none"}],
        "evaluations": rep["checks"], "distinct_nontrivial": len([h for h in hists if any(s["a"] != 0 for s in h)]),
        "rule": "every word of (action, price exponent) pairs over {Sell,Hold,Buy} x {0..%d} of length %d (invariants to length %d); "
                "non-trivial = contains a non-Hold action" % (pmax, depth, depth + 1),
        "exhaustive": True, "known_findings_hit": V.hit}, time.time() - t0, len(V.new),
        assumptions=["prices on the lattice 2^p make IEEE arithmetic exact; generic prices are sampled (seeded) for the derived relations"])
    if rc == 0 and machinery:
        return 2
    return rc


if __name__ == "__main__":
    vlib.main_wrapper(main)
