"""Generates spec/RulesData.tla (scratch) from spec/rules_documented.json: comparison atoms and the documented Buy / Sell
conditions as TLA+ formulas over atom values; and evaluates the atoms of a recorded row in Python."""
import ast
import json
import os

VERIF = os.path.dirname(os.path.dirname(os.path.abspath(__file__)))

# How much of the rule the documentation fixes (see spec/Rules.tla).  Overrides of the transcription, with the reason.
OVERRIDES = {
    # "acquiring and indefinitely retaining": Buy on the first snapshot, never Sell (written without an equality atom)
    "strategy.BuyAndHoldStrategy": {"buy": "i < 0.5", "sell": "0 > 1", "mode": "iff"},
    # "crossing above zero": the cross-over test the documentation literally states (previous value on the other side)
    "strategy/trend.ApoStrategy": {"buy": "prev_apo < 0 && apo > 0", "sell": "prev_apo > 0 && apo < 0", "mode": "iff"},
    # level statement in the doc, the code signals at the sign change only: the doc fixes the direction, not the timing
    "strategy/trend.QstickStrategy": {"mode": "onlyif"},
    # "crossing above the signal line": the code additionally requires MACD on the other side of zero (not documented)
    "strategy/trend.MacdStrategy": {"mode": "onlyif"},
    # the documented Buy conditions are conjunctive; the code's run-of-falls test differs in detail: direction only
    "strategy/momentum.TripleRsiStrategy": {"buy": "rsi < buy_at && close > ma", "sell": "rsi > sell_at", "mode": "onlyif"},
}
# known order of the levels / bands a rule compares against (so that TLC does not enumerate impossible valuations)
ASSUME = {
    "strategy/trend.CciStrategy": "lower_level < upper_level",
    "strategy/trend.EnvelopeStrategy": "lower < upper",
    "strategy/momentum.RsiStrategy": "buy_at < sell_at",
    "strategy/momentum.TripleRsiStrategy": "buy_at < sell_at",
    "strategy/volatility.BollingerBandsStrategy": "lower < upper",
    "strategy/volume.MoneyFlowIndexStrategy": "buy_at < sell_at",
}
# no documented decision rule (provenance of the fields is still checked)
NO_RULE = {"strategy/trend.AlligatorStrategy": "neither the type doc nor the README states a Buy/Sell rule",
           "strategy/momentum.StochasticRsiStrategy": "the documentation gives two levels but no direction (BuyAt 0.8 > SellAt 0.2)"}


# property C18: degree of homogeneity (price, volume) of the documented quantities the rules compare; levels and other
# literals are pure numbers, the literal 0 compares with anything (a sign does not change under positive scaling)
QDEG = {"apo": (1, 0), "prev_apo": (1, 0), "down": (0, 0), "up": (0, 0), "bop": (0, 0), "cci": (0, 0), "upper_level": (0, 0),
        "lower_level": (0, 0), "dema_long": (1, 0), "dema_short": (1, 0), "close": (1, 0), "lower": (1, 0), "upper": (1, 0),
        "fast": (1, 0), "slow": (1, 0), "medium": (1, 0), "long": (1, 0), "short": (1, 0), "kama": (1, 0), "j": (0, 0), "k": (0, 0),
        "d": (0, 0), "macd": (1, 0), "signal": (1, 0), "qstick": (1, 0), "trix": (0, 0), "tsi": (0, 0), "sma": (1, 0), "vwma": (1, 0),
        "ma": (1, 0), "wc": (1, 0), "ao": (1, 0), "rsi": (0, 0), "buy_at": (0, 0), "sell_at": (0, 0), "supertrend": (1, 0),
        "cmf": (0, 0), "emv": (2, -1), "fi": (1, 1), "mfi": (0, 0), "nvi": (0, 0), "ema": (0, 0), "vwap": (1, 0), "i": (0, 0)}
QDEG_IN = {("strategy/trend.TsiStrategy", "signal"): (0, 0)}     # the signal line of the TSI is an EMA of the TSI


def operand_dim(strategy, o):
    """<<price degree, volume degree, is the literal zero>> of an atom operand"""
    try:
        v = float(o)
        return (0, 0, v == 0.0)
    except ValueError:
        d = QDEG_IN.get((strategy, o), QDEG.get(o))
        if d is None:
            raise ValueError("no degree of homogeneity stated for quantity %r of %s" % (o, strategy))
        return (d[0], d[1], False)


def load():
    rules = json.load(open(os.path.join(VERIF, "spec", "rules_documented.json")))
    out = []
    for r in rules:
        s = r["strategy"]
        if s in NO_RULE:
            continue
        r = dict(r)
        r["mode"] = "iff"
        r.update(OVERRIDES.get(s, {}))
        out.append(r)
    return out


def pyexpr(e):
    return e.replace("&&", " and ").replace("||", " or ").replace("!", " not ").replace(" not =", " !=")


class Conv(ast.NodeVisitor):
    def __init__(self):
        self.atoms = []

    def atom(self, l, r):
        """canonical orientation: (a, b) with a <= b textually; returns (index, flipped)"""
        a, b = ast.unparse(l), ast.unparse(r)
        flipped = a > b
        key = (b, a) if flipped else (a, b)
        if key not in self.atoms:
            self.atoms.append(key)
        return self.atoms.index(key) + 1, flipped

    def conv(self, n):
        if isinstance(n, ast.BoolOp):
            op = " /\\ " if isinstance(n.op, ast.And) else " \\/ "
            return "(" + op.join(self.conv(v) for v in n.values) + ")"
        if isinstance(n, ast.UnaryOp) and isinstance(n.op, ast.Not):
            return "~(" + self.conv(n.operand) + ")"
        if isinstance(n, ast.Compare) and len(n.ops) == 1:
            k, flipped = self.atom(n.left, n.comparators[0])
            op = type(n.ops[0])
            if flipped:
                op = {ast.Lt: ast.Gt, ast.LtE: ast.GtE, ast.Gt: ast.Lt, ast.GtE: ast.LtE}.get(op, op)
            return {ast.Lt: "v[%d] = -1", ast.LtE: "v[%d] <= 0", ast.Gt: "v[%d] = 1", ast.GtE: "v[%d] >= 0",
                    ast.Eq: "v[%d] = 0", ast.NotEq: "v[%d] # 0"}[op] % k
        raise ValueError("unsupported expression: " + ast.dump(n))


def compile_rules():
    """returns (tla_text, meta) where meta[strategy] = {"atoms": [(lhs, rhs)...], "mode":...}"""
    rules = load()
    meta = {}
    nat, buy, sell, mode, nosell, assume, real, dims = [], [], [], [], [], [], [], []
    for r in rules:
        c = Conv()
        b = c.conv(ast.parse(pyexpr(r["buy"]), mode="eval").body)
        s = c.conv(ast.parse(pyexpr(r["sell"]), mode="eval").body)
        name = r["strategy"]
        a = ASSUME.get(name)
        assume.append('s = "%s" -> %s' % (name, c.conv(ast.parse(pyexpr(a), mode="eval").body) if a else "TRUE"))
        meta[name] = {"atoms": c.atoms, "mode": r["mode"], "buy": r["buy"], "sell": r["sell"], "doc": r.get("doc", "")[:300]}
        nat.append('s = "%s" -> %d' % (name, len(c.atoms)))
        dims.append('s = "%s" -> <<%s>>' % (name, ", ".join(
            "<<%s>>" % ", ".join("<<%d, %d, %s>>" % (d[0], d[1], "TRUE" if d[2] else "FALSE") for d in (operand_dim(name, l), operand_dim(name, r_)))
            for l, r_ in c.atoms)))
        real.append('s = "%s" -> {%s}' % (name, ", ".join("<<" + ", ".join(str(x) for x in v) + ">>" for v in realizable(c.atoms))))
        buy.append('s = "%s" -> %s' % (name, b))
        sell.append('s = "%s" -> %s' % (name, s))
        mode.append('s = "%s" -> "%s"' % (name, r["mode"]))
        if r["sell"].replace(" ", "") in ("0>1", "False"):
            nosell.append(name)
    t = ["---- MODULE RulesData ----", "EXTENDS Integers",
         "Strategies == {" + ", ".join('"%s"' % r["strategy"] for r in rules) + "}",
         "NAtoms(s) == CASE " + "\n  [] ".join(nat),
         "\\* the sign vectors some assignment of reals to the compared quantities produces (computed by tools/rulesgen.py)",
         "Realizable(s) == CASE " + "\n  [] ".join(real),
         "BuyIf(s, v) == CASE " + "\n  [] ".join(buy),
         "SellIf(s, v) == CASE " + "\n  [] ".join(sell),
         "Mode(s) == CASE " + "\n  [] ".join(mode),
         "\\* per atom: <<price degree, volume degree, is the literal 0>> of the left and of the right operand",
         "AtomDims(s) == CASE " + "\n  [] ".join(dims),
         "Assume(s, v) == CASE " + "\n  [] ".join(assume),
         "NoSell(s) == s \\in {" + ", ".join('"%s"' % n for n in nosell) + "}",
         "===="]
    return "\n".join(t) + "\n", meta


def realizable(atoms):
    """all sign vectors of the atoms that some assignment of reals to the operands produces"""
    import itertools
    ops = []
    for l, r in atoms:
        for o in (l, r):
            if o not in ops:
                ops.append(o)
    lits = {}
    for o in ops:
        try:
            lits[o] = float(o)
        except ValueError:
            pass
    free = [o for o in ops if o not in lits]
    base = sorted(set(lits.values())) or [0.0]
    grid = set()
    for i, b in enumerate(base):
        grid.add(b)
        grid.add(b - 1000.0 - i)
        grid.add(b + 1000.0 + i)
    base2 = sorted(grid)
    # enough distinct levels to realise every weak ordering of the free operands among themselves and the literals
    levels = sorted(set(base2 + [base2[0] - 1 - k for k in range(len(free))] + [base2[-1] + 1 + k for k in range(len(free))] +
                        [(base2[j] + base2[j + 1]) / 2 for j in range(len(base2) - 1)]))
    out = set()
    for combo in itertools.product(levels, repeat=len(free)):
        env = dict(lits)
        env.update(dict(zip(free, combo)))
        out.add(tuple((env[l] > env[r]) - (env[l] < env[r]) for l, r in atoms))
    return sorted(out)


def sign(a, b):
    d = a - b
    if abs(d) <= 1e-9 * max(1.0, abs(a), abs(b)):
        return 0
    return 1 if d > 0 else -1


def atom_values(atoms, env):
    vals = []
    for l, r in atoms:
        a = eval(compile(l, "<atom>", "eval"), {"__builtins__": {}}, env)
        b = eval(compile(r, "<atom>", "eval"), {"__builtins__": {}}, env)
        vals.append(sign(float(a), float(b)))
    return vals
