#!/usr/bin/env python3
"""Development aid: confirm a seeded change produced by a sub-agent in its scratch worktree (still builds, existing suite
passes, its demonstration fails with the change and passes without), run the given checks against it in /repo, and file it
under /verif/seeded/<tag>/.   usage: tools/seedeval.py <worktree> <MUTATIONdir> <tag> <ID> [<ID> ...]"""
import json
import os
import re
import shutil
import subprocess
import sys

VERIF = os.path.dirname(os.path.dirname(os.path.abspath(__file__)))
ENV = dict(os.environ, GOFLAGS="-mod=mod", GOPROXY="off", GOSUMDB="off", GOTOOLCHAIN="local")


def sh(cmd, cwd, timeout=900):
    p = subprocess.run(cmd, cwd=cwd, shell=True, capture_output=True, text=True, timeout=timeout, env=ENV)
    return p.returncode, (p.stdout + p.stderr)


def main():
    wt, mdir, tag = sys.argv[1], sys.argv[2], sys.argv[3]
    ids = sys.argv[4:]
    m = os.path.join(wt, mdir)
    meta = json.load(open(os.path.join(m, "meta.json")))
    patch = os.path.join(m, "patch.diff")
    demo = os.path.join(m, "demo_test.go")
    pkg = (meta.get("demo_package_dir") or "").split(" ")[0]
    inplace = False
    if not pkg:
        mm = re.search(r"cp \S*demo_test.go (\S+)/\S+_test.go", meta.get("run_demo", ""))
        pkg = mm.group(1) if mm else None
    if not pkg and re.search(r"go test [^;&]*\./%s/" % re.escape(mdir), meta.get("run_demo", "")):
        pkg, inplace = mdir, True     # the demonstration is run where it lies
    if not pkg or not os.path.exists(demo):
        print("cannot find demo package dir / demo_test.go; meta:", json.dumps(meta)[:600])
        return 3
    pkg = pkg.replace(wt + "/", "").strip("./")
    tests = re.findall(r"^func (Test\w+)\(", open(demo).read(), re.M)
    run = "^(" + "|".join(tests) + ")$"
    mt = re.search(r"^//go:build (\w+)\s*$", open(demo).read(), re.M)
    tags = ("-tags %s " % mt.group(1)) if mt else ""
    res = {}
    sh("git checkout -- .", wt)
    if not inplace:
        sh("rm -f %s/zz_seed_demo_test.go" % pkg, wt)
    rc, out = sh("git apply %s" % patch, wt)
    if rc != 0:
        print("patch does not apply in its worktree:", out)
        return 3
    try:
        rc, out = sh("go build ./...", wt)
        res["build_with_change"] = rc == 0
        rc, out = sh("go test -count=1 $(go list ./... | grep -v MUTATION) 2>&1 | tail -20", wt, timeout=1500)
        res["suite_with_change_passes"] = ("FAIL" not in out) and rc == 0
        if not res["suite_with_change_passes"]:
            res["suite_output"] = out[-800:]
        if not inplace:
            shutil.copy(demo, os.path.join(wt, pkg, "zz_seed_demo_test.go"))
        rc, out = sh("timeout 300 go test %s-count=1 ./%s/ -run '%s' 2>&1 | tail -15" % (tags, pkg, run), wt)
        res["demo_fails_with_change"] = "FAIL" in out or "panic" in out
        res["demo_output_with_change"] = out[-600:]
    finally:
        sh("git apply -R %s" % patch, wt)
    rc, out = sh("timeout 300 go test %s-count=1 ./%s/ -run '%s' 2>&1 | tail -5" % (tags, pkg, run), wt)
    res["demo_passes_without_change"] = ("ok" in out) and ("FAIL" not in out)
    if not inplace:
        sh("rm -f %s/zz_seed_demo_test.go" % pkg, wt)
    sh("git checkout -- .", wt)
    print("confirmation:", {k: v for k, v in res.items() if not k.endswith("output")})
    confirmed = all(res.get(k) for k in ("build_with_change", "suite_with_change_passes", "demo_fails_with_change", "demo_passes_without_change"))
    if not confirmed:
        print("NOT CONFIRMED:", json.dumps(res, indent=1)[:1500])
        return 1
    # run the checks against it
    p = subprocess.run([os.path.join(VERIF, "tools", "seedtest.py"), patch] + ids, capture_output=True, text=True)
    print(p.stdout[-3000:])
    caught = {}
    cur = None
    for line in p.stdout.splitlines():
        mm = re.match(r"== (\S+) exit=(\d+)", line)
        if mm:
            cur = mm.group(1)
            caught[cur] = {"exit": int(mm.group(2)), "lines": []}
        elif cur and line.strip().startswith(("VIOLATION", "MACHINERY")) or (cur and line.startswith("     ")):
            caught[cur]["lines"].append(line.strip()[:300])
    out_dir = os.path.join(VERIF, "seeded", tag)
    os.makedirs(out_dir, exist_ok=True)
    shutil.copy(patch, os.path.join(out_dir, "patch.diff"))
    shutil.copy(demo, os.path.join(out_dir, "demo_test.go.txt"))
    meta_out = {"property": meta.get("property"), "summary": meta.get("summary"), "needs_to_manifest": meta.get("needs_to_manifest"),
                "files_touched": meta.get("files_touched"), "demo_package_dir": pkg, "demo_tests": tests,
                "confirmed_in_scratch_worktree": {k: v for k, v in res.items() if not k.endswith("output")},
                "demo_output_with_change": res.get("demo_output_with_change", "")[-400:],
                "what_i_ran": ["git apply patch.diff (scratch worktree); go build ./...; go test ./...; demo with / without the change",
                               "tools/seedtest.py patch.diff " + " ".join(ids) + "  (applies to /repo, runs the quick checks, reverts)"],
                "checks": caught}
    json.dump(meta_out, open(os.path.join(out_dir, "meta.json"), "w"), indent=1)
    print("filed under", out_dir, {k: v["exit"] for k, v in caught.items()})
    return 0


if __name__ == "__main__":
    sys.exit(main())
