#!/usr/bin/env python3
"""C16 - stream helpers equal their slice models for all lengths and parameters.

(a) spec/Helpers.tla holds the slice model of every helper; TLC enumerates every input sequence over a
    small alphabet (zero, a negative value, ties) up to a length bound x every parameter up to a bound
    and prints each case with the expected outputs and the capacity rule of the returned channel; the
    real helpers are run on every case (input capacities 0 and 2) in a child process and compared.
(b) Protocol: the probe harness records, for every primitive stage x parameters x input-length
    vectors, which channel operation the real stage takes next (order of receives, sends, drains and
    closes, "longer inputs are still consumed to the end"); TLC validates every recorded trace against
    the stage programs of spec/Pipeline.tla (PipelineTrace.tla) - the binding all pipeline properties
    rest on.
A helper that hangs is reported by the Go runtime's deadlock detector (child process)."""
import itertools
import json
import os
import shutil
import time

import netgen
import pipeline_engine as pe
import vlib

PID = "C16"


def helpers_cfg(tier):
    if tier == "quick":
        return "CONSTANTS Alpha <- MCAlpha MaxLen = 4 MaxLen2 = 2 MaxLen3 = 1 MaxPar = 3\nINIT Init\nNEXT Next\n"
    return "CONSTANTS Alpha <- MCAlpha MaxLen = 5 MaxLen2 = 3 MaxLen3 = 2 MaxPar = 4\nINIT Init\nNEXT Next\n"


PROBE_KINDS = {
    # kind: (list of parameter vectors, number of inputs)
    "Map": ([[]], 1), "Apply": ([[]], 1), "MapWithPrevious": ([[]], 1), "Filter": ([[]], 1), "Count": ([[]], 1),
    "Skip": ([[0], [1], [2], [3]], 1), "Shift": ([[0], [1], [2], [3]], 1), "Head": ([[0], [1], [2], [3]], 1),
    "First": ([[0], [1], [2], [3]], 1), "Last": ([[1], [2], [3]], 1), "Dup": ([[1], [2], [3]], 1),
    "Buffered": ([[0], [1], [2]], 1), "Operate": ([[]], 2), "Operate3": ([[]], 3),
    "Echo": ([[1, 1], [2, 1], [2, 2]], 1), "Change": ([[1], [2]], 1), "ChangeRatio": ([[1]], 1),
    "Sma": ([[1], [2], [3]], 1), "Ema": ([[1], [2], [3]], 1), "MovingStd": ([[1], [2], [3]], 1),
    "Drain": ([[]], 1),
}
# composites whose arithmetic does not coincide with the provenance tokens: values are not bound
UNBOUND_VALUES = {"Change", "ChangeRatio", "Sma", "Ema", "MovingStd", "Kama"}


def tla_event(e, bind_values):
    v = e.get("v", 0)
    if not bind_values and e["e"] == "out":
        v = 0
    v = max(-1000000, min(1000000, v))
    return '[e |-> "%s", k |-> %d, v |-> %d, s |-> {%s}, b |-> %s]' % (
        e["e"], e.get("k", 0), v, ", ".join(str(x) for x in (e.get("stuck") or [])), "TRUE" if bind_values else "FALSE")


def main():
    t0 = time.time()
    tier = vlib.tier()
    vlib.build_harness()
    V = vlib.Verdicts(PID)
    machinery = []
    states = trans = 0
    samples = []
    # ---------------- (a) slice models
    mc = "---- MODULE MCHelpers ----\nEXTENDS Helpers\nMCAlpha == {-2, 0, 1, 3}\n====\n"
    r = vlib.run_tlc({"Helpers.tla": None, "MCHelpers.tla": mc}, "MCHelpers", helpers_cfg(tier), workers=1,
                     timeout=1800, heap="4g")
    states += max(r.distinct, 1)
    trans += max(r.generated, 1)
    cases = []
    for tag, obj in r.prints:
        if tag == "CASE":
            cases.append(obj)
        elif tag == "CAP":
            obj["iscap"] = True
            cases.append(obj)
    if len(cases) < 1000:
        raise vlib.Machinery("Helpers.tla emitted only %d cases" % len(cases))
    t1 = time.time()
    res = vlib.run_children(cases, subcmd="helpers-child", timeout=900)
    print("timing: TLC slice models %.0fs, %d cases replayed in %.0fs" % (t1 - t0, len(cases), time.time() - t1))
    ncases = len(cases)
    helpers_seen = sorted({c["h"] for c in cases})
    for c, rr in zip(cases, res):
        if rr is None:
            continue
        if rr.get("deadlock"):
            V.violation({"helper": c["h"], "symptom": "hang"},
                        "helper %s%s on inputs %s hangs (Go runtime: all goroutines are asleep)" % (c["h"], c.get("p"), c.get("ins")),
                        {"case": c, "dump": rr.get("dump")})
        elif rr.get("crash"):
            V.violation({"helper": c["h"], "symptom": "crash"},
                        "helper %s%s on inputs %s crashed: %s" % (c["h"], c.get("p"), c.get("ins"), rr.get("stderr", "")[:200]),
                        {"case": c})
        elif rr.get("mismatch"):
            V.violation({"helper": c["h"], "symptom": "capacity" if c.get("iscap") else "value"},
                        "helper %s%s on inputs %s: %s" % (c["h"], c.get("p") or [c.get("n"), c.get("capIn")], c.get("ins"), rr["mismatch"]),
                        {"case": c, "mismatch": rr["mismatch"]})
        elif rr.get("leaks"):
            V.violation({"helper": "?", "symptom": "leak"},
                        "goroutines remain parked after helper cases up to #%d: %s" % (rr.get("id", -1), rr["leaks"][:3]),
                        {"leaks": rr["leaks"]})
    for c in cases:
        if len(samples) < 3 and c.get("h") in ("Change", "Operate", "Last") and c.get("ins") and len(c["ins"][0]) >= 3:
            samples.append({"slice_model_case": c})
    # ---------------- (b) protocol probes
    reqs = []
    maxlen = 3 if tier == "quick" else 4
    for kind, (pars, nin) in PROBE_KINDS.items():
        for par in pars:
            lens_list = list(itertools.product(range(0, maxlen + 1), repeat=nin))
            if nin == 3 and tier == "quick":
                lens_list = [lv for lv in lens_list if max(lv) <= 2]
            for lv in lens_list:
                if kind == "Echo" and lv[0] < par[0]:
                    continue   # the ring is not full: the documentation leaves that regime open
                for pol in ("out", "in"):
                    reqs.append({"id": "%s%s%s%s" % (kind, par, list(lv), pol), "kind": kind, "par": par, "lens": list(lv),
                                 "policy": pol})
    t2 = time.time()
    pres = vlib.run_children(reqs, subcmd="probe-child", timeout=900)
    print("timing: %d probes in %.0fs" % (len(reqs), time.time() - t2))
    groups = {}
    for q, rr in zip(reqs, pres):
        if rr is None:
            machinery.append("probe %s: no result" % q["id"])
            continue
        if rr.get("deadlock") or rr.get("crash"):
            V.violation({"helper": q["kind"], "symptom": "probe-crash"},
                        "probe of %s%s lens=%s died: %s" % (q["kind"], q["par"], q["lens"], str(rr)[:200]), {"probe": q})
            continue
        key = (q["kind"], json.dumps(q["par"]), json.dumps(rr["wiring"], sort_keys=True), q["policy"])
        groups.setdefault(key, []).append((q, rr))
    ntraces = 0
    accepted = 0

    def validate(item):
        (kind, par, wj, pol), members = item
        wiring = json.loads(wj)
        try:
            net = netgen.build(wiring)
        except netgen.NetError as e:
            return item, None, "netgen: %s" % e
        bind = kind not in UNBOUND_VALUES
        tr = " @@ ".join("(%s :> <<%s>>)" % (netgen.tla_seq(q["lens"]), ", ".join(tla_event(e, bind) for e in rr["events"]))
                         for q, rr in members)
        defs = "MCTraces == " + tr
        if not bind:
            # values are not compared for arithmetic composites: make every token value-blind
            pass
        tla, cfg = netgen.emit(net, [q["lens"] for q, _ in members], "full", 0, None, module="MCT",
                               invariants=("NoPanic", "Accepted"), extends="PipelineTrace", extra_defs=defs,
                               init="TraceInit", next_="TraceNext",
                               extra_consts=' Traces <- MCTraces\n Policy = "%s"' % pol)
        if not bind:
            tla = tla.replace("EXTENDS PipelineTrace", "EXTENDS PipelineTrace")
        try:
            res = vlib.run_tlc({"Pipeline.tla": None, "PipelineTrace.tla": None, "MCT.tla": tla}, "MCT", cfg,
                               workers=1, timeout=600, heap="2g", dfs=True)
        except vlib.Machinery as e:
            return item, None, str(e)[:300]
        return item, res, None
    t3 = time.time()
    results = pe.parallel(validate, list(groups.items()))
    print("timing: %d trace-validation runs in %.0fs" % (len(groups), time.time() - t3))
    for item, res, err in results:
        (kind, par, wj, pol), members = item
        if err:
            machinery.append("trace validation %s%s: %s" % (kind, par, err))
            continue
        states += res.distinct
        trans += res.generated
        acc = {tuple(o["lens"]) for tag, o in res.prints if tag == "ACC"}
        for q, rr in members:
            ntraces += 1
            if tuple(q["lens"]) in acc:
                accepted += 1
                if len(samples) < 6 and kind in ("Operate", "First", "Dup") and sum(q["lens"]) >= 3:
                    samples.append({"probe": q, "real_trace": " ".join(
                        e["e"] + (str(e.get("k", "")) if e["e"] != "end" else "") + ("=%d" % e["v"] if e["e"] in ("in", "out") else "")
                        for e in rr["events"])})
            else:
                V.violation({"helper": kind, "symptom": "protocol"},
                            "the order of channel operations of the real %s%s on input lengths %s is not a behaviour of its "
                            "stage program in spec/Pipeline.tla (harness policy %s-first): %s" % (kind, q["par"], q["lens"], pol,
                                                                       " ".join(e["e"] + str(e.get("k", "")) + (":%d" % e["v"] if e["e"] in ("in", "out") else "") for e in rr["events"])[:400]),
                            {"probe": q, "events": rr["events"], "wiring": json.loads(wj)})
    # binding self-test: recorded traces with one delivered value altered, and with the last two events exchanged, must be rejected
    import copy
    rejected_corrupt = 0
    picks = [(item, m) for item in groups.items() for m in item[1]
             if item[0][0] in ("Operate", "Map", "Shift", "Skip") and sum(m[0]["lens"]) >= 2 and any(e["e"] == "out" for e in m[1]["events"])][:4]
    for (key, _), (q, rr) in picks:
        variants = []
        ev = copy.deepcopy(rr["events"])
        oi = [i for i, e in enumerate(ev) if e["e"] == "out"]
        ev[oi[0]]["v"] = ev[oi[0]].get("v", 0) + 7
        variants.append(ev)
        ev2 = copy.deepcopy(rr["events"])
        if len(ev2) >= 3 and ev2[-2]["e"] != ev2[-3]["e"]:
            ev2[-2], ev2[-3] = ev2[-3], ev2[-2]
            variants.append(ev2)
        for v in variants:
            _, res, err = validate((key, [(q, {"events": v})]))
            if err:
                machinery.append("self-test of the trace validation: %s" % err)
            elif any(tag == "ACC" for tag, o in res.prints):
                # exchanging two events may yield another legal order; an altered value never does
                if v is variants[0]:
                    raise vlib.Machinery("PipelineTrace accepts a probe trace with an altered value: the trace specification binds nothing")
            else:
                rejected_corrupt += 1
    rc = V.finish()
    for m in machinery[:30]:
        print("MACHINERY: " + m)
    vlib.write_evidence(PID, "model_checking", {
        "corrupted_probe_traces_rejected": rejected_corrupt,
        "states": states, "transitions": trans, "traces_validated_against_impl": ntraces + ncases,
        "samples": samples or [{"note": "none"}], "evaluations": ncases + ntraces,
        "distinct_nontrivial": len([c for c in cases if c.get("ins") and any(len(x) > 0 for x in c["ins"])]) + accepted,
        "rule": "(a) every input sequence over {-2,0,1,3} up to the length bound x every parameter up to the bound, per helper "
                "(%d helpers), expected outputs from the slice models of spec/Helpers.tla, each run on the real helper with "
                "input capacities 0 and 2; non-trivial = at least one non-empty input; (b) one probe trace per (stage, parameters, "
                "input-length vector), each validated by TLC against the stage program" % len(helpers_seen),
        "slice_model_cases": ncases, "helpers": helpers_seen, "probe_traces": ntraces, "probe_traces_accepted": accepted,
        "exhaustive": True, "machinery": machinery[:30], "known_findings_hit": V.hit},
        time.time() - t0, len(V.new),
        assumptions=["Echo is compared only when the input is at least as long as its memory (documentation leaves the rest open)",
                     "arithmetic composites (Change, SMA, EMA, KAMA, MovingStd) are validated for the order of operations only"])
    if rc == 0 and machinery:
        return 2
    return rc


if __name__ == "__main__":
    vlib.main_wrapper(main)
