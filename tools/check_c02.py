#!/usr/bin/env python3
"""C02 - warm-up contract: exactly max(0, n - w) values on every output, k-th value refers to input
position k + w, all outputs of one indicator equally long.

Decided by: TLC on Pipeline.tla instantiated with the network *recorded from the real code* for every
(indicator, configuration, input capacity), all equal-length input vectors n in 0..2w+2 as initial
states (CountOK, SameLen, Aligned evaluated by TLC in every terminal state), plus conformance: the
same instances are executed on the real code (child process), real counts are compared with the
property's arithmetic and with the model's terminal state; model-reported misalignment is confirmed
on the real code by perturbation runs before it is reported."""
import random
import sys
import time

import pipeline_engine as pe
import vlib

PID = "C02"


def first_changed(base, other):
    """per output: index of the first differing value (None if identical / only length differs)"""
    res = []
    for a, b in zip(base["outs"], other["outs"]):
        fa, fb = a.get("bits") or [], b.get("bits") or []
        idx = None
        for i in range(min(len(fa), len(fb))):
            if fa[i] != fb[i]:
                idx = i
                break
        res.append(idx)
    return res


def confirm_misaligned(c, lv, w, lags):
    """Model says some output token has hi != k + w (+lag).  Ask the real code: perturb inputs from
    position h on and see which output index changes first.  Returns description or None."""
    n = lv[0]
    toks = pe.sink_tokens(c.net, c.terms[tuple(lv)][0])
    reqs = []
    plan = []
    base = {"id": "base", "pipe": c.pipe, "cfg": c.cfg, "cap": c.cap, "lens": list(lv),
            "data": {"seed": 11 + vlib.seed()}, "values": True}
    reqs.append(base)
    for si, seq in enumerate(toks):
        lag = lags[si] if lags else 0
        for k, t in enumerate(seq):
            if t["hi"] != k + w + lag and t["hi"] >= 0:
                # claim: output k of sink si depends on position hi and on nothing later
                for h in (t["hi"], t["hi"] + 1):
                    if h < n:
                        q = dict(base)
                        q["id"] = "p%d" % len(reqs)
                        q["data"] = {"seed": 11 + vlib.seed(), "perturbed": True, "perturb_at": h, "seed2": 991}
                        reqs.append(q)
                        plan.append((si, k, t["hi"], h))
                break
    if not plan:
        return None
    res = vlib.run_children(reqs, jobs=4)
    b = res[0]
    if b is None or b.get("deadlock"):
        return None
    confirmed = []
    by = {}
    for (si, k, hi, h), r in zip(plan, res[1:]):
        if r is None or r.get("deadlock"):
            continue
        fc = first_changed(b, r)[si]
        by[(si, k, hi, h)] = fc
    for (si, k, hi, h), fc in by.items():
        if h == hi and fc is not None and fc <= k:
            # output k (or an earlier one) changes when position hi changes ...
            fc2 = by.get((si, k, hi, hi + 1))
            if hi + 1 >= n or fc2 is None or fc2 > k:
                # ... and does not change when only later positions change: it refers to position hi
                confirmed.append("output %d value %d refers to input position %d, declared %d" %
                                 (si, k, hi, k + w + (lags[si] if lags else 0)))
    return "; ".join(confirmed) if confirmed else None


def real_only_verdict(c, lv, V):
    """the property's count arithmetic on a REAL run, for instances without a usable model result"""
    real = c.real.get(tuple(lv))
    if real is None or real.get("deadlock") or real.get("crash"):
        return
    n, w = lv[0], c.idle
    counts = [o["n"] for o in real["outs"]]
    exp = max(0, n - w)
    rel = "short" if n <= w else "long"
    replay = {"pipe": c.pipe, "cfg": c.cfg, "cap": c.cap, "lens": lv, "idle": w, "real_counts": counts, "model": None}
    if len(set(counts)) > 1:
        longer = [i for i, k in enumerate(counts) if k > min(counts)]
        V.violation({"pipe": c.pipe, "symptom": "unequal-outputs", "len": rel, "longer": str(longer)},
                    "%s n=%d: outputs have different lengths %s (declared warm-up %d)" % (c.key(), n, counts, w), replay)
    elif any(k != exp for k in counts):
        V.violation({"pipe": c.pipe, "symptom": "extra-values" if counts[0] > exp else "missing-values", "len": rel},
                    "%s n=%d: emits %s values, declared warm-up %d requires %d" % (c.key(), n, counts, w, exp), replay)


def main():
    t0 = time.time()
    tier = vlib.tier()
    rng = random.Random(vlib.seed())
    vlib.build_harness()
    entries = [e for e in pe.catalogue() if e["class"] == "indicator"]
    caps = [0] if tier == "quick" else [0, 1, 2]
    cases = pe.build_cases(entries, tier, caps, rng)
    pe.record_cases(cases)
    cov = pe.Coverage()
    V = vlib.Verdicts(PID)
    machinery = []
    for c in cases:
        if c.error or c.wiring is None:
            if c.rec is not None and c.rec.get("deadlock"):
                cov.notes.append("%s: recording run hangs (reported under C03)" % c.key())
                # the recording run feeds streams of EQUAL length (this property's domain): an indicator that never completes its
                # outputs there does not emit n - w values on every output, whatever the wiring looks like
                got = [o["n"] for o in (c.rec.get("outs") or [])]
                V.violation({"pipe": c.pipe, "symptom": "never-completes"},
                            "%s: fed %d-value inputs of equal length the real indicator hangs (Go runtime: all goroutines are asleep) "
                            "before its outputs are complete%s" % (c.key(), c.rec_len if hasattr(c, "rec_len") else 40,
                                                                   (": values delivered %s" % got) if got else ""),
                            {"pipe": c.pipe, "cfg": c.cfg, "cap": c.cap})
            else:
                machinery.append("%s: %s" % (c.key(), c.error or "no wiring"))
            continue
        if c.idle < 0:
            cov.notes.append("%s: no declared or implied warm-up; skipped" % c.key())
            continue
        is_default = c.cfg == c.entry["default"]
        c.lens = pe.lens_for(c.idle, tier, len(c.inputs), is_default)
    pe.run_models(cases, mode="por", lags_of=lambda c: c.lag)
    nreal = pe.run_real(cases)
    cov.real_runs = nreal
    for c in cases:
        if not c.lens:
            continue
        if c.error:
            # no model of this wiring (e.g. a restructured stage the network generator does not recognise): exit 2 for the
            # model - but what the REAL runs show against the property's arithmetic is a verdict of its own
            machinery.append("%s: %s" % (c.key(), c.error))
            for lv in c.lens:
                real_only_verdict(c, lv, V)
            continue
        cov.add_tlc(c.tlc)
        cov.instances += 1
        w = c.idle
        lags = c.lag
        for lv in c.lens:
            n = lv[0]
            real = c.real.get(tuple(lv))
            terms = c.terms.get(tuple(lv), [])
            if len(terms) != 1:
                machinery.append("%s lens=%s: %d terminal states in reduced mode" % (c.key(), lv, len(terms)))
                real_only_verdict(c, lv, V)
                continue
            term = terms[0]
            if n > w or not term["done"]:
                cov.nontrivial.add((c.pipe, tuple(c.cfg), c.cap, n))
            if real is None:
                machinery.append("%s lens=%s: no real result" % (c.key(), lv))
                continue
            replay = {"pipe": c.pipe, "cfg": c.cfg, "cap": c.cap, "lens": lv, "idle": w,
                      "model": {k: term[k] for k in ("done", "countOK", "sameLen", "aligned")},
                      "model_counts": pe.sink_counts(c.net, term)}
            diffs = pe.compare_real_model(c.net, term, real)
            if real.get("deadlock") or real.get("crash"):
                cov.notes.append("%s lens=%s: real run does not terminate (C03)" % (c.key(), lv))
                if diffs:
                    machinery.append("MODEL-DIVERGENCE %s lens=%s: %s" % (c.key(), lv, diffs))
                continue
            counts = [o["n"] for o in real["outs"]]
            replay["real_counts"] = counts
            exp = max(0, n - w)
            rel = "short" if n <= w else "long"
            if len(set(counts)) > 1:
                longer = [i for i, k in enumerate(counts) if k > min(counts)]
                V.violation({"pipe": c.pipe, "symptom": "unequal-outputs", "len": rel, "longer": str(longer)},
                            "%s n=%d: outputs have different lengths %s (declared warm-up %d)" % (c.key(), n, counts, w),
                            replay)
            elif any(k != exp for k in counts):
                sym = "extra-values" if counts[0] > exp else "missing-values"
                V.violation({"pipe": c.pipe, "symptom": sym, "len": rel},
                            "%s n=%d: emits %s values, declared warm-up %d requires %d" % (c.key(), n, counts, w, exp),
                            replay)
            elif term["done"] and term["countOK"] and not term["aligned"]:
                what = confirm_misaligned(c, lv, w, lags)
                if what:
                    V.violation({"pipe": c.pipe, "symptom": "misaligned", "len": rel},
                                "%s n=%d: %s" % (c.key(), n, what), replay)
                else:
                    machinery.append("MODEL-ONLY %s lens=%s: model reports misalignment, not confirmed on the code"
                                     % (c.key(), lv))
            if term["done"] and n > w and not term.get("joinAligned", True):
                joins = ["%s(operands %s)" % (c.net.procs[p - 1]["src"], si) for p, si in sorted(c.net.strict_in.items()) if si]
                V.violation({"pipe": c.pipe, "symptom": "misaligned-join"},
                            "%s n=%d: in the network the real code wires, an output value combines two indicator values that refer to "
                            "DIFFERENT input positions (no alignment Skip between branches with different warm-ups; strict joins: %s): "
                            "the k-th value does not refer to input position k + %d alone" % (c.key(), n, joins[:4], w), replay)
            if diffs:
                machinery.append("MODEL-DIVERGENCE %s lens=%s: %s" % (c.key(), lv, diffs))
            if len(cov.samples) < 6 and n == w + 2:
                cov.samples.append({"pipe": c.pipe, "cfg": c.cfg, "cap": c.cap, "n": n, "declared_idle": w,
                                    "real_counts": counts, "model_counts": pe.sink_counts(c.net, term),
                                    "model_first_token": (pe.sink_tokens(c.net, term)[0] or [None])[0],
                                    "processes": len(c.net.procs)})
    rc = V.finish()
    for m in machinery[:30]:
        print("MACHINERY: " + m)
    coverage = {"states": cov.states, "transitions": cov.transitions,
                "traces_validated_against_impl": cov.real_runs,
                "samples": cov.samples or [{"note": "no sample"}],
                "evaluations": cov.real_runs, "distinct_nontrivial": len(cov.nontrivial),
                "rule": "instance = (indicator, configuration, input capacity, n); one TLC run per "
                        "(indicator, configuration, capacity) over the network recorded from the real code with all "
                        "n as initial states; each instance also executed on the real code and compared; "
                        "non-trivial = n > declared warm-up, or the model's terminal state is not all-done",
                "tlc_runs": cov.tlc_runs, "instances": cov.instances, "exhaustive": False,
                "indicators": len(entries), "notes": cov.notes[:40], "machinery": machinery[:40],
                "known_findings_hit": V.hit}
    vlib.write_evidence(PID, "model_checking", coverage, time.time() - t0, len(V.new),
                        assumptions=["stage programs of Pipeline.tla follow helper/*.go (bound by C16 probes)",
                                     "reduced next-state relation (ample sets) - cross-checked against all "
                                     "interleavings under C03",
                                     "closures are total and side-effect free apart from their captured state"])
    if rc == 0 and machinery:
        return 2
    return rc


if __name__ == "__main__":
    vlib.main_wrapper(main)
