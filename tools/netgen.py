"""netgen: recorded wiring (from the real code, build tag verif) -> instance of spec/Pipeline.tla.

The instance is never written by hand.  Any change of the wiring in /repo (a Skip amount, a missing
Buffered, a dropped go Drain, a swapped branch) changes the instance TLC checks.
"""
import json

MAPLIKE = {"Map", "MapWithPrevious", "Apply", "Buffered", "Count", "Waitable", "Field", "BuyHold", "Pipe"}
INLINE_DRAIN_CALLERS = ("helper.Operate", "helper.Operate3", "helper.First", "trend.(*Kama")


class NetError(Exception):
    pass


class Net:
    """A process network ready to be emitted as TLA+ constants."""

    def __init__(self):
        self.procs = []   # dicts: kind, ins, outs, par, par2, lab, src (original kind)
        self.caps = []
        self.notes = []   # structural remarks (UNCOVERED etc.)
        self.unsafe = set()
        self.multiread = set()
        self.xma_periods = set()
        self.unrecognised_units = []


def tla_str(s):
    return '"' + s.replace('\\', '\\\\').replace('"', '\\"') + '"'


def tla_seq(xs):
    return "<<" + ", ".join(str(x) for x in xs) + ">>"


def tla_set(xs):
    return "{" + ", ".join(str(x) for x in sorted(xs)) + "}"


def build(wiring):
    """wiring: {"stages": [...], "caps": [...]} as recorded by harness/recorder.go."""
    net = Net()
    net.caps = list(wiring["caps"])
    stages = [dict(s) for s in wiring["stages"]]

    # --- report consumer: ReportDate + ReportColumn events -> one Template process
    dates = [s for s in stages if s["kind"] == "ReportDate"]
    cols = sorted([s for s in stages if s["kind"] == "ReportColumn"], key=lambda s: s["par"])
    stages = [s for s in stages if s["kind"] not in ("ReportDate", "ReportColumn")]
    if dates:
        if len(dates) != 1:
            raise NetError("more than one report in one wiring")
        ins = list(dates[0]["ins"])
        for c in cols:
            if len(c["ins"]) != 1:
                raise NetError("report column without exactly one channel: %r" % c)
            ins.append(c["ins"][0])
        stages.append({"kind": "Template", "par": len(cols), "par2": 0, "ins": ins, "outs": [], "label": ""})

    # --- drains: an inline drain (inside Operate/Operate3/First/Kama goroutines) is part of that
    # stage's program; a `go helper.Drain(x)` call site is a process of its own.
    kept = []
    for s in stages:
        if s["kind"] == "Drain":
            st = s.get("stack") or []
            caller = st[0] if st else ""
            if any(caller.startswith("github.com/cinar/indicator/v2/" + c) for c in INLINE_DRAIN_CALLERS):
                continue
        kept.append(s)
    stages = kept

    # a `go helper.Drain(x)` on a channel that a recorded stage also reads is a hand-over: the stage
    # spawns the drain when it leaves its loop (Operate3 after the fix, the voters after the fix)
    stage_reader = {}
    for idx, s in enumerate(stages):
        if s["kind"] != "Drain":
            for c in s["ins"]:
                stage_reader.setdefault(c, []).append(idx)
    for s in stages:
        if s["kind"] == "Drain" and s["ins"] and s["ins"][0] in stage_reader:
            parents = stage_reader[s["ins"][0]]
            if len(parents) == 1 and stages[parents[0]]["kind"] in ("Operate3", "Vote", "Split"):
                s["kind"] = "ADrain"
                s["_parent"] = parents[0]
    readers = {}
    writers = {}
    for idx, s in enumerate(stages):
        for c in s["ins"]:
            readers.setdefault(c, []).append(idx)
        for c in s["outs"]:
            writers.setdefault(c, []).append(idx)
    for c, ws in writers.items():
        if len(ws) > 1:
            raise NetError("channel %d has several writers: %s" % (c, [stages[w]["kind"] for w in ws]))

    nchan = len(net.caps)
    dangling = [c for c in range(1, nchan + 1) if c in writers and c not in readers]

    def cone(start_idx):
        """stages reachable forward from stage start_idx (inclusive)"""
        seen = set()
        todo = [start_idx]
        while todo:
            i = todo.pop()
            if i in seen:
                continue
            seen.add(i)
            for c in stages[i]["outs"]:
                for r in readers.get(c, []):
                    todo.append(r)
        return seen

    # --- Xma cores: find the seed channel (created inside the EMA/RMA/SMMA goroutine)
    for idx, s in enumerate(stages):
        if s["kind"] != "XmaCore":
            continue
        c = s["ins"][0]
        seed = None
        unit = None
        for r in readers.get(c, []):
            if r == idx:
                continue
            cn = cone(r)
            outs_of_cone = set()
            for i in cn:
                outs_of_cone.update(stages[i]["outs"])
            ds = [d for d in dangling if d in outs_of_cone]
            if len(ds) == 1:
                seed = ds[0]
                unit = (r, cn)
        if seed is None:
            if len(readers.get(c, [])) == 1 and s["par"] >= 1:
                # an EMA/RMA/SMMA goroutine without an inner seed pipeline (it reads its first P values itself): the same
                # protocol as a window stage - nothing for P-1 values, then one value per input
                s["kind"] = "MovingStd"
                net.notes.append("XmaCore on channel %d has no inner seed pipeline: modelled as a self-contained window of %d" % (c, s["par"]))
                continue
            raise NetError("XmaCore on channel %d: cannot identify its seed channel" % c)
        dangling.remove(seed)
        s["ins"] = [seed, c]
        readers.setdefault(seed, []).append(idx)
        net.xma_periods.add(s["par"])
        # unit recognition: Head(P) -> Dup(2) -> Shift(P) -> Operate -> Skip(P-1) -> Apply -> seed
        r, cn = unit
        P = s["par"]
        kinds = sorted(stages[i]["kind"] for i in cn)
        ok = stages[r]["kind"] == "Head" and stages[r]["par"] == P and len(readers[c]) == 2
        if P > 1:
            ok = ok and kinds == sorted(["Head", "Dup", "Shift", "Operate", "Skip", "Apply"])
        else:
            ok = ok and kinds == sorted(["Head", "Dup", "Shift", "Operate", "Skip", "Apply"])
        for i in cn:
            k = stages[i]
            if k["kind"] == "Shift" and k["par"] != P:
                ok = False
            if k["kind"] == "Skip" and k["par"] != P - 1:
                ok = False
            if k["kind"] == "Dup" and len(k["outs"]) != 2:
                ok = False
        if cn == {r} and stages[r]["kind"] == "Head":
            # the goroutine reads Head's output itself (sums the seed values) instead of a seed pipeline's single value
            s["par2"] = 1
            net.notes.append("XmaCore on channel %d reads its seed values directly from Head(%d)" % (c, stages[r]["par"]))
        s["_unit_ok"] = ok
        if not ok:
            net.unrecognised_units.append({"chan": c, "period": P, "kinds": kinds})

    for c in dangling:
        net.notes.append("UNCOVERED: channel %d is written by %s but read by no recorded stage" %
                         (c, stages[writers[c][0]]["kind"]))

    # --- emit processes
    for s in stages:
        k = s["kind"]
        src = k
        par, par2 = s.get("par", 0), s.get("par2", 0)
        lab = s.get("label", "") or ""
        if k in MAPLIKE:
            k = "Map"
        elif k == "Split":
            k = "Vote"
        elif k == "SliceToChan":
            k = "Seq"
        elif k == "Seq":
            k = "Seq"
        if k == "Sink":
            lab = ""
        if k == "ADrain":
            par = s["_parent"] + 1
        net.procs.append({"kind": k, "src": src, "ins": list(s["ins"]), "outs": list(s["outs"]),
                          "par": par, "par2": par2, "lab": lab if k in ("Source", "Map") else "",
                          "name": s.get("label", "")})

    # --- readers / writers over final procs
    R = {c: set() for c in range(1, nchan + 1)}
    Wr = {c: 0 for c in range(1, nchan + 1)}
    for i, p in enumerate(net.procs):
        for c in p["ins"]:
            R[c].add(i + 1)
        for c in p["outs"]:
            Wr[c] = i + 1
    net.readers = R
    net.writer = Wr
    net.multiread = {c for c in R if len(R[c]) > 1}
    safe_shared = set()
    for i, s in enumerate(stages):
        if s["kind"] == "XmaCore" and s.get("_unit_ok"):
            safe_shared.add(s["ins"][1])
    # hand-over channels: readers = one Operate3/Vote stage plus the drains it spawns
    for c in net.multiread:
        ks = sorted(net.procs[r - 1]["kind"] for r in R[c])
        if ks.count("ADrain") == len(ks) - 1 and all(
                net.procs[r - 1]["kind"] != "ADrain" or net.procs[r - 1]["par"] in R[c] for r in R[c]):
            safe_shared.add(c)
    net.unsafe = net.multiread - safe_shared
    net.strict_in = strict_inputs(net)
    for c in range(1, nchan + 1):
        if Wr[c] == 0 and R[c]:
            net.notes.append("UNCOVERED: channel %d is read by %s but written by no recorded stage" %
                             (c, [net.procs[r - 1]["src"] for r in R[c]]))
    return net


PURE = {"Skip", "Shift", "Head", "First", "Last", "Dup", "Filter", "Source", "Seq"}


def strict_inputs(net):
    """For every Operate/Operate3 process: the operand positions (1-based) that are indicator values in their own right.
    An operand is exempt when it is an explicit delayed copy - reached through index-shifting stages only (Skip, Shift,
    Buffered, Head, Duplicate, field extraction) - of a raw input or of a stream another operand of the same join
    derives from: that is how the code writes 'the previous value' and moving windows."""
    procs = net.procs
    writer = net.writer

    def is_pure(i):
        p = procs[i]
        if p["kind"] in PURE:
            return True
        # Buffered / Pipe / Waitable / field-extracting Map copy their input
        return p["kind"] == "Map" and (p["src"] in ("Buffered", "Pipe", "Waitable", "Field") or p["lab"] != "")

    def ancestors(c, pure_only, seen=None):
        """stages (indices) upstream of channel c"""
        seen = set() if seen is None else seen
        w = writer.get(c, 0)
        if w == 0:
            return seen
        i = w - 1
        if pure_only and not is_pure(i):
            return seen
        if i in seen:
            return seen
        seen.add(i)
        for cin in procs[i]["ins"]:
            ancestors(cin, pure_only, seen)
        return seen
    res = {}
    for pi, p in enumerate(procs):
        if p["kind"] not in ("Operate", "Operate3"):
            continue
        pure = [ancestors(c, True) for c in p["ins"]]
        alla = [ancestors(c, False) for c in p["ins"]]
        strict = []
        for k in range(len(p["ins"])):
            raw = any(procs[i]["kind"] in ("Source", "Seq") for i in pure[k])
            others = set()
            for j in range(len(p["ins"])):
                if j != k:
                    others |= alla[j]
            if raw or (pure[k] & others):
                continue
            strict.append(k + 1)
        res[pi + 1] = strict
    return res


def emit(net, lenvecs, mode, W, offs=None, module="MC", invariants=("NoPanic", "SingleReader", "Report"),
         extra_cfg="", seed_checked=True, op_close_first=True, op3_concurrent=True,
         extends="Pipeline", extra_defs="", init="Init", next_="Next", extra_consts=""):
    """returns (tla_text, cfg_text)"""
    P = net.procs
    np_, nc = len(P), len(net.caps)
    sinks = [i + 1 for i, p in enumerate(P) if p["kind"] == "Sink"]
    offs = offs or {}
    off_f = "[p \\in {%s} |-> %s]" % (
        ", ".join(str(s) for s in sinks) if sinks else "",
        " ".join(["CASE"] + [" [] ".join("p = %d -> %d" % (s, offs.get(s, 0)) for s in sinks)]) if sinks else "0")
    lines = ["---- MODULE %s ----" % module, "EXTENDS " + extends, ""]
    if extra_defs:
        lines.append(extra_defs)
    lines.append("MCKind == " + tla_seq(tla_str(p["kind"]) for p in P))
    lines.append("MCIns == " + tla_seq(tla_seq(p["ins"]) for p in P))
    lines.append("MCOuts == " + tla_seq(tla_seq(p["outs"]) for p in P))
    lines.append("MCPar == " + tla_seq(p["par"] for p in P))
    lines.append("MCPar2 == " + tla_seq(p["par2"] for p in P))
    lines.append("MCLab == " + tla_seq(tla_str(p["lab"]) for p in P))
    lines.append("MCCap == " + tla_seq(net.caps))
    lines.append("MCWriter == " + tla_seq(net.writer[c] for c in range(1, nc + 1)))
    lines.append("MCReaders == " + tla_seq(tla_set(net.readers[c]) for c in range(1, nc + 1)))
    lines.append("MCStrictIn == " + tla_seq(tla_set(net.strict_in.get(i + 1, [])) for i in range(np_)))
    lines.append("MCUnsafe == " + tla_set(net.unsafe))
    lines.append("MCMultiRead == " + tla_set(net.multiread))
    lines.append("MCLenVecs == {" + ", ".join(tla_seq(v) for v in lenvecs) + "}")
    lines.append("MCOff == " + off_f)
    lines.append("====")
    cfg = ["CONSTANTS", " NP = %d" % np_, " NC = %d" % nc, " Kind <- MCKind", " Ins <- MCIns", " Outs <- MCOuts",
           " Par <- MCPar", " Par2 <- MCPar2", " Lab <- MCLab", " Cap <- MCCap", " Writer <- MCWriter",
           " Readers <- MCReaders", " StrictIn <- MCStrictIn", " Unsafe <- MCUnsafe", " MultiRead <- MCMultiRead", " LenVecs <- MCLenVecs",
           ' Mode = "%s"' % mode, " W = %d" % W, " Off <- MCOff",
           " SeedChecked = %s" % ("TRUE" if seed_checked else "FALSE"),
           " OpCloseFirst = %s" % ("TRUE" if op_close_first else "FALSE"),
           " Op3Concurrent = %s" % ("TRUE" if op3_concurrent else "FALSE"),
           "INIT " + init, "NEXT " + next_, "CHECK_DEADLOCK FALSE"]
    if extra_consts:
        cfg.insert(1, extra_consts)
    if invariants:
        cfg.append("INVARIANTS " + " ".join(invariants))
    if extra_cfg:
        cfg.append(extra_cfg)
    return "\n".join(lines) + "\n", "\n".join(cfg) + "\n"


def describe(net):
    return {"procs": len(net.procs), "chans": len(net.caps),
            "kinds": sorted({p["src"] for p in net.procs}),
            "unsafe_shared": sorted(net.unsafe), "multiread": sorted(net.multiread),
            "notes": net.notes}


if __name__ == "__main__":
    import sys
    w = json.load(open(sys.argv[1]))
    n = build(w)
    t, c = emit(n, [[5]], "por", 0)
    print(t)
    print(c)
