#!/usr/bin/env python3
"""Regenerates /verif/MANIFEST.json from the table below (kept next to the checks so they stay in step)."""
import json
import os
import subprocess

VERIF = os.path.dirname(os.path.dirname(os.path.abspath(__file__)))

CHECKS = {
    "C17": dict(
        category="model_checking",
        text="TLC checks exhaustively (finite state space, all histories) that the implementation-shaped Ring and Bst of "
             "spec/Ring.tla and spec/Bst.tla refine the bounded FIFO / multiset with every observer agreeing; every history of "
             "the abstract models up to depth 5-7 is replayed on the real helper.Ring[T]/helper.Bst[T] for 5/11 element-type "
             "embeddings including one that maps the abstract range onto the full range of each integer type. Right level: the "
             "property quantifies over histories of a small state machine, which is what TLC enumerates.",
        design_ref="DESIGN.md 2.3, 5 (C17)",
        note="Trusted: TLC, the Go replay harness (harness/replay_ringbst.go), order-preserving embeddings. Histories beyond the "
             "depth bound are covered through the refinement check of the implementation-shaped model, which is bound to the code "
             "by the replays.",
        technique="TLA+ refinement checked by TLC + exhaustive model-generated histories replayed on the real code",
        engine="tlc"),
}

NOT_APPLICABLE = {
    "C15": "numeric range invariants of float formulas: no discrete state or transition for a TLA+ model to decide (DESIGN.md 6)",
    "C18": "relation between two float executions (homogeneity): numeric, not a state machine TLC can check (DESIGN.md 6)",
}

PENDING = "check not built yet (work in progress; see DESIGN.md 10)"


def main():
    props = [json.loads(l) for l in open(os.path.join(VERIF, "properties.jsonl"))]
    hooks = subprocess.run(["git", "-C", "/repo", "log", "--format=%H %s"], capture_output=True, text=True).stdout
    hook_commits = [l.split()[0] for l in hooks.splitlines() if " verif:" in l]
    m = {
        "version": 1,
        "setup_cmd": "cd /verif && sh tools/setup.sh",
        "hooks": {
            "guard": "verif",
            "enable": "go build -tags verif (harness: cd /verif/harness && CGO_ENABLED=0 go build -tags verif)",
            "baseline_off_cmd": "cd /repo && go test -vet=off -count=1 -timeout 25m ./...",
            "source_commits": hook_commits,
            "add_only": True,
        },
        "engines": [
            {"name": "tlc", "path": "/opt/veriftools/tla/tla2tools.jar",
             "serves_properties": sorted(CHECKS), "kind_free_text": "TLA+ explicit-state model checker (TLC 1.8.0) over the "
             "specifications in /verif/spec, bound to the code by the Go harness in /verif/harness"},
        ],
        "checks": [],
        "not_applicable": [],
        "notes": "Entry point: tools/check <ID> --tier quick|thorough. Exit 0 held / 1 VIOLATION / 2 machinery failure. "
                 "Known findings: known_findings.json.",
    }
    for p in props:
        pid = p["id"]
        if pid in CHECKS:
            c = CHECKS[pid]
            m["checks"].append({
                "property_id": pid,
                "quick_cmd": "tools/check %s --tier quick" % pid,
                "thorough_cmd": "tools/check %s --tier thorough" % pid,
                "evidence_file": "/verif/evidence/%s.json" % pid,
                "replay_cmd_template": "tools/replay %s {path}" % pid,
                "engine": c["engine"],
                "level_claimed": {"category": c["category"], "text": c["text"], "design_ref": c["design_ref"]},
                "level_note": c["note"],
                "technique": c["technique"],
            })
        else:
            m["not_applicable"].append({"property_id": pid, "reason": NOT_APPLICABLE.get(pid, PENDING)})
    json.dump(m, open(os.path.join(VERIF, "MANIFEST.json"), "w"), indent=1)
    print("checks:", [c["property_id"] for c in m["checks"]])


if __name__ == "__main__":
    main()
