#!/usr/bin/env python3
"""Regenerates /verif/MANIFEST.json from the table below (kept next to the checks so they stay in step)."""
import json
import os
import subprocess

VERIF = os.path.dirname(os.path.dirname(os.path.abspath(__file__)))

PIPE_NOTE = ("Trusted: TLC; tools/netgen.py (recorded wiring -> constants); the stage programs of spec/Pipeline.tla (one TLA+ "
             "step per blocking operation of helper/*.go), bound to the code by comparing every explored instance with a real "
             "execution (counts, hang / leak, parked goroutines) and by the C16 probes; the ample-set reduction, cross-checked "
             "against all interleavings on every network that fits. Bounds: periods <= 5 plus the default configuration, "
             "n <= 2w+2, capacities <= 2 (P+1 in the thorough tier).")

CHECKS = {
    "C02": dict(
        category="model_checking",
        text="For every indicator (68 catalogue entries = all 61 Compute methods plus constructor variants) x configurations x "
             "input capacities, the process network recorded from the real code through the verif hooks is model checked by TLC "
             "(spec/Pipeline.tla) with all equal input lengths 0..2w+2 as initial states; CountOK, SameLen and Aligned (provenance "
             "tokens: k-th value depends on input position k+w) are evaluated in every terminal state. Every instance is also "
             "executed on the real code and real counts are compared with the property's arithmetic and with the model; a "
             "model-reported misalignment is confirmed by perturbation runs before it is reported.",
        design_ref="DESIGN.md 2.1, 3, 5 (C02)", note=PIPE_NOTE,
        technique="TLC model checking of process networks recorded from the code + replay of every instance on the real code",
        engine="tlc"),
    "C03": dict(
        category="model_checking",
        text="Every catalogued pipeline (indicators, strategies, And/Or/Majority/Split compounds, decorators: 115 entries) x "
             "configurations x input capacities x length vectors (equal 0..2w+2; one input shorter / empty): the recorded network is "
             "model checked by TLC for NoPanic, SingleReader and termination with every process done (no deadlock, no leaked "
             "goroutine), under the reduced next-state relation for all and under ALL interleavings for the networks that fit, where "
             "the terminal state must be unique (determinacy) and equal to the reduced run's; EMA/RMA/SMMA units verified in "
             "isolation under all interleavings. The same instances run on the real code in timer-free child processes: hangs are "
             "reported by the Go runtime's deadlock detector, leaks by a goroutine census; real outputs of the same instance are compared "
             "across input channel capacities (needs no model); thorough tier adds GOMAXPROCS x pacing "
             "sweeps with bit-for-bit output comparison.",
        design_ref="DESIGN.md 2.1, 3.4, 5 (C03), 8", note=PIPE_NOTE,
        technique="TLC model checking (all interleavings / ample-set reduction) of recorded process networks + real executions "
                  "under the Go runtime deadlock detector",
        engine="tlc"),
    "C04": dict(
        category="model_checking",
        text="A universal statement over data: on the network recorded from the real code for every indicator, strategy and "
             "compound x configurations, TLC evaluates in every terminal state (all n) that each delivered token's provenance "
             "satisfies hi <= k + w (+ documented lag) resp. hi <= k for actions. The real code is driven with prefix runs for every "
             "cut point (bit-for-bit prefix equality) and perturbation runs for every position (earlier outputs must not change); a "
             "model-reported look-ahead counts only when a perturbation run reproduces it.",
        design_ref="DESIGN.md 2.1, 5 (C04)", note=PIPE_NOTE,
        technique="TLC provenance-token model checking of recorded networks + prefix/perturbation replays on the real code",
        engine="tlc"),
    "C05": dict(
        category="model_checking",
        text="Every strategy (33 base, MACD-RSI, 14 And/Or/Majority/Split/decorator compounds) x configurations x n in 0..2w+2: "
             "TLC on the recorded network derives the warm-up (leading Shift-fill tokens; compared with IdlePeriod() where declared) "
             "and evaluates ActCount, ActFill, ActAlign in every terminal state; every instance is run on the real code (count, values "
             "in {-1,0,1}, Hold prefix) and compared with the model; model-reported shifts are confirmed by perturbation runs.",
        design_ref="DESIGN.md 2.1, 5 (C05)", note=PIPE_NOTE,
        technique="TLC model checking of recorded strategy networks + replay of every instance on the real code",
        engine="tlc"),
    "C07": dict(
        category="model_checking",
        text="spec/Combinators.tla transcribes And/Or/Majority (over denormalised standing recommendations), Split, MACD-RSI, Inverse, "
             "No-Loss and Stop-Loss (sentinel state next to an independently tracked abstract position). TLC checks NoLossSafe, "
             "StopLossSafe, Repr and VoteSupported over every word of (sub-actions, close) steps to the depth bound for K=2,3 and "
             "several percentages, emits every behaviour, and each is replayed on the REAL combinators wrapped around scripted stubs "
             "(exact comparison). Random long words on the real combinators and the real MACD-RSI strategy beside its own "
             "sub-strategies are logged and validated by TLC (CombinatorsTrace.tla).",
        design_ref="DESIGN.md 2.4, 5 (C07)",
        note="Trusted: TLC, stub strategies, integer closes / dyadic percentages (exact IEEE products). Depth 3-4 exhaustive; longer "
             "words through trace validation.",
        technique="TLC model checking + model-generated behaviours replayed on the code + TLC trace validation of recorded runs",
        engine="tlc"),
    "C08": dict(
        category="model_checking",
        text="spec/Actions.tla models Outcome, NormalizeActions, DenormalizeActions, CountTransactions as state machines over "
             "(price 2^p, action) pairs; TLC explores every word to depth 5-6 checking ZeroUntilBuy, BuyAndHold, NormInvariant, "
             "NormDenormId, Alternates, AllInAllOut, emits every behaviour (20k-250k) and each is replayed on the real functions and "
             "ComputeWithOutcome(BuyAndHold) bit for bit (the lattice makes IEEE arithmetic exact); the derived relations are "
             "asserted on seeded generic prices as well.",
        design_ref="DESIGN.md 2.4, 5 (C08)",
        note="Trusted: TLC, the replay harness. Prices restricted to powers of two for exact comparison; generic prices sampled.",
        technique="TLC model checking + exhaustive model-generated histories replayed on the real code",
        engine="tlc"),
    "C10": dict(
        category="model_checking",
        text="spec/Repository.tla: abstract store, Append, and the table of read results the property prescribes (Get, GetSince per "
             "bound, LastDate, Assets bounds). TLC checks ReadYourWrites, IdsInOrder, ReadsConsistent over all Append histories "
             "(2 names + a never-appended one, 6 batch shapes incl. empty, out-of-order and equal dates, depth 4-5) and emits every "
             "history with the read table after each Append; each is replayed on the real InMemoryRepository, FileSystemRepository and "
             "SQLRepository (over a conforming in-process database/sql driver whose gate shows whether Append returns before its rows "
             "are written), with ALL reads performed after every Append. spec/RepositoryOverlap.tla: every interleaving of 2-3 "
             "overlapping Append calls on one asset (begin / feed / return / read steps; Visible, NoLossNoDup) replayed on the in-memory "
             "repository through source channels the harness controls (7.6 k schedules quick).",
        design_ref="DESIGN.md 2.5, 5 (C10)",
        note="Trusted: TLC, the replay harness, the fake SQL driver (harness/fakesql.go). SQL only for strictly increasing dates per "
             "asset; Assets() order and names that only ever received empty batches are not compared.",
        technique="TLC model checking + exhaustive model-generated histories replayed on the three real repositories",
        engine="tlc"),
    "C11": dict(
        category="model_checking",
        text="spec/CsvFile.tla: a file as a sequence of equal-length lines under WriteToFile / AppendToFile / AppendOrWriteToCsvFile "
             "(implementation-shaped overlay without truncation selectable) beside the abstract content the property prescribes; TLC "
             "checks ReadBack and OneHeader over all call histories (0..2 rows, depth 4-5) from a missing, empty and header-only file, "
             "emits every history and every header arrangement (any order of a subset of the struct columns plus an extra column, 64) "
             "with the name-based mapping; all are replayed on the real helper.Csv[T]. Value fidelity for every supported kind is a "
             "pool round trip through CSV (with and without header) and JSON - sampled, not model checked.",
        design_ref="DESIGN.md 2.5, 5 (C11)",
        note="Trusted: TLC, the replay harness; lines padded to equal byte length stand for records. The value dimension is a pool "
             "(quoting-sensitive strings, extreme integers, floats incl. subnormals and +-Inf, dates in both formats).",
        technique="TLC model checking of the file/columns state machine + replay on the real codec + value-pool round trips",
        engine="tlc"),
    "C12": dict(
        category="model_checking",
        text="spec/Sync.tla: job queue, W workers each stepping Take -> LastDate -> GetSince -> Append (one repository call per "
             "step), injected faults, two consecutive runs, unsynchronised shared memory modelled so that DataRace is a reachable "
             "state predicate. TLC checks Copied, Idempotent, Reported, NoDuplicates, InFlightBound over 100-470 scenarios (asset "
             "lists, source/target contents, fault subsets, start date) x W in 1..3 x all interleavings, Termination under fairness, "
             "and prints what the property prescribes per scenario. Sync.Run executes every scenario with recording, "
             "fault-injecting wrappers (a barrier forces workers to overlap) over in-memory and file-system targets for W in "
             "{1,2,4,16}; final contents and returned errors are compared, call logs are validated by TLC (SyncTrace.tla; corrupted "
             "copies must be rejected), and the scenarios run under the Go race detector. Beyond the property (spec/Tools.tla): every "
             "Register/New history of the two factory registries replayed on the real ones, and the indicator-sync BINARY built from "
             "/repo/cmd run on file-system repositories prepared from Sync.tla scenarios, twice, target directory and exit status "
             "compared with Expected / Reported.",
        design_ref="DESIGN.md 2.6, 5 (C12)",
        note="Trusted: TLC, the recording wrappers, the Go race detector (data races are detected by it; the model shows them "
             "reachable in the design). Asset lists without duplicates; dates 1..5.",
        technique="TLC model checking of the coordinator + scenario replay on the real Sync.Run + TLC trace validation + race detector",
        engine="tlc"),
    "C13": dict(
        category="model_checking",
        text="spec/Backtest.tla: Begin; W workers each Take -> GetSince -> AssetBegin -> Write x strategies -> AssetEnd; End after the "
             "wait group; report state mutated in separate steps (DataRace reachable when unlocked); the ranking comparator on a "
             "fixed-point lattice. TLC checks ExactlyOnce, ProtocolOrder, SameForAnyW over all interleavings (W 1..3, assets the "
             "repository lacks; one report object serving two runs in a row - Again, ResetOnBegin variant refuted), Termination under "
             "fairness, WeakOrder/RankingOK of the comparator, and emits arrangements a "
             "truncating comparator leaves unranked. Backtest.Run runs with a recording Report (call log validated by TLC, "
             "BacktestTrace.tla; outcomes compared with direct evaluation on the look-back window), DataReport and HTMLReport (rows "
             "of <asset>.html / index.html parsed: one row per pair, ranking order, best entry) for W in {1,2,4,16}, and under the Go "
             "race detector. Beyond the property: the indicator-backtest BINARY built from /repo/cmd run with 1 and 4 workers, its HTML "
             "output read back against ExactlyOnce / SameForAnyW.",
        design_ref="DESIGN.md 2.6, 5 (C13)",
        note="Trusted: TLC, the recording report, HTML row parsing, the Go race detector. Stub strategies (buy on the first snapshot, "
             "sell on a scripted one) stand for arbitrary strategies; per-strategy HTML pages are covered under C14.",
        technique="TLC model checking of the coordinator + scenario replay on the real Backtest.Run + TLC trace validation + race detector",
        engine="tlc"),
    "C14": dict(
        category="model_checking",
        text="Report() of every strategy (base, compound, decorated) x configurations x n beyond the warm-up: the network recorded "
             "from the real code, closed with the report template as its consumer (Template process: a date, then one value from "
             "every column, a closed column yields a zero), is model checked by TLC: ColumnsBalanced (no column ran out, nothing "
             "left in any channel, all processes done) and ColAligned (value in the row of date d computed for date d or a warm-up "
             "fill). Every instance is rendered by the real Report.WriteToWriter; column channels are inspected for left-over "
             "values, goroutines counted, and each printed row compared per date with the closing price, normalised action and "
             "portfolio outcome computed independently; model-reported late columns are confirmed by perturbation renders.",
        design_ref="DESIGN.md 2.1, 5 (C14)", note=PIPE_NOTE,
        technique="TLC model checking of recorded report networks with a Template consumer + real renders inspected by reflection",
        engine="tlc"),
    "C16": dict(
        category="model_checking",
        text="(a) spec/Helpers.tla holds the slice model of 35 stream helpers (and Gcd, Lcm, CommonPeriod, checked against their defining properties); TLC enumerates every input sequence over {-2,0,1,3} up to "
             "length 4-5 (pairs up to 2-3, triples up to 1-2) x every parameter 0..3/4 and emits each case with the expected outputs and "
             "the capacity rule of the returned channel; every case (30k quick / more thorough) is run on the real helper with input "
             "capacities 0 and 2 in a child process (hangs -> Go deadlock detector). (b) For 21 primitive stages and composites x "
             "parameters x all input-length vectors up to 3-4 x two harness policies, the probe harness records which channel "
             "operation the real stage takes next; TLC validates each trace against the stage programs of spec/Pipeline.tla "
             "(PipelineTrace.tla: internal steps have priority, boundary events follow the harness policy), which binds the order of "
             "receives, sends, drains and closes - including that longer inputs are consumed to the end.",
        design_ref="DESIGN.md 2.2, 3.3, 5 (C16)",
        note="Trusted: TLC, the probe harness (reflect.Select at quiescent points found by a goroutine census), float64 instantiation "
             "of the generic helpers. Echo with fewer inputs than its memory and Ring.Put's return value when nothing is displaced "
             "are not compared (documentation leaves them open).",
        technique="TLC-enumerated slice models replayed on the code + TLC trace validation of recorded stage protocols",
        engine="tlc"),
    "C17": dict(
        category="model_checking",
        text="TLC checks exhaustively (finite state space, all histories) that the implementation-shaped Ring and Bst of "
             "spec/Ring.tla and spec/Bst.tla refine the bounded FIFO / multiset with every observer agreeing; every history of "
             "the abstract models up to depth 5-7 is replayed on the real helper.Ring[T]/helper.Bst[T] for 5/11 element-type "
             "embeddings including one that maps the abstract range onto the full range of each integer type. Right level: the "
             "property quantifies over histories of a small state machine, which is what TLC enumerates.",
        design_ref="DESIGN.md 2.3, 5 (C17)",
        note="Trusted: TLC, the Go replay harness (harness/replay_ringbst.go), order-preserving embeddings. Histories beyond the "
             "depth bound are covered through the refinement check of the implementation-shaped model, which is bound to the code "
             "by the replays.",
        technique="TLA+ refinement checked by TLC + exhaustive model-generated histories replayed on the real code",
        engine="tlc"),
}

CHECKS["C19"] = dict(
    category="model_checking",
    text="spec/Readers.tla models the CSV reader at record-shape level (header arrangements with unknown / duplicated / missing "
         "columns, records of any length, a wrong-typed cell anywhere, with and without header; explicit Panic outcome where the code "
         "would index out of range) and the JSON stream reader at token level (truncation anywhere, wrong top-level value, wrong "
         "element type, garbage). TLC evaluates NeverPanics / JsonPrefixOK and enumerates every case (14k quick) with the rows of "
         "the well-formed prefix; each is rendered to bytes 4 / 2 ways and fed to the real ReadFromReader / JSONToChan in a "
         "timer-free child (panic -> child dies, hang -> Go deadlock detector, leaks -> census); 9 HTTP statuses x 19 bodies (incl. arrays whose elements are null / scalars / arrays) run "
         "against TiingoRepository through an in-process server.",
    design_ref="DESIGN.md 2.5, 5 (C19)",
    note="Trusted: TLC, the renderings, the child-process protocol. Arbitrary byte strings are reached only through renderings of the "
         "structural cases (not a fuzzer); the HTTP part uses a 15 s watchdog.",
    technique="TLC-enumerated record/token-level cases rendered to bytes and fed to the real readers in a child process",
    engine="tlc")

CHECKS["C09"] = dict(
    category="other",
    text="Hybrid: the oracle is the determinacy result TLC establishes for the recorded process networks (C03: unique terminal state "
         "under all interleavings, so a pipeline's output is a function of configuration and input only). On the real code, for every "
         "catalogued indicator, strategy and compound x configurations, a second Compute call after a warm call on other data, two "
         "concurrent Compute calls on different inputs and a second Report render on the SAME Go object are compared bit for bit with "
         "a fresh instance; the wiring recorded for the second call must be isomorphic to and channel-disjoint from the first; the "
         "same requests run under the Go race detector and a race report inside library code is a violation. TLA+ does not see Go "
         "memory, hence category other: the model contributes expected behaviour and schedules, the race detector the detection.",
    design_ref="DESIGN.md 5 (C09), 6",
    note="Trusted: the Go race detector, the harness's reuse drivers. Races are only found on schedules that actually run (sequential "
         "reuse, two concurrent calls).",
    technique="TLC determinacy as oracle + reuse/concurrency replays on one Go object + Go race detector",
    engine="tlc")

CHECKS["C01"] = dict(
    category="model_checking",
    text="(1) spec/Formulas.tla transcribes the documented formula of 68 catalogue entries (all 61 indicator types; Obv in part 2) "
         "from the doc comments, over exact rational arithmetic on "
         "position-indexed series (operands are combined at the same position; a zero denominator gives Undef, which propagates). "
         "TLC evaluates them on EVERY input word of length warm-up+3..4 over small alphabets (ties, zeros, flat bars with high = low, "
         "zero volume, a negative number for numeric inputs) for periods 1..5 - 95 k words quick, 740 k thorough - and prints the exact "
         "values; the harness runs the real indicators on the same words and every defined position is compared (tolerance 1e-9, "
         "squares where the formula takes a root): 0.4 M positions quick, 4.1 M thorough; the 32 purely arithmetic entries also run on "
         "the same words in the decimal unit 0.1 (not exactly representable values; expected = exact x 0.1^degree). (2) spec/Window.tla: the documented window "
         "function against the construction the code uses (Duplicate, Shift(P,0), running sum / multiset Insert-Remove, Skip) for "
         "MovingSum/Max/Min/SMA and OBV's recurrence, compared exactly on the real indicators.",
    design_ref="DESIGN.md 2.3, 5 (C01), 6",
    note="Trusted: TLC's evaluator, the transcription of the doc comments (where a doc comment leaves a seed or an average unstated - EMA "
         "seed = SMA, RSI averages = RMA, KAMA seed = previous price - the library's stated convention is taken), float tolerance 1e-9. "
         "Bounds: periods <= 5, words <= warm-up + 4, alphabets of 2-6 symbols; exact values must fit TLC's 32-bit integers, which "
         "caps the word length of Kama, Trix, Ppo/Pvo, StochasticRsi. Positions with a zero denominator are exempt. Not covered: "
         "ill-conditioned float behaviour on real-valued data (the decimal unit is the only non-dyadic one).",
    technique="TLC evaluation of the transcribed documented formulas on all small words + replay of every word on the real indicators",
    engine="tlc")

CHECKS["C15"] = dict(
    category="model_checking",
    text="The range / ordering statements of the property are theorems about the documented formulas in spec/Formulas.tla (RangeOK, GeOK, "
         "NonNegOK); TLC evaluates them exactly on every valid OHLCV / price word (long words over few symbols: flat and monotone runs, "
         "flat bars, zero volume) for 23 indicator entries x periods 1..5, and the same statements are evaluated on the outputs the real "
         "indicators deliver on those words, at every position (35 k words / 0.18 M statement instances quick, 365 k / 3.2 M thorough). "
         "That the real values equal the documented ones at every defined position is C01's comparison on the same machinery.",
    design_ref="DESIGN.md 2.3, 5 (C15)",
    note="On the lattice only: small-integer words, periods <= 5; real-valued series and rounding effects near the bounds are outside "
         "what TLC's exact arithmetic can enumerate. Positions with a zero denominator, and non-finite values carried on from them, are exempt.",
    technique="TLC evaluation of range/ordering theorems on the documented formulas + the same statements on real outputs for every word",
    engine="tlc")

CHECKS["C18"] = dict(
    category="model_checking",
    text="Specification side: (a) spec/Formulas.tla HomogOK - every documented indicator formula evaluated on the inputs with all prices "
         "(resp. all volumes) doubled equals 2^degree x the formula on the original inputs, Undef exactly where the original is - "
         "evaluated exactly by TLC on every word over the small alphabets (107 k words, 0.32 M theorem instances quick), with the degree "
         "(price, volume) of each output stated in tools/formulas.py; (b) spec/Rules.tla Dimensional - every comparison atom of every "
         "documented Buy/Sell rule (30 strategies, 48 atoms) compares quantities of equal degree or a quantity with the literal 0. Code "
         "side: the real indicators (67 catalogue entries, all but Mls/Mlr) run on every word TLC printed and on the word with prices x 4 "
         "and, separately, volumes x 8; each output must equal the original x 4^dp resp. 8^dv bit for bit (0.56 M values quick). All 62 "
         "strategies, compounds and decorators x configurations run on seeded valid OHLCV series and on the series scaled by (8,1), "
         "(1/4,1), (1,32), ...: the recommendations must be identical.",
    design_ref="DESIGN.md 2.3, 5 (C18)",
    note="Power-of-two factors only (that is where the relation is exact and needs no tolerance); strategies on seeded series rather "
         "than enumerated words; the outcome computation of strategy/outcome.go under scaling is not run here (its model is C08's).",
    technique="TLC evaluation of homogeneity theorems on the documented formulas and of a dimensional theorem on the documented rules + "
              "paired real executions on original and scaled inputs",
    engine="tlc")

CHECKS["C06"] = dict(
    category="model_checking",
    text="(c) documented indicator at the configured parameters: the network recorded from a strategy (26 of them) at a "
         "configuration of distinct small periods must contain the recorded network of its documented indicator(s) at the same "
         "periods, stage kind by stage kind with the amounts. (a) documented data: on the network recorded from the real code (asset.SnapshotsAs* extractors labelled by hooks) TLC "
         "propagates provenance tokens; the field set the action tokens depend on must equal the documented field set of each of "
         "the 32 base strategies. (b) documented rule: spec/Rules.tla + RulesData.tla generated from the transcription of the "
         "documentation (spec/rules_documented.json): TLC enumerates every realizable valuation of the comparison atoms of 30 "
         "strategies, checks that the documented Buy/Sell conditions are exclusive and not vacuous and prints the decision table; "
         "the harness computes the documented indicator values with the library's own indicator types from the documented "
         "fields, position by position, next to the real strategy's action; values are abstracted to atoms and the action is "
         "looked up in TLC's table; positions with equal compared quantities are exempt.",
    design_ref="DESIGN.md 2.7, 5 (C06)",
    note="Trusted: the transcription of the documentation (rules_documented.json, overrides and 'onlyif' modes in tools/rulesgen.py "
         "with their reasons), the oracle quantities (harness/rules_quantities.go; arithmetic of the indicators themselves is C01's "
         "concern). Alligator and StochasticRsi have no documented rule (field provenance only); MACD, Qstick, TripleRsi are "
         "checked as necessary conditions.",
    technique="TLC-generated decision tables + provenance tokens on recorded networks + replay against the library's own indicators",
    engine="tlc")

NOT_APPLICABLE = {
}

PENDING = "check not built yet (work in progress; see DESIGN.md 10)"


def main():
    props = [json.loads(l) for l in open(os.path.join(VERIF, "properties.jsonl"))]
    hooks = subprocess.run(["git", "-C", "/repo", "log", "--format=%H %s"], capture_output=True, text=True).stdout
    hook_commits = [l.split()[0] for l in hooks.splitlines() if " verif:" in l]
    m = {
        "version": 1,
        "setup_cmd": "cd /verif && sh tools/setup.sh",
        "hooks": {
            "guard": "verif",
            "enable": "go build -tags verif (harness: cd /verif/harness && CGO_ENABLED=0 go build -tags verif)",
            "baseline_off_cmd": "cd /repo && go test -vet=off -count=1 -timeout 25m ./...",
            "source_commits": hook_commits,
            "add_only": True,
        },
        "engines": [
            {"name": "tlc", "path": "/opt/veriftools/tla/tla2tools.jar",
             "serves_properties": sorted(CHECKS), "kind_free_text": "TLA+ explicit-state model checker (TLC 1.8.0) over the "
             "specifications in /verif/spec, bound to the code by the Go harness in /verif/harness"},
            {"name": "apalache", "path": "/opt/veriftools/apalache/bin/apalache-mc", "serves_properties": ["C17"],
             "kind_free_text": "symbolic model checker for TLA+: discharges the inductive invariant of spec/RingInd.tla (unbounded element "
             "values and histories), next to TLC's bounded exploration of spec/Ring.tla"},
            {"name": "tlaps", "path": "/usr/local/bin/tlapm", "serves_properties": ["C03"],
             "kind_free_text": "TLA+ proof system: proves the commutation lemma behind the ample-set reduction (spec/Commute.tla, 40 obligations incl. the capacity-0 rendezvous)"},
            {"name": "go-race-detector", "path": "go build -race", "serves_properties": ["C09", "C12", "C13"],
             "kind_free_text": "data races are detected on the real code under the schedules the harness forces (barriers); the TLA+ models show "
             "them reachable in the design"},
        ],
        "checks": [],
        "not_applicable": [],
        "notes": "Entry point: tools/check <ID> --tier quick|thorough. Exit 0 held / 1 VIOLATION / 2 machinery failure. "
                 "Known findings: known_findings.json.",
    }
    for p in props:
        pid = p["id"]
        if pid in CHECKS:
            c = CHECKS[pid]
            m["checks"].append({
                "property_id": pid,
                "quick_cmd": "tools/check %s --tier quick" % pid,
                "thorough_cmd": "tools/check %s --tier thorough" % pid,
                "evidence_file": "/verif/evidence/%s.json" % pid,
                "replay_cmd_template": "tools/replay %s {path}" % pid,
                "engine": c["engine"],
                "level_claimed": {"category": c["category"], "text": c["text"], "design_ref": c["design_ref"]},
                "level_note": c["note"],
                "technique": c["technique"],
            })
        else:
            m["not_applicable"].append({"property_id": pid, "reason": NOT_APPLICABLE.get(pid, PENDING)})
    json.dump(m, open(os.path.join(VERIF, "MANIFEST.json"), "w"), indent=1)
    print("checks:", [c["property_id"] for c in m["checks"]])


if __name__ == "__main__":
    main()
