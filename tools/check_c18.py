#!/usr/bin/env python3
"""C18 - recommendations do not depend on the currency unit or volume unit.

Specification side (TLC):
  * spec/Formulas.tla: for every documented formula, HomogOK - the formula evaluated on the inputs with every price (or every
    volume) doubled equals 2^degree times the formula on the original inputs, position by position, Undef exactly where the
    original is - evaluated exactly on every word over the small alphabets, with the degree (price, volume) stated per
    output in tools/formulas.py (averages, bands, differences: 1 in price; oscillators and ratios: 0; AD / OBV / VPT: 1 in
    volume; Force Index (1,1); EMV (2,-1)).
  * spec/Rules.tla: Dimensional - every comparison atom of every documented Buy/Sell rule compares quantities of equal degree,
    or a quantity with the literal 0.
Code side: the real indicators are run on every word TLC printed and on the same word with the prices multiplied by 4 and by 2^-10 and,
separately, the volumes by 8 and by 2^-12; each output must equal the original output times 4^dp resp. 8^dv BIT FOR BIT (IEEE arithmetic
is exactly scale-covariant for powers of two).  Every catalogued strategy, compound and decorator is run on seeded valid
OHLCV series and on the scaled series (prices x 2^3, x 2^-12, volumes x 2^5, x 2^-20): the recommendations must be identical."""
import concurrent.futures
import json
import os
import shutil
import struct
import time

import check_c01_formulas as CF
import formulas as F
import pipeline_engine as pe
import rulesgen
import vlib

PID = "C18"
SQ_DEG = F.SQ_DEG
PRICE_F, VOL_F = 4.0, 8.0
# (variant, scaled quantity, factor): up and down - an absolute tick or threshold only bites when the unit gets small
VARIANTS = [(1, "price", 4.0), (2, "volume", 8.0), (3, "price", 2.0 ** -10), (4, "volume", 2.0 ** -12)]
NV = 5


def tla_module(items):
    lines = ["---- MODULE MCHomog ----", "EXTENDS Formulas", ""]
    for k, it in enumerate(items):
        e = it["entry"]
        names = [F.NAMES[n] for n in it["inputs"]]
        al = "{" + ", ".join("<<" + ", ".join(str(x) for x in t) + ">>" for t in it["alpha"]) + "}"
        L = it["L"]
        lets = " ".join("%s == Ser([i \\in 1..%d |-> w[i][%d]])" % (nm, L, j + 1) for j, nm in enumerate(names))
        ths = []
        for label, ex, sel in [o[:3] for o in e["outs"]]:
            dp, dv = F.DEGREES[e["pipe"]][sel] if isinstance(sel, int) else SQ_DEG[label]
            base = ex.format(*it["cfg"])
            # the same expression over the scaled inputs: substitute by LET-bound primed names
            ths.append("HomogOK(%s, Hp_%d_%d, %d) /\\ HomogOK(%s, Hv_%d_%d, %d)" % (base, k, len(ths), dp, base, k, len(ths), dv))
        defs = []
        for j, (label, ex, sel) in enumerate(o[:3] for o in e["outs"]):
            base = ex.format(*it["cfg"])
            defs.append((j, base))
        # scaled variants are written out by renaming the input names inside a nested LET
        pnames = {nm: ("Twice(%s)" % nm if inp != "volume" else nm) for nm, inp in zip(names, it["inputs"])}
        vnames = {nm: ("Twice(%s)" % nm if inp == "volume" else nm) for nm, inp in zip(names, it["inputs"])}
        inner_p = " ".join("%s_ == %s" % (nm, pnames[nm]) for nm in names)
        inner_v = " ".join("%s_ == %s" % (nm, vnames[nm]) for nm in names)

        def rename(expr):
            import re
            # input names are the identifiers o h l c v xs ys used as whole words
            return re.sub(r"\b(%s)\b" % "|".join(names), lambda m: m.group(1) + "_", expr)
        th_items = []
        for j, base in defs:
            label, ex, sel = e["outs"][j][:3]
            dp, dv = F.DEGREES[e["pipe"]][sel] if isinstance(sel, int) else SQ_DEG[label]
            th_items.append("(LET %s IN HomogOK(%s, %s, %d))" % (inner_p, base, rename(base), dp))
            th_items.append("(LET %s IN HomogOK(%s, %s, %d))" % (inner_v, base, rename(base), dv))
        lines.append("ASSUME \\A w \\in Words(%s, %d) : LET %s IN PrintT(\"H \" \\o ToJson([k |-> %d, w |-> w, th |-> <<%s>>]))"
                     % (al, L, lets, k, ", ".join(th_items)))
    lines.append("====")
    return "\n".join(lines) + "\n"


def bits(x):
    return struct.pack(">d", x)


def same(a, b):
    return (a != a and b != b) or bits(a) == bits(b) or (a == 0.0 and b == 0.0)


def indicators_part(tier, V, machinery):
    cat = {e["name"]: e for e in pe.catalogue()}
    entries = [e for e in F.ENTRIES if e["pipe"] in F.DEGREES]
    extra = [F.E(p, [], cfgs) for p, cfgs in F.EXTRA_CFGS.items()]
    wd = vlib.scratch("verif-c18-")
    try:
        pairs = [(e["pipe"], tuple(cfg)) for e in entries + extra for cfg in e["cfgs"] + (e["more"] if tier == "thorough" else [])]
        idles, _ = CF.get_idles(pairs, wd)
        for key, w in list(idles.items()):
            if w is None or w < 0:
                idles[key] = 2 * max(list(key[1]) + [1]) + 2       # no declared warm-up (Obv ...): a generous word length
        items = F.plan(entries + extra, cat, idles, tier)
        nchunks = min(16, max(1, len(items)))
        order = sorted(range(len(items)), key=lambda i: -(len(items[i]["alpha"]) ** items[i]["L"]) * (1 + len(items[i]["entry"]["outs"])))
        chunks = [[] for _ in range(nchunks)]
        for j, i in enumerate(order):
            chunks[j % nchunks].append(i)

        def tlc_chunk(idx):
            sub = [items[i] for i in idx]
            r = vlib.run_tlc({"Formulas.tla": None, "MCHomog.tla": tla_module(sub)}, "MCHomog", "INIT Init\nNEXT Next\n", workers=1,
                             timeout=3000 if tier == "quick" else 10000, heap="3g")
            return [(idx[o["k"]], o) for t, o in r.prints if t == "H"]

        cases = []
        with concurrent.futures.ThreadPoolExecutor(max_workers=nchunks) as ex:
            for part in ex.map(tlc_chunk, [c for c in chunks if c]):
                cases.extend(part)
        planned = sum(len(it["alpha"]) ** it["L"] for it in items)
        if len(cases) != planned:
            raise vlib.Machinery("Formulas.tla emitted %d words, %d planned" % (len(cases), planned))
        model_false = {}
        nth = 0
        for ii, o in cases:
            it = items[ii]
            for j, ok in enumerate(o["th"]):
                nth += 1
                if not ok:
                    lab = it["entry"]["outs"][j // 2][0] + (" (price)" if j % 2 == 0 else " (volume)")
                    model_false.setdefault((it["entry"]["pipe"], lab), (it["cfg"], o["w"]))
        for (pipe, lab), (cfg, w) in sorted(model_false.items()):
            machinery.append("spec/Formulas.tla: the documented formula of %s%s '%s' is not homogeneous of the stated degree on %s "
                             "(degree table in tools/formulas.py or transcription wrong)" % (pipe, cfg, lab, w))
        # real runs: original, prices x4, volumes x8
        path = os.path.join(wd, "cases.ndjson")
        nreq = 0
        with open(path, "w") as f:
            for cid, (ii, o) in enumerate(cases):
                it = items[ii]
                unit = 1e8 if it["entry"].get("note") == "volume unit 100000000" else 1.0
                for variant, what, fac in [(0, None, 1.0)] + VARIANTS:
                    pf = fac if what == "price" else 1.0
                    vf = fac if what == "volume" else 1.0
                    if what == "volume" and "volume" not in it["inputs"]:
                        continue
                    if what == "price" and all(n == "volume" for n in it["inputs"]):
                        continue
                    cols = [[float(t[j]) * (vf * unit if it["inputs"][j] == "volume" else pf) for t in o["w"]] for j in range(len(it["inputs"]))]
                    f.write(json.dumps({"id": cid * NV + variant, "pipe": it["entry"]["pipe"], "cfg": it["cfg"], "in": cols}) + "\n")
                    nreq += 1
        out = os.path.join(wd, "cases.out")
        p = vlib.harness_cmd(["replay-formula", path, out], timeout=3000)
        if p.returncode != 0:
            raise vlib.Machinery("replay-formula failed: " + (p.stderr or p.stdout)[:800])
        res = {}
        for line in open(out):
            r = json.loads(line)
            res[r["id"]] = r
        if len(res) != nreq:
            raise vlib.Machinery("replay-formula returned %d of %d results" % (len(res), nreq))
        compared = 0
        bad = {}
        for cid, (ii, o) in enumerate(cases):
            it = items[ii]
            pipe = it["entry"]["pipe"]
            base = res[cid * NV]
            if base.get("err"):
                V.violation({"indicator": pipe, "symptom": "crash"}, "%s%s on %s: %s" % (pipe, it["cfg"], o["w"], base["err"]), {"word": o["w"]})
                continue
            b = [[F.parse_float(x) for x in col] for col in base["outs"]]
            for variant, what, fac in VARIANTS:
                di = 0 if what == "price" else 1
                r = res.get(cid * NV + variant)
                if r is None:
                    continue
                if r.get("err"):
                    V.violation({"indicator": pipe, "symptom": "crash"}, "%s%s on scaled %s: %s" % (pipe, it["cfg"], o["w"], r["err"]), {"word": o["w"]})
                    continue
                s_ = [[F.parse_float(x) for x in col] for col in r["outs"]]
                for oi, (col, scol) in enumerate(zip(b, s_)):
                    deg = F.DEGREES[pipe][oi][di]
                    k = fac ** deg
                    if len(col) != len(scol):
                        key = (pipe, oi, what, tuple(it["cfg"]))
                        bad.setdefault(key, (o["w"], -1, len(col), len(scol), deg, fac))
                        continue
                    for j, (x, y) in enumerate(zip(col, scol)):
                        compared += 1
                        if not same(x * k, y):
                            key = (pipe, oi, what, tuple(it["cfg"]))
                            if key not in bad or len(o["w"]) < len(bad[key][0]):
                                bad[key] = (o["w"], j, x, y, deg, fac)
        for (pipe, oi, what, cfg), (w, j, x, y, deg, fac) in sorted(bad.items()):
            V.violation({"indicator": pipe, "out": oi, "scaled": what, "cfg": json.dumps(list(cfg))},
                        "%s%s output %d is not homogeneous of degree %d in the %s: on the inputs %s = %s value %d is %r, with every %s "
                        "multiplied by %g it is %r (expected %r)" %
                        (pipe, list(cfg), oi, deg, what, cat[pipe]["inputs"], w, j, x, what, fac, y,
                         x * (fac ** deg) if isinstance(x, float) else None),
                        {"pipe": pipe, "cfg": list(cfg), "word": w, "output": oi, "scaled": what})
        return {"indicator_entries": len({it["entry"]["pipe"] for it in items}), "indicator_words": len(cases), "indicator_real_runs": nreq,
                "indicator_values_compared": compared, "model_homogeneity_theorems": nth}
    finally:
        shutil.rmtree(wd, ignore_errors=True)


def strategies_part(tier, V, machinery, rng):
    cat = [e for e in pe.catalogue() if e["class"] in ("strategy", "compound") or e["name"].startswith("aux.Outcome")]
    only = os.environ.get("VERIF_ONLY")
    if only:
        import re
        cat = [e for e in cat if re.search(only, e["name"])]
    reqs, meta = [], []
    seeds = [11, 12] if tier == "quick" else [11, 12, 13, 14, 15]
    scales = [(8.0, 1.0), (2.0 ** -12, 1.0), (1.0, 32.0), (1.0, 2.0 ** -20)] if tier == "quick" else \
             [(8.0, 1.0), (2.0 ** -12, 1.0), (1.0, 32.0), (1.0, 2.0 ** -20), (0.25, 0.125), (1024.0, 1.0 / 64), (2.0 ** 20, 2.0 ** 20)]
    for e in cat:
        cfgs = pe.configs_for(e, tier, rng, max_alt=1 if tier == "quick" else 3)
        for cfg in cfgs:
            n = 3 * max(list(cfg) + [10]) + 40
            for sd in seeds:
                for (ps, vs) in [(1.0, 1.0)] + scales:
                    reqs.append({"id": "s%d" % len(reqs), "pipe": e["name"], "cfg": cfg, "cap": 0, "lens": [n],
                                 "data": {"seed": sd, "round": 2, "price_scale": ps, "volume_scale": vs}, "values": True, "mode": "compute"})
                    meta.append((e["name"], cfg, sd, ps, vs, n))
    res = vlib.run_children(reqs)
    groups = {}
    for m, r in zip(meta, res):
        groups.setdefault(m[:3] if False else (m[0], tuple(m[1]), m[2]), []).append((m, r))
    compared = signals = 0
    for (name, cfg, sd), lst in groups.items():
        base = [x for x in lst if x[0][3] == 1.0 and x[0][4] == 1.0][0][1]
        if base is None or base.get("deadlock"):
            machinery.append("%s%s: no result of the unscaled run" % (name, list(cfg)))
            continue
        bacts = [o.get("bits") or [] for o in base["outs"]]       # actions (and, for aux.Outcome entries, the outcome stream: degree 0)
        signals += sum(1 for b in bacts[0] if b not in ("0", "0000000000000000"))
        for m, r in lst:
            if m[3] == 1.0 and m[4] == 1.0:
                continue
            if r is None or r.get("deadlock"):
                machinery.append("%s%s: no result of the scaled run" % (name, list(cfg)))
                continue
            acts = [o.get("bits") or [] for o in r["outs"]]
            compared += 1
            if acts != bacts:
                oi = next(i for i, (a, b) in enumerate(zip(bacts, acts)) if a != b)
                j = next((i for i, (a, b) in enumerate(zip(bacts[oi], acts[oi])) if a != b), min(len(acts[oi]), len(bacts[oi])))
                what = "price" if m[3] != 1.0 and m[4] == 1.0 else "volume" if m[3] == 1.0 else "price and volume"
                V.violation({"pipe": name, "scaled": what, "symptom": "recommendation-changes"},
                            "%s%s: the %s on the seeded series %d (%d snapshots) change when every %s is multiplied by %s: first "
                            "difference at snapshot %d" % (name, list(cfg), "recommendations" if oi == 0 else "outcomes", sd, m[5], what, (m[3], m[4]), j),
                            {"pipe": name, "cfg": list(cfg), "data": {"seed": sd, "round": 2}, "price_scale": m[3], "volume_scale": m[4], "n": m[5]})
    return {"strategy_entries": len(cat), "strategy_runs": len(reqs), "strategy_scaled_comparisons": compared, "non_hold_actions_in_unscaled_runs": signals}


def rules_part(machinery):
    tla, meta = rulesgen.compile_rules()
    mc = "---- MODULE MCDim ----\nEXTENDS Rules\nASSUME PrintT(\"DIM \" \\o ToJson([dimensional |-> Dimensional]))\n====\n"
    r = vlib.run_tlc({"Rules.tla": None, "RulesData.tla": tla, "MCDim.tla": mc}, "MCDim", "INIT Init\nNEXT Next\n", workers=1, timeout=600)
    d = [o for t, o in r.prints if t == "DIM"]
    if not d:
        raise vlib.Machinery("Rules.tla: Dimensional was not evaluated")
    return bool(d[0]["dimensional"]), sum(len(m["atoms"]) for m in meta.values())


def main():
    t0 = time.time()
    tier = vlib.tier()
    vlib.build_harness()
    V = vlib.Verdicts(PID)
    machinery = []
    import random
    rng = random.Random(vlib.seed())
    dim_ok, natoms = rules_part(machinery)
    if not dim_ok:
        print("MODEL: spec/Rules.tla Dimensional is FALSE: a documented rule compares quantities of different degree of homogeneity")
    cov = {"documented_rules_dimensional": dim_ok, "rule_atoms": natoms}
    if not os.environ.get("VERIF_ONLY"):
        cov.update(indicators_part(tier, V, machinery))
    cov.update(strategies_part(tier, V, machinery, rng))
    rc = V.finish()
    for m in machinery:
        print("MACHINERY: " + m[:500])
    vlib.write_evidence(PID, "model_checking", {
        "states": 1, "transitions": cov.get("indicator_words", 0), "traces_validated_against_impl": cov.get("indicator_real_runs", 0) + cov["strategy_runs"],
        "evaluations": cov.get("indicator_values_compared", 0) + cov["strategy_scaled_comparisons"],
        "distinct_nontrivial": cov.get("indicator_words", 0) + cov["strategy_scaled_comparisons"],
        "rule": "indicator case = (entry, configuration, word TLC enumerated, scaled input class); strategy case = (entry, configuration, "
                "seeded series, scale pair); non-trivial = all indicator words reach past the warm-up; strategies: series of 3 x longest "
                "period + 40 snapshots",
        "samples": [{"scales": {"indicators": {"price": PRICE_F, "volume": VOL_F}}}],
        "exhaustive": False, "known_findings_hit": V.hit, **cov},
        time.time() - t0, len(V.new),
        assumptions=["power-of-two factors (IEEE arithmetic exactly scale-covariant; no over/underflow at these magnitudes)",
                     "Mls / Mlr (x, y inputs, not OHLCV) are not covered", "degrees of homogeneity as stated in tools/formulas.py DEGREES, "
                     "checked on the documented formulas by TLC"])
    if rc == 0 and machinery:
        return 2
    return rc


if __name__ == "__main__":
    vlib.main_wrapper(main)
