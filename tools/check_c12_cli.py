"""Beyond the listed properties: the factories and the indicator-sync command-line tool (spec/Tools.tla), run as part of C12.

(1) Registry: TLC explores every history of Register / New (spec/Tools.tla, LastWins / ConfigPassed) and each history is
    replayed on asset.RegisterRepositoryBuilder / NewRepository and backtest.RegisterReportBuilder / NewReport in a fresh
    process (the maps are process-wide).
(2) indicator-sync: the binary built from /repo/cmd/indicator-sync is run on file-system repositories prepared from
    scenarios of spec/Sync.tla - assets as arguments or, without arguments, what the SOURCE lists; -days for the start
    date; an asset the source does not hold as the fault - twice in a row; the target directory afterwards must hold what
    Sync.tla's Expected prescribes and the exit status must be 1 exactly when an asset failed.  Unknown repository names
    must exit 1 without writing anything."""
import concurrent.futures
import datetime
import json
import os
import shutil
import subprocess

import vlib

ENV = dict(os.environ, GOFLAGS="-mod=mod", GOPROXY="off", GOSUMDB="off", GOTOOLCHAIN="local", CGO_ENABLED="0")
BASE_OFFSET = 20          # model date d = today - (BASE_OFFSET - d) days


def registry_part(tier, V, machinery):
    depth = 3 if tier == "quick" else 4
    cfg = ('CONSTANTS Builtin = {"memory", "html"} Custom = {"x"} Builders = {"b1", "b2"} Configs = {"c1"} Depth = %d\n'
           'SPECIFICATION Spec\nCHECK_DEADLOCK FALSE\nINVARIANTS LastWins ConfigPassed Emit\n' % depth)
    r = vlib.run_tlc({"Tools.tla": None}, "Tools", cfg, workers=4, timeout=1200, heap="4g")
    if r.violation:
        machinery.append("spec/Tools.tla: %s violated in the model" % r.violation)
    hists = [o for t, o in r.prints if t == "HIST"]
    if len(hists) < 100:
        raise vlib.Machinery("Tools.tla emitted %d histories" % len(hists))
    exe = vlib.build_harness()

    def one(h):
        p = subprocess.run([exe, "replay-registry", json.dumps(h)], capture_output=True, text=True, timeout=60)
        if p.returncode != 0:
            return h, None, p.stderr[:300]
        return h, json.loads(p.stdout), None
    bad = 0
    with concurrent.futures.ThreadPoolExecutor(max_workers=16) as ex:
        for h, rep, err in ex.map(one, hists):
            if rep is None:
                machinery.append("replay-registry failed: %s" % err)
                continue
            for m in rep["mismatches"] or []:
                bad += 1
                V.violation({"symptom": "registry"}, "factory registry: %s (history %s)" % (m, [(s["op"], s["name"]) for s in h]), {"history": h})
    return {"registry_states": r.distinct, "registry_histories": len(hists), "registry_mismatches": bad}


def date_of(today, d):
    return (today - datetime.timedelta(days=BASE_OFFSET - d)).strftime("%Y-%m-%d")


def write_repo(path, contents, today):
    os.makedirs(path, exist_ok=True)
    for a, ds in contents.items():
        with open(os.path.join(path, a + ".csv"), "w") as f:
            f.write("Date,Open,High,Low,Close,Volume\n")
            for d in ds:
                f.write("%s,%d,%d,%d,%d,%d\n" % (date_of(today, d), 10 + d, 12 + d, 9 + d, 11 + d, 1000 + d))


def read_repo(path, today):
    out = {}
    rev = {date_of(today, d): d for d in range(-5, 40)}
    for fn in sorted(os.listdir(path)):
        if not fn.endswith(".csv"):
            continue
        rows = open(os.path.join(path, fn)).read().splitlines()[1:]
        out[fn[:-4]] = [rev.get(r.split(",")[0], r.split(",")[0]) for r in rows if r.strip()]
    return out


def cli_part(tier, V, machinery, scs, tla_scenario):
    now = datetime.datetime.utcnow()
    if now.hour == 23 and now.minute >= 50 or now.hour == 0 and now.minute < 2:
        return {"cli_skipped": "within minutes of midnight UTC: -days is relative to the current time"}
    today = datetime.datetime(now.year, now.month, now.day)
    repo = os.environ.get("VERIF_REPO", "/repo")
    wd = vlib.scratch("verif-c12cli-")
    try:
        exe = os.path.join(wd, "indicator-sync")
        p = subprocess.run(["go", "build", "-o", exe, "./cmd/indicator-sync"], cwd=repo, capture_output=True, text=True, env=ENV, timeout=600)
        if p.returncode != 0:
            raise vlib.Machinery("cmd/indicator-sync does not build: " + p.stderr[:600])
        # scenarios the command line can express: no failing Append; a failing GetSince = an asset the source does not hold
        cli = []
        for sc in scs:
            if sc["failApp"] or sc.get("fromTarget"):
                continue
            src = {a: v for a, v in sc["src"].items() if a not in sc["failGet"]}
            for noargs in (False, True):
                assets = sorted(src) if noargs else list(sc["assets"])
                if not assets:
                    continue
                cli.append(dict(sc, id=len(cli) + 1, src=src, failGet=[], failApp=[], assets=assets, noargs=noargs))
        # the informative ones first: something to copy, several assets, source and target listing different names
        def weight(c):
            copies = sum(1 for a in c["assets"] if c["src"].get(a))
            return -(2 * copies + len(c["assets"]) + (3 if c["noargs"] and set(c["src"]) != set(c["tgt0"]) else 0))
        cli.sort(key=lambda c: (weight(c), c["id"]))
        cli = cli[:24 if tier == "quick" else 200]
        for i, c in enumerate(cli):
            c["id"] = i + 1
        mc = "---- MODULE MCSync ----\nEXTENDS Sync\nMCScenarios == {\n" + ",\n".join(tla_scenario(s) for s in cli) + "\n}\n====\n"
        cfg = "CONSTANTS Scenarios <- MCScenarios W = 1 Locked = TRUE\nSPECIFICATION Spec\nCHECK_DEADLOCK FALSE\nINVARIANTS Copied Idempotent Reported EmitExpected\n"
        r = vlib.run_tlc({"Sync.tla": None, "MCSync.tla": mc}, "MCSync", cfg, workers=4, timeout=1200, heap="4g")
        if r.violation:
            machinery.append("spec/Sync.tla: %s violated on the command-line scenarios" % r.violation)
        expected = {o["id"]: o for t, o in r.prints if t == "EXP"}
        nrun = 0
        for sc in cli:
            exp = expected.get(sc["id"])
            if exp is None:
                machinery.append("no model expectation for command-line scenario %d" % sc["id"])
                continue
            d = os.path.join(wd, "s%d" % sc["id"])
            write_repo(os.path.join(d, "src"), sc["src"], today)
            write_repo(os.path.join(d, "tgt"), sc["tgt0"], today)
            # model start s: rows with date >= s are missing ones; now - days has a time of day, so one more day back
            days = BASE_OFFSET - sc["start"] + 1
            cmd = [exe, "-source-name", "filesystem", "-source-config", os.path.join(d, "src"), "-target-name", "filesystem",
                   "-target-config", os.path.join(d, "tgt"), "-days", str(days), "-workers", "2", "-delay", "0"] + ([] if sc["noargs"] else sc["assets"])
            for run in (1, 2):
                p = subprocess.run(cmd, capture_output=True, text=True, timeout=120)
                nrun += 1
                got = read_repo(os.path.join(d, "tgt"), today)
                want = {a: list(v) for a, v in exp["expected"].items() if v or a in got}
                got = {a: v for a, v in got.items() if v or a in want}
                if got != want:
                    V.violation({"symptom": "cli-contents", "run": run},
                                "indicator-sync %s (source %s, target before %s, -days for start %d), run %d: the target holds %s, spec/Sync.tla "
                                "prescribes %s" % ("without arguments" if sc["noargs"] else sc["assets"], sc["src"], sc["tgt0"], sc["start"], run, got, want),
                                {"scenario": sc, "stderr": p.stderr[-600:]})
                if (p.returncode != 0) != bool(exp["err"]):
                    V.violation({"symptom": "cli-exit-status", "run": run},
                                "indicator-sync %s (source %s): exit status %d, a failing asset: %s" %
                                ("without arguments" if sc["noargs"] else sc["assets"], sorted(sc["src"]), p.returncode, exp["err"]),
                                {"scenario": sc, "stderr": p.stderr[-600:]})
        # unknown repository names
        d = os.path.join(wd, "unknown")
        write_repo(os.path.join(d, "src"), {"a": [1, 2]}, today)
        for flags in (["-source-name", "nosuch", "-target-name", "filesystem", "-target-config", os.path.join(d, "tgt")],
                      ["-source-name", "filesystem", "-source-config", os.path.join(d, "src"), "-target-name", "nosuch"]):
            p = subprocess.run([exe] + flags + ["a"], capture_output=True, text=True, timeout=60)
            nrun += 1
            if p.returncode == 0 or os.path.exists(os.path.join(d, "tgt", "a.csv")):
                V.violation({"symptom": "cli-unknown-repository"},
                            "indicator-sync %s: exit status %d, target written: %s" % (flags[:2], p.returncode, os.path.exists(os.path.join(d, "tgt", "a.csv"))),
                            {"flags": flags})
        return {"cli_scenarios": len(cli), "cli_runs": nrun, "cli_states": r.distinct}
    finally:
        shutil.rmtree(wd, ignore_errors=True)


def run(tier, V, machinery, scs, tla_scenario):
    cov = registry_part(tier, V, machinery)
    cov.update(cli_part(tier, V, machinery, scs, tla_scenario))
    return cov
