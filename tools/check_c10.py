#!/usr/bin/env python3
"""C10 - repositories behave as a map from asset name to ordered snapshots.

spec/Repository.tla: abstract store with Append and the table of read results the property prescribes.
TLC checks ReadYourWrites, IdsInOrder, ReadsConsistent over all Append histories (2 names + a
never-appended one, dates 1..3, batches incl. empty / out-of-order / equal dates) and emits every
history with the complete read table after each Append; the harness replays each on the real
InMemoryRepository, FileSystemRepository (fresh directory) and SQLRepository (over a conforming
in-process database/sql driver with a gate that shows whether Append returns before its rows are
written) and performs ALL reads after every Append."""
import json
import os
import shutil
import time

import vlib

PID = "C10"
# SQLRepository.Append as coded: True = returns before the rows are stored (pinned commit); False since fix c466521
SQL_ASYNC_AS_CODED = False


def cfg(depth, async_, emit):
    s = ('CONSTANTS Names = {"a", "b"} Ghost = "ghost" Dates = {1, 2, 3} Batches <- MCBatches Depth = %d Async = %s\n'
         'SPECIFICATION Spec\nCHECK_DEADLOCK FALSE\n' % (depth, "TRUE" if async_ else "FALSE"))
    if emit:
        s += "INVARIANTS Emit\n"
    else:
        s += "INVARIANTS ReadYourWrites IdsInOrder ReadsConsistent\n"
    return s


MC = "---- MODULE MCRepo ----\nEXTENDS Repository\nMCBatches == {<<>>, <<1>>, <<1, 2>>, <<2>>, <<3, 3>>, <<3, 1>>}\n====\n"


def main():
    t0 = time.time()
    tier = vlib.tier()
    vlib.build_harness()
    V = vlib.Verdicts(PID)
    machinery = []
    depth = 3 if tier == "quick" else 4
    files = {"Repository.tla": None, "MCRepo.tla": MC}
    r1 = vlib.run_tlc(files, "MCRepo", cfg(depth + 1, False, False), workers=8, timeout=1800, heap="6g")
    states, trans = r1.distinct, r1.generated
    model_notes = []
    if r1.violation:
        machinery.append("spec/Repository.tla (synchronous Append): %s violated" % r1.violation)
    if SQL_ASYNC_AS_CODED:
        ra = vlib.run_tlc(files, "MCRepo", cfg(2, True, False), workers=2, timeout=600)
        states += ra.distinct
        trans += ra.generated
        if ra.violation == "ReadYourWrites":
            model_notes.append("Async = TRUE (SQLRepository.Append as coded): TLC refutes ReadYourWrites")
        else:
            machinery.append("Async model did not refute ReadYourWrites")
    r2 = vlib.run_tlc(files, "MCRepo", cfg(depth, False, True), workers=1, timeout=1800, heap="6g")
    states += r2.distinct
    trans += r2.generated
    hists = [o for t, o in r2.prints if t == "HIST"]
    wd = vlib.scratch("verif-c10-")
    try:
        path = os.path.join(wd, "hist.ndjson")
        with open(path, "w") as f:
            for h in hists:
                f.write(json.dumps(h) + "\n")
        p = vlib.harness_cmd(["replay-repo", path], timeout=3000)
        if p.returncode != 0:
            raise vlib.Machinery("replay-repo failed: " + p.stderr[:1500])
        rep = json.loads(p.stdout)
    finally:
        shutil.rmtree(wd, ignore_errors=True)
    for m in rep["mismatches"] or []:
        op = m["what"].split("(")[0]
        kind = "unknown-asset-no-error" if "never-appended" in m["what"] else (
            "append-returns-early" if "returned while" in m["what"] else "result")
        V.violation({"repo": m["repo"], "op": op, "kind": kind}, "%s repository: %s" % (m["repo"], m["what"]),
                    {"history": hists[m["hist"]], "step": m["step"], "mismatch": m})
    sql_async_seen = any(m["repo"] == "sql" and "returned while" in m["what"] for m in rep["mismatches"] or [])
    if SQL_ASYNC_AS_CODED and not sql_async_seen:
        machinery.append("the model says SQLRepository.Append is asynchronous (SQL_ASYNC_AS_CODED) but the gate did not observe it")
    # ---- overlapping Appends to one asset of the repository that is guarded for concurrent use (RepositoryOverlap.tla)
    scheds = []
    # (appenders, rows each, reads): measured 7.6 k schedules for (2,2,2); (3,2,2) has 12.9 M states and does not finish
    for A, K, R in ([(2, 2, 2)] if tier == "quick" else [(2, 3, 2), (3, 1, 2)]):
        ocfg = "CONSTANTS A = %d K = %d MaxReads = %d\nSPECIFICATION Spec\nCHECK_DEADLOCK FALSE\nINVARIANTS Visible NoLossNoDup Emit\n" % (A, K, R)
        ro = vlib.run_tlc({"RepositoryOverlap.tla": None}, "RepositoryOverlap", ocfg, workers=4, timeout=2400, heap="6g")
        states += ro.distinct
        trans += ro.generated
        if ro.violation:
            machinery.append("spec/RepositoryOverlap.tla: %s violated in the model" % ro.violation)
        scheds += [o for t, o in ro.prints if t == "SCHED"]
    if len(scheds) < 50:
        raise vlib.Machinery("RepositoryOverlap.tla emitted %d schedules" % len(scheds))
    wd = vlib.scratch("verif-c10o-")
    try:
        path = os.path.join(wd, "sched.ndjson")
        with open(path, "w") as f:
            for sch in scheds:
                f.write(json.dumps(sch) + "\n")
        p = vlib.harness_cmd(["replay-overlap", path], timeout=1800)
        if p.returncode != 0:
            raise vlib.Machinery("replay-overlap failed (a hang here means an Append call did not take a snapshot it was handed): " + (p.stderr or p.stdout)[:800])
        orep = json.loads(p.stdout)
    finally:
        shutil.rmtree(wd, ignore_errors=True)
    for m in orep["mismatches"] or []:
        V.violation({"repo": "memory", "op": "Append", "kind": "overlapping-appends"},
                    "memory repository, overlapping Append calls on one asset: %s (an Append that has returned must stay visible)" % m, {"mismatch": m})
    for n in model_notes:
        print("MODEL: " + n)
    rc = V.finish()
    for m in machinery:
        print("MACHINERY: " + m)
    vlib.write_evidence(PID, "model_checking", {
        "states": states, "transitions": trans, "traces_validated_against_impl": rep["histories"],
        "samples": [{"history": [{"op": s["op"], "n": s["n"], "rows": s["rows"], "reads_last": s["reads"]["last"]} for s in hists[len(hists) // 2]]}] if hists else [{"note": "none"}],
        "evaluations": rep["checks"], "distinct_nontrivial": len([h for h in hists if any(s["rows"] for s in h)]),
        "rule": "every history of %d Append calls over names {a,b}, batches {<<>>,<<1>>,<<1,2>>,<<2>>,<<3,3>>,<<3,1>>}; after each "
                "Append all reads (Get, GetSince x 3 bounds, LastDate for a, b and a never-appended name; Assets) on memory, "
                "file-system and (for strictly increasing dates) SQL repositories; non-trivial = some non-empty batch" % depth,
        "overlap_schedules": orep["schedules"], "overlap_reads": orep["reads"],
        "exhaustive": True, "model_notes": model_notes, "known_findings_hit": V.hit}, time.time() - t0, len(V.new),
        assumptions=["SQL through a conforming in-process driver (the repository ships no dialect); only histories with strictly "
                     "increasing dates per asset are replayed on SQL", "Assets() order and the listing of names that only ever got "
                     "empty batches are not compared (the property leaves them open)"])
    if rc == 0 and machinery:
        return 2
    return rc


if __name__ == "__main__":
    vlib.main_wrapper(main)
