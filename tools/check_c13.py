#!/usr/bin/env python3
"""C13 - Backtest reports every asset x strategy once, for any worker count.

spec/Backtest.tla: Begin; W workers each Take -> GetSince -> AssetBegin -> Write x strategies -> AssetEnd;
End after the wait group; the report's shared state mutated in separate steps so that unsynchronised
concurrent mutation is a reachable DataRace state; the ranking comparator on a fixed-point lattice.
TLC checks ExactlyOnce, ProtocolOrder, SameForAnyW (all interleavings, W in 1..3, missing assets),
Termination under fairness, WeakOrder / RankingOK of the comparator as coded, and emits the arrangements a
truncating comparator would leave unranked.  Backtest.Run is executed with a recording Report (call log
validated by TLC, BacktestTrace.tla), with DataReport (results compared with evaluating each strategy
directly on the look-back window) and with HTMLReport (rows of <asset>.html / index.html parsed: ranking
order, best entry), for W in {1,2,4,16}, and under the Go race detector."""
import itertools
import json
import os
import random
import re
import shutil
import subprocess
import time

import vlib

PID = "C13"
LOCKED_AS_CODED = True        # do DataReport / HTMLReport guard their shared state? (pinned commit: no; yes since fix e858ac5)
TRUNCATING_AS_CODED = False   # ranking comparator int(b.Outcome - a.Outcome) (pinned commit); cmp.Compare since fix 518b6a5
TWO_SECTION_END_AS_CODED = True   # HTMLReport.AssetEnd: one critical section takes the results, a second records the best one
RESET_ON_BEGIN_AS_CODED = True    # AssetBegin starts the asset's entry afresh (so one report object can serve run after run)
STALE_BEST_AS_CODED = False       # variant: the list of best results is read in the first section (lost update when calls overlap)


def bt_cfg(names, missing, ns, w, locked, extra, stale=None, runs=1, reset=None):
    stale = STALE_BEST_AS_CODED if stale is None else stale
    reset = RESET_ON_BEGIN_AS_CODED if reset is None else reset
    return ('CONSTANTS Names <- MCNames Missing = {%s} NS = %d W = %d Locked = %s Truncating = %s Outcomes = {0, 6, 12, 30}\n'
            ' TwoSectionEnd = %s StaleBest = %s Runs = %d ResetOnBegin = %s\n'
            'SPECIFICATION Spec\nCHECK_DEADLOCK FALSE\n%s' % (
                ", ".join('"%s"' % n for n in missing), ns, w,
                "TRUE" if locked else "FALSE", "TRUE" if TRUNCATING_AS_CODED else "FALSE",
                "TRUE" if TWO_SECTION_END_AS_CODED else "FALSE", "TRUE" if stale else "FALSE", runs, "TRUE" if reset else "FALSE", extra))


def bt_run(names, cfg, base="Backtest", more=None, extra_defs="", **kw):
    """TLC on an MC module that fixes the job list"""
    mc = "---- MODULE MCB ----\nEXTENDS %s\nMCNames == <<%s>>\n%s\n====\n" % (base, ", ".join('"%s"' % n for n in names), extra_defs)
    files = {"Backtest.tla": None, "MCB.tla": mc}
    if more:
        files.update(more)
    return vlib.run_tlc(files, "MCB", cfg, **kw)


def main():
    t0 = time.time()
    tier = vlib.tier()
    rng = random.Random(vlib.seed())
    vlib.build_harness()
    V = vlib.Verdicts(PID)
    machinery = []
    states = trans = 0
    # ---- design
    combos = [(["a", "b"], [], 2, 2), (["a", "b", "c"], ["b"], 2, 2), (["a", "b", "c"], [], 1, 3)]
    if tier == "thorough":
        combos += [(["a", "b", "c"], [], 3, 3), (["a", "b", "c"], ["a", "c"], 3, 2), (["a", "b", "c", "d"], ["d"], 2, 3)]
    for names, missing, ns, w in combos:
        r = bt_run(names, bt_cfg(names, missing, ns, w, LOCKED_AS_CODED, "INVARIANTS ExactlyOnce ProtocolOrder SameForAnyW\n"),
                   workers=8, timeout=2400, heap="8g")
        states += r.distinct
        trans += r.generated
        if r.violation:
            machinery.append("spec/Backtest.tla %s: %s violated" % ((names, missing, ns, w), r.violation))
    # the other variant of AssetEnd's second critical section must be refuted by the model (else the distinction is vacuous)
    rs = bt_run(["a", "b"], bt_cfg(["a", "b"], [], 1, 2, True, "INVARIANTS SameForAnyW\n", stale=not STALE_BEST_AS_CODED), workers=4, timeout=600)
    states += rs.distinct
    trans += rs.generated
    stale_refuted = rs.violation == "SameForAnyW"
    if STALE_BEST_AS_CODED == stale_refuted:
        machinery.append("spec/Backtest.tla: the StaleBest variant is %s refuted by SameForAnyW" % ("" if stale_refuted else "not"))
    # one report object serving two runs: the properties hold for the second run as well, and the variant in which AssetBegin keeps
    # an entry it finds is refuted by ExactlyOnce (else the second run would show nothing)
    for names, missing, ns, w in [(["a", "b"], [], 2, 2), (["a", "b", "c"], ["b"], 1, 2)]:
        r2 = bt_run(names, bt_cfg(names, missing, ns, w, LOCKED_AS_CODED, "INVARIANTS ExactlyOnce ProtocolOrder SameForAnyW\n", runs=2),
                    workers=8, timeout=1200, heap="8g")
        states += r2.distinct
        trans += r2.generated
        if r2.violation:
            machinery.append("spec/Backtest.tla %s, two runs: %s violated" % ((names, missing, ns, w), r2.violation))
    rk = bt_run(["a", "b"], bt_cfg(["a", "b"], [], 1, 1, True, "INVARIANTS ExactlyOnce\n", runs=2, reset=not RESET_ON_BEGIN_AS_CODED),
                workers=2, timeout=600)
    states += rk.distinct
    trans += rk.generated
    if (rk.violation == "ExactlyOnce") != RESET_ON_BEGIN_AS_CODED:
        machinery.append("spec/Backtest.tla: the other ResetOnBegin variant is %srefuted by ExactlyOnce over two runs" % ("" if rk.violation else "not "))
    r = bt_run(["a", "b"], bt_cfg(["a", "b"], [], 2, 2, LOCKED_AS_CODED, "INVARIANTS NoDataRace\n"), workers=4, timeout=600)
    states += r.distinct
    trans += r.generated
    model_race = r.violation == "NoDataRace"
    r = bt_run(["a", "b"], bt_cfg(["a", "b"], [], 2, 2, True, "").replace("SPECIFICATION Spec", "SPECIFICATION FairSpec") + "PROPERTIES Termination\n",
               workers=4, timeout=600)
    states += r.distinct
    trans += r.generated
    if r.violation:
        machinery.append("Termination violated under fairness")
    # comparator
    r = bt_run(["a"], bt_cfg(["a"], [], 1, 1, True, ""), workers=1, timeout=600,
               extra_defs="ASSUME PrintT(\"WEAK \" \\o ToJson([weak |-> WeakOrder, ranking |-> RankingOK]))\nASSUME EmitWitness")
    weak = [o for t, o in r.prints if t == "WEAK"]
    wits = [o for t, o in r.prints if t == "WIT"]
    cmp_ok = bool(weak and weak[0]["weak"] and weak[0]["ranking"])
    # ---- the real code
    scs = []

    def add(names, assets, sells, workers, report, old=0, runs=1):
        scs.append({"id": len(scs) + 1, "names": names, "assets": assets, "old": old, "sells": sells, "workers": workers,
                    "report": report, "lastDays": 30, "runs": runs})
    base = [1000, 1006, 1012, 1030, 994, 1001, 1020]
    assets3 = {"a": base, "b": [1000, 990, 1012, 1003, 1040, 1000, 1006], "c": [500, 503, 506, 515, 497, 520, 509]}
    wlist = [1, 2, 4] if tier == "quick" else [1, 2, 3, 4, 16]
    for w in wlist:
        for report in ("rec", "data", "html"):
            if not LOCKED_AS_CODED and w > 1 and report != "rec":
                continue   # unsynchronised reports may crash the runtime (concurrent map writes): exercised under the race detector
            add(["a", "b", "c"], assets3, [1, 2, 3], w, report)
            add(["c", "zz", "a"], {"a": base, "c": assets3["c"]}, [2, 5], w, report, old=3)
            add(["a"], {"a": base}, [4], w, report, old=5)
            # an asset the repository holds, but with nothing inside the look-back window: it still gets its results
            add(["a", "stale", "c"], {"a": base, "stale": [], "c": assets3["c"]}, [1, 3], w, report, old=4)
            # one report object serving two runs in a row: the second run, too, delivers exactly one result per pair
            add(["a", "b", "c"], assets3, [1, 2, 3], w, report, runs=2)
            add(["c", "zz", "a"], {"a": base, "c": assets3["c"]}, [2, 5], w, report, old=3, runs=2)
    # comparator witnesses (and a few seeded close arrangements) through the HTML report
    arr = [w_ for w_ in wits][:12] + [[0, 6, 12], [12, 6, 0], [6, 0, 12], [0, 0, 6], [30, 6, 12], [0, 6, 0], [6, 12, 0]]
    if tier == "thorough":
        arr += [list(p) for p in itertools.permutations([0, 4, 8, 12], 3)]
    wit_ids = {}
    for a3 in arr:
        closes = [1000] + [1000 + o for o in a3] + [1000]
        add(["a"], {"a": closes}, [1, 2, 3], 1, "html")
        wit_ids[len(scs)] = a3
    res = vlib.run_children(scs, subcmd="backtest-child", timeout=1200)
    for r_ in res:
        if isinstance(r_, dict) and r_.get("log") is None:
            r_["log"] = []      # a run in which no call reached the wrappers logs nothing (JSON null)
    nreal = 0
    samples = []
    logs = []
    for q, r in zip(scs, res):
        if r is None or r.get("crash") or r.get("deadlock") or r.get("err"):
            V.violation({"symptom": "crash", "report": q["report"]},
                        "Backtest.Run crashed / hung / failed on scenario %d (W=%d, %s report): %s" % (q["id"], q["workers"], q["report"], str(r)[:300]),
                        {"scenario": q})
            continue
        nreal += 1
        direct = r["direct"]
        present = sorted(direct)
        nstr = len(q["sells"])
        if q["report"] == "rec":
            logs.append((q, r))
            for c in r["log"]:
                if c["op"] == "write":
                    d = direct.get(c["a"], {}).get(c["s"])
                    if d is None or abs(d[0] - c.get("out", 0.0)) > 1e-12 or int(d[2]) != c.get("n", 0):
                        V.violation({"symptom": "result", "report": "rec"},
                                    "scenario %d W=%d: Write(%s, %s) carries outcome %r over %d actions, direct evaluation on the look-back "
                                    "window gives %s" % (q["id"], q["workers"], c["a"], c["s"], c.get("out"), c.get("n", 0), d), {"scenario": q})
        if q["report"] == "data":
            got = r.get("data") or {}
            for a in present:
                rows = got.get(a, [])
                if sorted(x[0] for x in rows) != sorted(direct[a]):
                    V.violation({"symptom": "exactly-once", "report": "data"},
                                "scenario %d W=%d: DataReport holds results %s for asset %s, one per strategy %s expected" %
                                (q["id"], q["workers"], [x[0] for x in rows], a, sorted(direct[a])), {"scenario": q, "data": got})
                for x in rows:
                    d = direct[a].get(x[0])
                    if d and (abs(d[0] - x[1]) > 1e-12 or int(d[1]) != x[2] or int(d[2]) != x[3]):
                        V.violation({"symptom": "result", "report": "data"},
                                    "scenario %d W=%d: DataReport result for (%s, %s) = outcome %r action %d over %d actions, direct "
                                    "evaluation gives %s" % (q["id"], q["workers"], a, x[0], x[1], x[2], x[3], d), {"scenario": q})
            for a in got:
                if a not in present:
                    V.violation({"symptom": "phantom-asset", "report": "data"},
                                "scenario %d: DataReport has results for %s, which the repository does not hold" % (q["id"], a), {"scenario": q})
        if q["report"] == "html":
            pages = r.get("html") or {}
            for a in present:
                rows = pages.get(a)
                if rows is None:
                    V.violation({"symptom": "missing-page", "report": "html"}, "scenario %d: no %s.html" % (q["id"], a), {"scenario": q})
                    continue
                names_ = [x[0] for x in rows]
                outs = [float(x[-1]) for x in rows]
                if sorted(names_) != sorted(direct[a]):
                    V.violation({"symptom": "exactly-once", "report": "html"},
                                "scenario %d W=%d: %s.html lists strategies %s, expected one row per strategy %s" %
                                (q["id"], q["workers"], a, names_, sorted(direct[a])), {"scenario": q})
                for nm, o in zip(names_, outs):
                    d = direct[a].get(nm)
                    if d and abs(d[0] * 100 - o) > 0.006:
                        V.violation({"symptom": "result", "report": "html"},
                                    "scenario %d: %s.html prints %.2f%% for %s, direct evaluation gives %.4f%%" % (q["id"], a, o, nm, d[0] * 100), {"scenario": q})
                if any(outs[i] < outs[i + 1] for i in range(len(outs) - 1)):
                    V.violation({"symptom": "ranking", "page": "asset"},
                                "scenario %d (closes %s): %s.html ranks outcomes %s - not in non-increasing order%s" %
                                (q["id"], q["assets"][a], a, outs, "" if outs[0] == max(outs) else
                                 ", the entry presented as best (%s%%) is not the maximum" % outs[0]),
                                {"scenario": q, "rows": rows, "model_witness": wit_ids.get(q["id"])})
            idx = pages.get("index") or []
            iouts = [float(x[-1]) for x in idx]
            if sorted(x[0] for x in idx) != present:
                V.violation({"symptom": "exactly-once", "report": "html-index"},
                            "scenario %d W=%d: index.html lists assets %s, expected %s" % (q["id"], q["workers"], [x[0] for x in idx], present), {"scenario": q})
            if any(iouts[i] < iouts[i + 1] for i in range(len(iouts) - 1)):
                V.violation({"symptom": "ranking", "page": "index"},
                            "scenario %d: index.html ranks best outcomes %s - not non-increasing" % (q["id"], iouts), {"scenario": q, "rows": idx})
            for x in idx:
                best = max(d[0] for d in direct[x[0]].values()) * 100 if x[0] in direct else None
                if best is not None and abs(best - float(x[-1])) > 0.006:
                    V.violation({"symptom": "best", "page": "index"},
                                "scenario %d: index.html presents %.2f%% as the best outcome of %s, the maximum is %.2f%%" %
                                (q["id"], float(x[-1]), x[0], best), {"scenario": q, "rows": idx})
        if len(samples) < 3 and q["report"] != "rec":
            samples.append({"scenario": q, "result": {k: r[k] for k in ("data", "html") if k in r}})
    # ---- trace validation of the recorded protocol
    ntr = nacc = 0
    rejected_corrupt = 0

    def accepted(q, log):
        nonlocal states, trans
        missing = [n for n in q["names"] if n not in q["assets"]]
        snames = {("S%d" % k): i + 1 for i, k in enumerate(q["sells"])}
        evs = ", ".join('[op |-> "%s", a |-> "%s", s |-> %d]' % (c["op"], c.get("a", ""), snames.get(c.get("s"), 0)) for c in log)
        data = "---- MODULE BacktestTraceData ----\nTraceLog == <<%s>>\n====\n" % evs
        cfg = bt_cfg(q["names"], missing, len(q["sells"]), min(q["workers"], 4), True, "INVARIANTS Accepted\n").replace(
            "SPECIFICATION Spec", "INIT TraceInit\nNEXT TraceNext")
        rt = bt_run(q["names"], cfg, base="BacktestTrace", more={"BacktestTrace.tla": None, "BacktestTraceData.tla": data},
                    workers=1, timeout=600, dfs=True)
        states += rt.distinct
        trans += rt.generated
        return any(t == "ACC" for t, _ in rt.prints)

    for qi, (q, r) in enumerate(logs):
        ntr += 1
        if accepted(q, r["log"]):
            nacc += 1
        else:
            V.violation({"symptom": "protocol"},
                        "scenario %d W=%d: the calls the report received are not a behaviour of spec/Backtest.tla: %s" %
                        (q["id"], q["workers"], " ".join("%s(%s%s)" % (c["op"], c.get("a", ""), "," + c["s"] if c.get("s") else "") for c in r["log"])[:500]),
                        {"scenario": q, "log": r["log"]})
        if qi < 2:
            # binding self-test: a log with one write dropped, and one with the end notification moved forward, must be rejected
            lg = list(r["log"])
            wi = [i for i, c in enumerate(lg) if c["op"] == "write"]
            variants = []
            if wi:
                variants.append(lg[:wi[0]] + lg[wi[0] + 1:])
            if len(lg) >= 3 and lg[-1]["op"] == "end":
                variants.append(lg[:-2] + [lg[-1], lg[-2]])
            for v in variants:
                if accepted(q, v):
                    raise vlib.Machinery("BacktestTrace accepts a corrupted protocol log: the trace specification binds nothing")
                rejected_corrupt += 1
    # ---- race detector
    race_found = None
    rq = []
    for report in ("data", "html"):
        q = {"id": 9000 + len(rq), "names": ["a", "b", "c"], "assets": assets3, "old": 0, "sells": [1, 2, 3], "workers": 4,
             "report": report, "lastDays": 30}
        rq += [q] * (3 if tier == "quick" else 20)
    wd = vlib.scratch("verif-c13-")
    try:
        exe = vlib.build_harness(race=True)
        path = os.path.join(wd, "race.json")
        with open(path, "w") as f:
            for q in rq:
                f.write(json.dumps(q) + "\n")
        p = subprocess.run([exe, "backtest-child", path, "0"], capture_output=True, text=True, timeout=1200,
                           env=dict(os.environ, GORACE="halt_on_error=0"))
        if "DATA RACE" in p.stderr or "concurrent map" in p.stderr:
            funcs = sorted(set(re.findall(r"github.com/cinar/indicator/v2/(backtest\.\S+?)\(\)", p.stderr)))
            race_found = funcs
            V.violation({"symptom": "data-race"},
                        "Backtest.Run with 4 workers: the Go race detector reports data races / concurrent map writes in %s" % funcs[:6],
                        {"stderr": p.stderr[:3000]})
        elif "END" not in p.stdout:
            machinery.append("race run failed: " + p.stderr[-800:])
    finally:
        shutil.rmtree(wd, ignore_errors=True)
    if model_race and not race_found and not LOCKED_AS_CODED:
        machinery.append("the model (Locked=FALSE as coded) reaches DataRace but the race detector saw none")
    if model_race:
        print("MODEL: spec/Backtest.tla with Locked=FALSE reaches DataRace")
    if not cmp_ok:
        print("MODEL: comparator as coded (Truncating=%s) is not a strict weak order / admits unranked arrangements: %s; witnesses %s"
              % (TRUNCATING_AS_CODED, weak, wits[:4]))
        if not any(k.get("symptom") == "ranking" for k, _, _ in V.new) and not V.hit:
            machinery.append("the comparator model admits unranked arrangements but the real HTML report ranked every witness correctly")
    # ---- beyond the property: the command-line tool
    import check_c13_cli
    clicov = check_c13_cli.run(tier, V, machinery)
    rc = V.finish()
    for m in machinery:
        print("MACHINERY: " + m[:600])
    vlib.write_evidence(PID, "model_checking", {
        "states": states, "transitions": trans, "traces_validated_against_impl": nreal + ntr,
        "samples": samples or [{"note": "none"}], "evaluations": nreal, "distinct_nontrivial": len(scs),
        "rule": "design: %d (names, missing, strategies, W) combinations, all interleavings; real: %d scenarios (assets with scripted "
                "closes, stub strategies selling at a given snapshot, old snapshots outside the look-back window, a name the repository "
                "does not hold) x reports {recording, DataReport, HTMLReport} x W; comparator witnesses from TLC rendered by the "
                "real HTMLReport; every scenario is non-trivial" % (len(combos), len(scs)),
        "protocol_logs_validated": ntr, "protocol_logs_accepted": nacc, "corrupted_protocol_logs_rejected": rejected_corrupt, "comparator_weak_order": cmp_ok, "comparator_witnesses": len(wits),
        "model_reaches_data_race": model_race, "race_detector_runs": len(rq), "exhaustive": False, "known_findings_hit": V.hit, **clicov},
        time.time() - t0, len(V.new),
        assumptions=["stub strategies (buy on the first snapshot, sell on a scripted one) stand for arbitrary strategies: the backtest "
                     "treats a strategy as an opaque function of the snapshots",
                     "data races are detected by the Go race detector; the model shows them reachable in the design"])
    if rc == 0 and machinery:
        return 2
    return rc


if __name__ == "__main__":
    vlib.main_wrapper(main)
