"""Trace validation of Sync.Run call logs against spec/Sync.tla (SyncTrace.tla)."""
import json

import vlib


def tla_ev(e):
    return '[op |-> "%s", ph |-> "%s", a |-> "%s", arg |-> %d, n |-> %d, err |-> %s]' % (
        e["op"], e["phase"], e["a"], e.get("arg", 0), e.get("n", 0), "TRUE" if e.get("err") else "FALSE")


REJECTED = [0]


def validate(logs, locked, tier):
    """logs: list of (scenario request, result).  Returns (validated, accepted, [(request, why)])."""
    import check_c12 as c
    sel = [(q, r) for q, r in logs if q["workers"] <= 2 and q["target"] == "fs"]
    cap = 20 if tier == "quick" else 200
    sel = [x for x in sel if x[0]["workers"] == 1][:cap] + [x for x in sel if x[0]["workers"] == 2][:cap]
    if not sel:
        return 0, 0, []
    bad = []
    acc = 0
    # group by worker count (W is a constant)
    for W in (1, 2):
        grp = [(q, r) for q, r in sel if q["workers"] == W]
        if not grp:
            continue
        # binding self-test: corrupted copies of the first logs (a start date off by one, a dropped append) must be rejected
        corrupt = []
        for q, r in grp[:6]:
            for kind in ("since", "drop"):
                lg = [dict(e) for e in r["log"]]
                idx = [i for i, e in enumerate(lg) if e["op"] == ("get" if kind == "since" else "append") and e["phase"] == "call"]
                if not idx:
                    continue
                if kind == "since":
                    lg[idx[0]]["arg"] = lg[idx[0]].get("arg", 0) + 1
                else:
                    del lg[idx[0]]
                q2 = dict(q); q2["id"] = q["id"] + (100000 if kind == "since" else 200000)
                corrupt.append((q2, {"log": lg}))
        real = grp
        grp = grp + corrupt
        scen = "{\n" + ",\n".join(c.tla_scenario(q) for q, _ in grp) + "\n}"
        traces = "(" + " @@ ".join("%d :> <<%s>>" % (q["id"], ", ".join(tla_ev(e) for e in r["log"])) for q, r in grp) + ")"
        data = "---- MODULE SyncTraceData ----\nEXTENDS Integers, Sequences, TLC\nTraceScenarios == %s\nTraceLogs == %s\n====\n" % (scen, traces)
        cfg = ("CONSTANTS Scenarios <- TraceScenarios W = %d Locked = %s\nINIT TraceInit\nNEXT TraceNext\nCHECK_DEADLOCK FALSE\n"
               "INVARIANTS Accepted\n" % (W, "TRUE" if locked else "FALSE"))
        res = vlib.run_tlc({"Sync.tla": None, "SyncTrace.tla": None, "SyncTraceData.tla": data}, "SyncTrace", cfg, workers=1,
                           timeout=1800, heap="4g", dfs=True)
        ok = {o["id"] for t, o in res.prints if t == "ACC"}
        accepted_corrupt = [q["id"] for q, _ in corrupt if q["id"] in ok]
        if accepted_corrupt:
            raise vlib.Machinery("SyncTrace accepts corrupted call logs %s: the trace specification binds nothing" % accepted_corrupt[:5])
        REJECTED[0] += len(corrupt)
        print("TRACE: W=%d: %d call logs, %d corrupted copies rejected" % (W, len(real), len(corrupt)))
        for q, r in real:
            if q["id"] in ok:
                acc += 1
            else:
                bad.append((q, "no interleaving of the specification's steps explains the logged calls %s" %
                            " ".join("%s.%s(%s)" % (e["op"], e["phase"], e["a"]) for e in r["log"][:24])))
    return len(sel), acc, bad
