"""Trace validation of Sync.Run call logs against spec/Sync.tla (SyncTrace.tla)."""
import json

import vlib


def tla_ev(e):
    return '[op |-> "%s", ph |-> "%s", a |-> "%s", arg |-> %d, n |-> %d, err |-> %s]' % (
        e["op"], e["phase"], e["a"], e.get("arg", 0), e.get("n", 0), "TRUE" if e.get("err") else "FALSE")


def validate(logs, locked, tier):
    """logs: list of (scenario request, result).  Returns (validated, accepted, [(request, why)])."""
    import check_c12 as c
    sel = [(q, r) for q, r in logs if q["workers"] <= 2 and q["target"] == "fs"]
    sel = sel[:40 if tier == "quick" else 400]
    if not sel:
        return 0, 0, []
    bad = []
    acc = 0
    # group by worker count (W is a constant)
    for W in (1, 2):
        grp = [(q, r) for q, r in sel if q["workers"] == W]
        if not grp:
            continue
        scen = "{\n" + ",\n".join(c.tla_scenario(q) for q, _ in grp) + "\n}"
        traces = "(" + " @@ ".join("%d :> <<%s>>" % (q["id"], ", ".join(tla_ev(e) for e in r["log"])) for q, r in grp) + ")"
        data = "---- MODULE SyncTraceData ----\nEXTENDS Integers, Sequences, TLC\nTraceScenarios == %s\nTraceLogs == %s\n====\n" % (scen, traces)
        cfg = ("CONSTANTS Scenarios <- TraceScenarios W = %d Locked = %s\nINIT TraceInit\nNEXT TraceNext\nCHECK_DEADLOCK FALSE\n"
               "INVARIANTS Accepted\n" % (W, "TRUE" if locked else "FALSE"))
        res = vlib.run_tlc({"Sync.tla": None, "SyncTrace.tla": None, "SyncTraceData.tla": data}, "SyncTrace", cfg, workers=1,
                           timeout=1800, heap="4g", dfs=True)
        ok = {o["id"] for t, o in res.prints if t == "ACC"}
        for q, r in grp:
            if q["id"] in ok:
                acc += 1
            else:
                bad.append((q, "no interleaving of the specification's steps explains the logged calls %s" %
                            " ".join("%s.%s(%s)" % (e["op"], e["phase"], e["a"]) for e in r["log"][:24])))
    return len(sel), acc, bad
