"""C01, second part: the documented formulas of spec/Formulas.tla, evaluated exactly by TLC on every input word over
small alphabets, against the values the real indicators deliver on the same words."""
import concurrent.futures
import json
import os
import shutil
from fractions import Fraction

import formulas as F
import pipeline_engine as pe
import vlib


def get_idles(pairs, wd):
    """declared warm-up of each (pipe, cfg) from the real instance (an empty-input run of the replay driver)"""
    cat = {e["name"]: e for e in pe.catalogue()}
    path = os.path.join(wd, "idle.ndjson")
    with open(path, "w") as f:
        for i, (pipe, cfg) in enumerate(pairs):
            f.write(json.dumps({"id": i, "pipe": pipe, "cfg": list(cfg), "in": [[] for _ in cat[pipe]["inputs"]]}) + "\n")
    out = os.path.join(wd, "idle.out")
    p = vlib.harness_cmd(["replay-formula", path, out], timeout=600)
    if p.returncode != 0:
        raise vlib.Machinery("replay-formula (idle) failed: " + (p.stderr or p.stdout)[:800])
    res = {}
    for line in open(out):
        r = json.loads(line)
        if r.get("err"):
            raise vlib.Machinery("replay-formula: %s" % r["err"])
        res[pairs[r["id"]]] = r["idle"]
    return res, cat


def run(tier, V, only=None, V15=None):
    """returns coverage dict; reports value mismatches through V (C01) and, when V15 is given, range / ordering
    violations of the entries with C15 statements through V15 (value mismatches are then not reported)"""
    entries = [e for e in F.ENTRIES if (only is None or only in e["pipe"]) and (V15 is None or e["c15"])]
    wd = vlib.scratch("verif-c01f-")
    try:
        pairs = []
        for e in entries:
            for cfg in e["cfgs"] + (e["more"] if tier == "thorough" else []):
                pairs.append((e["pipe"], tuple(cfg)))
        idles, cat = get_idles(pairs, wd)
        items = F.plan(entries, cat, idles, tier, long_words=V15 is not None)
        # TLC: chunks of plan items in parallel processes
        nchunks = min(16, max(1, len(items)))
        order = sorted(range(len(items)), key=lambda i: -(len(items[i]["alpha"]) ** items[i]["L"]) * len(items[i]["entry"]["outs"]))
        chunks = [[] for _ in range(nchunks)]
        for j, i in enumerate(order):
            chunks[j % nchunks].append(i)

        def tlc_chunk(idx):
            sub = [items[i] for i in idx]
            mod = F.tla_module(sub)
            try:
                r = vlib.run_tlc({"Formulas.tla": None, "MCFormulas.tla": mod}, "MCFormulas", "INIT Init\nNEXT Next\n", workers=1,
                                 timeout=3000 if tier == "quick" else 10000, heap="3g")
            except vlib.Machinery as ex_:
                import re
                m = re.search(r"assumption line (\d+),", str(ex_))
                ov = re.search(r"Overflow when computing \S+", str(ex_))
                if m and ov:
                    it = sub[int(m.group(1)) - 4]
                    raise vlib.Machinery("spec/Formulas.tla: the exact values of %s%s on words of length %d outgrow TLC's 32-bit integers (%s): "
                                         "shorten the words of this entry (extra=)" % (it["entry"]["pipe"], it["cfg"], it["L"], ov.group(0)))
                raise
            if r.violation:
                raise vlib.Machinery("TLC on spec/Formulas.tla failed: %s" % r.violation)
            return [(idx[o["k"]], o) for t, o in r.prints if t == "F"]

        cases = []
        with concurrent.futures.ThreadPoolExecutor(max_workers=nchunks) as ex:
            for part in ex.map(tlc_chunk, [c for c in chunks if c]):
                cases.extend(part)
        expected_cases = sum(len(it["alpha"]) ** it["L"] for it in items)
        if len(cases) != expected_cases:
            raise vlib.Machinery("Formulas.tla emitted %d cases, %d planned" % (len(cases), expected_cases))
        # real runs
        path = os.path.join(wd, "cases.ndjson")
        nreq = 0
        with open(path, "w") as f:
            for cid, (ii, o) in enumerate(cases):
                it = items[ii]
                nin = len(it["inputs"])
                # unit 1, and for the purely arithmetic entries also the decimal unit 0.1 on every price (values that are not
                # exactly representable: a numerically naive reformulation shows there, the exact expectation scales by 0.1^degree)
                for variant, unit in enumerate([1.0] + ([0.1] if it["entry"]["pipe"] in F.DECIMAL_OK else [])):
                    f.write(json.dumps({"id": cid * 2 + variant, "pipe": it["entry"]["pipe"], "cfg": it["cfg"],
                                        "in": [[float(t[j]) * (1e8 if (it["entry"].get("note") == "volume unit 100000000" and it["inputs"][j] == "volume") else 1.0)
                                                * (unit if it["inputs"][j] != "volume" else 1.0)
                                                for t in o["w"]] for j in range(nin)]}) + "\n")
                    nreq += 1
        out = os.path.join(wd, "cases.out")
        p = vlib.harness_cmd(["replay-formula", path, out], timeout=3000)
        if p.returncode != 0:
            raise vlib.Machinery("replay-formula failed: " + (p.stderr or p.stdout)[:800])
        compared = defined = exempt = 0
        c15 = {"checked": 0, "exempt": 0, "model_theorem_false": [], "per": {}}
        bad15 = {}
        per = {}          # (pipe, label) -> stats
        bad = {}          # (pipe, label) -> first (smallest) failing example
        nres = 0
        for line in open(out):
            r = json.loads(line)
            nres += 1
            ii, o = cases[r["id"] // 2]
            decimal = r["id"] % 2 == 1
            it = items[ii]
            e = it["entry"]
            if r.get("err"):
                V.violation({"indicator": e["pipe"], "symptom": "crash"},
                            "%s%s on the word %s: %s" % (e["pipe"], it["cfg"], o["w"], r["err"]), {"case": o, "cfg": it["cfg"]})
                continue
            real = [[F.parse_float(x) for x in col] for col in r["outs"]]
            w = r["idle"]
            if V15 is not None:
                for (label, th, pred), okm in zip(e["c15"], o["th"]):
                    if not okm and (e["pipe"], label) not in c15["model_theorem_false"]:
                        c15["model_theorem_false"].append((e["pipe"], label))
                undef_at = {s2["lo"] + j2 for s2 in o["out"] for j2, nd2 in enumerate(s2["v"]) if nd2[1] == 0}
                first_undef = min(undef_at) if undef_at else None
                nvals = min(len(col) for col in real) if real else 0
                for k in range(nvals):
                    pos = k + w + 1
                    vals = [col[k] for col in real]
                    if pos > len(o["w"]):
                        break
                    finite = all(v == v and v not in (float("inf"), float("-inf")) for v in vals)
                    if pos in undef_at or (not finite and first_undef is not None and first_undef < pos):
                        c15["exempt"] += 1      # zero denominator here, or a non-finite value carried on from one (C01's finding)
                        continue
                    for label, th, pred in e["c15"]:
                        c15["checked"] += 1
                        c15["per"][e["pipe"] + " " + label] = c15["per"].get(e["pipe"] + " " + label, 0) + 1
                        xin = [v * 0.1 for v in o["w"][pos - 1]] if decimal else o["w"][pos - 1]
                        ok = pred(vals, xin) if finite else "not-finite"
                        if ok is not True:
                            side = ok if isinstance(ok, str) else "fails"
                            key = (e["pipe"], label, tuple(it["cfg"]), side, decimal)
                            cand = (len(o["w"]), it["cfg"], o["w"], pos, vals)
                            if key not in bad15:
                                bad15[key] = cand + (1,)
                            else:
                                bad15[key] = bad15[key][:5] + (bad15[key][5] + 1,)
                continue
            for oi_, ((label, expr, sel), ser) in enumerate(zip([x[:3] for x in e["outs"]], o["out"])):
                alt = (o.get("alt") or [None] * len(o["out"]))[oi_]
                st = per.setdefault((e["pipe"], label), {"compared": 0, "exempt": 0})
                lo, vals = ser["lo"], ser["v"]
                for j, nd in enumerate(vals):
                    pos = lo + j
                    k = pos - w - 1
                    if k < 0:
                        continue
                    if nd[1] == 0:
                        st["exempt"] += 1
                        continue
                    try:
                        got = real[sel][k] if isinstance(sel, int) else sel([col[k] for col in real])
                    except IndexError:
                        continue        # the count of values is property C02
                    ex = Fraction(nd[0], nd[1])
                    if decimal:
                        dp = F.DEGREES[e["pipe"]][sel][0] if isinstance(sel, int) else F.SQ_DEG[label][0]
                        ex = ex * Fraction(1, 10) ** dp
                    st["compared"] += 1
                    if not (got == got and F.close_enough(got, ex)):
                        # a non-finite value at a position whose formula is defined, after a position where it was not
                        # (zero denominator): state carried in a window (running sum, tree) was poisoned there
                        nonfinite = got != got or got in (float("inf"), float("-inf"))
                        earlier_undef = any(nd2[1] == 0 for s2 in o["out"] for j2, nd2 in enumerate(s2["v"]) if s2["lo"] + j2 < pos)
                        sym = "nonfinite-after-undefined" if (nonfinite and earlier_undef) else ("value-decimal-unit" if decimal else "value")
                        # does it deviate exactly the way a recorded finding says (spec/Formulas.tla, "...AsCoded")?
                        if alt and alt["v"] and not decimal:
                            ai = pos - alt["lo"]
                            if 0 <= ai < len(alt["v"]):
                                an = alt["v"][ai]
                                # (where the recorded computation itself divides by zero, IEEE arithmetic decides: x/0 = Inf, y/Inf = 0)
                                if an[1] == 0 or (got == got and F.close_enough(got, Fraction(an[0], an[1]))):
                                    sym = "as-recorded-deviation"
                        key = (e["pipe"], label, sym, tuple(it["cfg"]))
                        cand = (len(o["w"]), it["cfg"], o["w"], pos, got, str(ex), float(ex), expr.format(*it["cfg"]))
                        if key not in bad or cand[0] < bad[key][0]:
                            bad[key] = cand
                        st["bad:" + sym + str(it["cfg"])] = st.get("bad:" + sym + str(it["cfg"]), 0) + 1
        if nres != nreq:
            raise vlib.Machinery("replay-formula returned %d of %d results" % (nres, nreq))
        for (pipe, label, sym, _), (n, cfg, word, pos, got, exs, exf, expr) in sorted(bad.items()):
            ins = cat[pipe]["inputs"]
            V.violation({"indicator": pipe, "out": label, "symptom": sym, "cfg": json.dumps(cfg)},
                        "%s%s output '%s': on the inputs %s = %s the value for position %d is %r; the documented formula %s gives %s (= %.12g) "
                        "(%d of %d compared positions differ this way)" %
                        (pipe, cfg, label, ins, word, pos, got, expr, exs, exf, per[(pipe, label)].get("bad:" + sym + str(cfg), 0), per[(pipe, label)]["compared"]),
                        {"pipe": pipe, "cfg": cfg, "inputs": ins, "word": word, "position": pos, "got": got, "documented": exs})
        if V15 is not None:
            for (pipe, label, _, side, dec), (n, cfg, word, pos, vals, cnt) in sorted(bad15.items(), key=lambda kv: str(kv[0])):
                ins = cat[pipe]["inputs"]
                V15.violation({"indicator": pipe, "statement": label, "cfg": json.dumps(cfg), "side": side},
                              "%s%s: '%s' does not hold (%s): on the inputs %s = %s%s the outputs for position %d are %s (%d positions)" %
                              (pipe, cfg, label, side, ins, word, " x 0.1 (prices)" if dec else "", pos, vals, cnt),
                              {"pipe": pipe, "cfg": cfg, "inputs": ins, "word": word, "decimal_unit": dec, "position": pos, "outputs": vals})
            return {"indicators": len({e["pipe"] for e in entries}), "instances": len(items), "cases": len(cases),
                    "statements_checked": c15["checked"], "positions_exempt": c15["exempt"], "per_statement": c15["per"],
                    "documented_formula_leaves_range": ["%s: %s" % x for x in c15["model_theorem_false"]]}
        vac = sorted("%s/%s" % k for k, st in per.items() if st["compared"] == 0)
        return {"formula_indicators": len({e["pipe"] for e in entries}), "formula_instances": len(items), "formula_cases": len(cases),
                "formula_real_runs": nreq, "formula_positions_compared": sum(st["compared"] for st in per.values()),
                "formula_positions_exempt_zero_denominator": sum(st["exempt"] for st in per.values()),
                "formula_outputs_never_compared": vac,
                "formula_sample": [{"pipe": items[ii]["entry"]["pipe"], "cfg": items[ii]["cfg"], "word": o["w"], "documented": o["out"]}
                                   for ii, o in cases[:1]]}
    finally:
        shutil.rmtree(wd, ignore_errors=True)


if __name__ == "__main__":
    import sys
    vlib.build_harness()
    V = vlib.Verdicts("C15" if os.environ.get("C15") else "C01")
    cov = run(vlib.tier(), V, only=(sys.argv[1] if len(sys.argv) > 1 else None), V15=(V if os.environ.get("C15") else None))
    rc = V.finish()
    print(json.dumps(cov, indent=1)[:3000])
    sys.exit(rc)
