"""Engine shared by the pipeline properties (C02 C03 C04 C05 C09 C14): instance selection, recording the
wiring from the real code, model checking the recorded network with TLC, running the same instances
on the real code and comparing."""
import concurrent.futures as cf
import itertools
import json
import os
import random
import re

import netgen
import vlib

_catalogue = None


def catalogue(all_=False):
    global _catalogue
    if _catalogue is None:
        p = vlib.harness_cmd(["catalogue"], timeout=60)
        if p.returncode != 0:
            raise vlib.Machinery("harness catalogue failed: " + p.stderr[:500])
        _catalogue = json.loads(p.stdout)
        for e in _catalogue:
            for k in ("params", "default", "inputs"):
                if e.get(k) is None:
                    e[k] = []
    only = os.environ.get("VERIF_ONLY")   # development aid: restrict to pipelines matching a regex
    if only and not all_:
        return [e for e in _catalogue if re.search(only, e["name"])]
    return _catalogue


def valid(pipe, cfg):
    p = vlib.harness_cmd(["valid", pipe, json.dumps(cfg)], timeout=30)
    return p.stdout.strip() == "true"


def valid_many(pairs):
    """pairs: list of (pipe, cfg) -> list of bool (one harness call)"""
    if not pairs:
        return []
    p = vlib.harness_cmd(["validmany"], timeout=60, input=json.dumps([{"pipe": a, "cfg": b} for a, b in pairs]))
    if p.returncode != 0:
        raise vlib.Machinery("harness validmany failed: " + p.stderr[:500])
    return json.loads(p.stdout)


def configs_for(entry, tier, rng, small_values=(1, 2, 3, 4, 5), max_alt=None):
    """default configuration + alternative small configurations (admissible ones only).

    The alternatives are chosen greedily so that together they cover as many ORDER RELATIONS between pairs of
    parameters (p_i at most a third of / far below / one below / equal to / one above / far above / at least three times p_j) as possible: amounts that coincide when two periods are equal or ordered one way
    are exactly what the default configurations (and the pinned tests) cannot tell apart."""
    k = len(entry["params"])
    cfgs = [list(entry["default"])]
    if k == 0:
        return cfgs
    if max_alt is None:
        # two parameters: the six relation classes the default does not cover (fewer where Valid excludes some)
        max_alt = (2 if k == 1 else 6 if k == 2 else 5) if tier == "quick" else 8
    # 5 (not 4) in the quick pool: several buffer sizes only become insufficient from a period difference of 4 on
    pool = [v for v in small_values if v != 4] if tier == "quick" else list(small_values) + [7]
    cands = list(itertools.product(pool, repeat=k)) if len(pool) ** k <= 4096 else \
        list({tuple(rng.choice(pool) for _ in range(k)) for _ in range(4096)})
    rng.shuffle(cands)
    oks = valid_many([(entry["name"], list(c)) for c in cands])
    valid = [c for c, ok in zip(cands, oks) if ok and list(c) != cfgs[0]]
    if not valid:
        return cfgs

    def relations(c):
        rel = set()
        for i in range(k):
            for j in range(i + 1, k):
                d = c[i] - c[j]
                # five classes: far below, one below, equal, one above, far above - guards and clamps on a period
                # difference (lag > 0 written as lag > 1, ...) only show when two periods differ by exactly one
                # ... and a buffer sized by the wrong one of two periods only runs out when one is a multiple of the other:
                # "far" is split at a ratio of 3
                mag = 1 if abs(d) == 1 else (3 if max(c[i], c[j]) >= 3 * min(c[i], c[j]) else 2)
                rel.add((i, j, 0 if d == 0 else (1 if d > 0 else -1) * mag))
        return rel
    covered = relations(tuple(cfgs[0])) if all(isinstance(x, int) for x in cfgs[0]) else set()
    chosen = []
    while len(chosen) < max_alt and valid:
        # boundary relations (equal, one apart) first: defaults and the pinned tests mostly sit in the far classes
        best = max(valid, key=lambda c: (sum(2 if abs(r[2]) <= 1 else 1 for r in relations(c) - covered), max(c) - min(c), len(set(c)), sum(c)))
        if chosen and not (relations(best) - covered):
            if tier == "quick" and k >= 2 and len(chosen) >= 2:
                break       # every relation class that is admissible is covered
            # nothing new to cover: fill up with the most varied remaining ones
            best = max(valid, key=lambda c: (len(set(c)), sum(c)))
        chosen.append(best)
        covered |= relations(best)
        valid.remove(best)
    return cfgs + [list(c) for c in chosen]


def record(instances, mode="compute", jobs=None):
    """instances: list of dict(pipe,cfg,cap). Runs each once on a generous length to learn the declared
    idle period and the wiring.  Returns list of (idle, wiring or None, raw result)."""
    reqs = []
    for i, inst in enumerate(instances):
        nin = len(inst["inputs"])
        reqs.append({"id": "rec%d" % i, "pipe": inst["pipe"], "cfg": inst["cfg"], "cap": inst["cap"],
                     "lens": [inst.get("rec_len", 40)] * nin, "data": {"seed": 7}, "wiring": True,
                     "values": False, "mode": mode})
    # first pass with a short probe to learn idle, then a second with 2w+4
    res = vlib.run_children(reqs, jobs=jobs)
    again = []
    for i, (inst, r) in enumerate(zip(instances, res)):
        idle = r.get("idle", -1) if r else -1
        need = 2 * max(idle, 0) + 4
        if r is None or r.get("deadlock") or need > reqs[i]["lens"][0]:
            q = dict(reqs[i])
            q["lens"] = [max(need, 12)] * len(inst["inputs"])
            again.append((i, q))
    if again:
        res2 = vlib.run_children([q for _, q in again], jobs=jobs)
        for (i, _), r in zip(again, res2):
            if r is not None and not r.get("deadlock"):
                res[i] = r
    return res


def lens_for(w, tier, nin, default_cfg=False):
    """equal-length vectors for the warm-up w"""
    w = max(w, 0)
    if w <= 8 or (tier == "thorough" and w <= 20):
        ns = list(range(0, 2 * w + 3))
    else:
        ns = sorted({0, 1, 2, w - 1, w, w + 1, w + 2, w + 3})
    if tier == "quick" and len(ns) > 12:
        ns = sorted(set(ns[:8] + ns[-4:]))
    return [[n] * nin for n in ns]


def unequal_lens(w, nin):
    """length vectors with one input shorter / empty (termination only)"""
    n = max(w, 0) + 3
    vs = []
    for j in range(nin):
        v = [n] * nin
        v[j] = n - 1
        vs.append(v)
        v = [n] * nin
        v[j] = max(n - 2, 0)
        vs.append(v)
        v = [n] * nin
        v[j] = 0
        vs.append(v)
    return vs


def model_check(wiring, lenvecs, mode, W, lags=None, timeout=900, workers=1, heap="2g"):
    """Generates the instance from the recorded wiring and runs TLC.  Returns (net, TlcResult)."""
    net = netgen.build(wiring)
    sinks = [i + 1 for i, p in enumerate(net.procs) if p["kind"] == "Sink"]
    offs = {}
    if lags:
        for s, l in zip(sinks, lags):
            offs[s] = l
    tla, cfg = netgen.emit(net, lenvecs, mode, W, offs)
    res = vlib.run_tlc({"Pipeline.tla": None, "MC.tla": tla}, "MC", cfg, workers=workers, timeout=timeout, heap=heap)
    return net, res


def term_by_lens(res):
    d = {}
    for t in res.terms:
        d.setdefault(tuple(t["lens"]), []).append(t)
    return d


def sink_counts(net, term):
    """per sink (in sink order) number of tokens received in a terminal state"""
    sinks = [i + 1 for i, p in enumerate(net.procs) if p["kind"] == "Sink"]
    out = term["out"]
    return [len(out.get(str(s), [])) for s in sinks]


def sink_tokens(net, term):
    sinks = [i + 1 for i, p in enumerate(net.procs) if p["kind"] == "Sink"]
    out = term["out"]
    return [out.get(str(s), []) for s in sinks]


def stuck_procs(term):
    st = term.get("stuck") or {}
    if isinstance(st, list):
        return {}
    return st


def compare_real_model(net, term, real):
    """Compares the real execution of one instance with the model's terminal state.
    Returns list of discrepancy strings (empty = conforming)."""
    diffs = []
    stuck = stuck_procs(term)
    sinks = [i + 1 for i, p in enumerate(net.procs) if p["kind"] == "Sink"]
    sink_stuck = [s for s in sinks if str(s) in stuck]
    if real.get("deadlock"):
        if not sink_stuck:
            diffs.append("real code deadlocks but in the model every reader finishes")
        return diffs
    if real.get("crash"):
        diffs.append("real code crashed: " + real.get("stderr", "")[:200])
        return diffs
    if sink_stuck:
        diffs.append("model: readers %s never finish, real code terminated" % sink_stuck)
        return diffs
    rc = [o["n"] for o in real.get("outs", [])]
    mc = sink_counts(net, term)
    if rc != mc:
        diffs.append("output counts differ: real %s model %s" % (rc, mc))
    nleak = len(real.get("leaks") or [])
    if nleak != len(stuck):
        diffs.append("parked goroutines: real %d (%s) model %d (%s)" % (
            nleak, sorted({l["func"].split("/")[-1] for l in (real.get("leaks") or [])}),
            len(stuck), sorted({v[0] for v in stuck.values()})))
    return diffs


def parallel(fn, items, jobs=None):
    jobs = jobs or vlib.NCPU
    with cf.ThreadPoolExecutor(max_workers=jobs) as ex:
        return list(ex.map(fn, items))


class Coverage:
    def __init__(self):
        self.states = 0
        self.transitions = 0
        self.tlc_runs = 0
        self.real_runs = 0
        self.instances = 0
        self.nontrivial = set()
        self.samples = []
        self.full_runs = 0
        self.notes = []

    def add_tlc(self, res):
        self.states += res.distinct
        self.transitions += res.generated
        self.tlc_runs += 1


# ------------------------------------------------------------------------------------------------
# the common flow

class Case:
    """one (pipeline, configuration, input capacity) with everything learned about it"""

    def __init__(self, entry, cfg, cap):
        self.entry = entry
        self.pipe = entry["name"]
        self.cfg = cfg
        self.cap = cap
        self.inputs = entry["inputs"]
        self.idle = -1
        self.lag = None
        self.wiring = None
        self.rec = None
        self.net = None
        self.tlc = None
        self.terms = {}
        self.lens = []
        self.real = {}      # tuple(lens) -> result
        self.error = None

    def key(self):
        return "%s%s cap=%d" % (self.pipe, self.cfg, self.cap)


def build_cases(entries, tier, caps, rng, max_alt=None, max_alt_multi=None):
    """max_alt_multi: number of alternatives for entries with two or more parameters (default: max_alt)"""
    cases = []
    for e in entries:
        ma = max_alt_multi if (max_alt_multi is not None and len(e["params"] or []) >= 2) else max_alt
        for cfg in configs_for(e, tier, rng, max_alt=ma):
            for cap in caps:
                cases.append(Case(e, cfg, cap))
    return cases


def record_cases(cases, mode="compute"):
    insts = [{"pipe": c.pipe, "cfg": c.cfg, "cap": c.cap, "inputs": c.inputs} for c in cases]
    res = record(insts, mode=mode)
    for c, r in zip(cases, res):
        c.rec = r
        if r is None:
            c.error = "no result from recording run"
            continue
        if r.get("err"):
            c.error = r["err"]
        c.idle = r.get("idle", -1)
        c.lag = r.get("lag")
        c.wiring = r.get("wiring")


def run_models(cases, mode="por", timeout=900, lags_of=None, W_of=None, jobs=None):
    """TLC on every case that has a wiring and lens; fills c.net, c.tlc, c.terms"""
    def one(c):
        if c.wiring is None or not c.lens:
            return
        try:
            W = W_of(c) if W_of else max(c.idle, 0)
            lags = lags_of(c) if lags_of else None
            c.net, c.tlc = model_check(c.wiring, c.lens, mode, W, lags, timeout=timeout)
            c.terms = term_by_lens(c.tlc)
        except netgen.NetError as e:
            c.error = "netgen: %s" % e
    parallel(one, cases, jobs)


def run_real(cases, values=False, extra=None, jobs=None, env=None, race=False, pace=0, mode="compute"):
    """every case x every lens on the real code; fills c.real"""
    reqs = []
    idx = []
    for ci, c in enumerate(cases):
        for lv in c.lens:
            r = {"id": "%d" % len(reqs), "pipe": c.pipe, "cfg": c.cfg, "cap": c.cap, "lens": list(lv),
                 "data": {"seed": 1 + vlib.seed()}, "wiring": False, "values": values, "mode": mode, "pace": pace}
            if extra:
                r.update(extra)
            reqs.append(r)
            idx.append((ci, tuple(lv)))
    res = vlib.run_children(reqs, jobs=jobs, env=env, race=race)
    for (ci, lv), r in zip(idx, res):
        cases[ci].real[lv] = r
    return len(reqs)
