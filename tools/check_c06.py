#!/usr/bin/env python3
"""C06 - each base strategy applies its documented rule to the documented data.

(a) Documented data: on the network recorded from the real code (the asset.SnapshotsAs* extractors are
    labelled by hooks) TLC propagates provenance tokens; the field set the action tokens depend on must
    equal the documented field set of the strategy (catalogue `Fields`, from the doc comments).
(b) Documented rule: spec/Rules.tla + generated RulesData.tla (from the transcription of the documentation,
    spec/rules_documented.json) - TLC enumerates every valuation of the comparison atoms of every strategy,
    checks that the documented Buy and Sell conditions are exclusive and not vacuous, and prints the
    decision table.  The harness computes the documented indicator values with the library's own indicator
    types directly from the documented snapshot fields, position by position, next to the action the real
    strategy emitted; the values are abstracted to atoms and the action is looked up in TLC's table.
    Positions where compared quantities are equal within rounding are exempt."""
import json
import os
import random
import shutil
import time

import pipeline_engine as pe
import rulesgen
import vlib

PID = "C06"


# the documented indicator(s) of each base strategy and which of the strategy's parameters configure them
INDICATORS_OF = {
    "strategy/trend.ApoStrategy": [("trend.Apo", [0, 1])],
    "strategy/trend.AroonStrategy": [("trend.Aroon", [0])],
    "strategy/trend.CciStrategy": [("trend.Cci", [0])],
    "strategy/trend.DemaStrategy": [("trend.Dema", [0, 1]), ("trend.Dema", [2, 3])],
    "strategy/trend.EnvelopeStrategy": [("trend.Envelope", [0])],
    "strategy/trend.GoldenCrossStrategy": [("trend.Ema", [0]), ("trend.Ema", [1])],
    "strategy/trend.KamaStrategy": [("trend.Kama", [0, 1, 2])],
    "strategy/trend.KdjStrategy": [("trend.Kdj", [0, 1, 2, 3])],
    "strategy/trend.MacdStrategy": [("trend.Macd", [0, 1, 2])],
    "strategy/trend.QstickStrategy": [("momentum.Qstick", [0])],
    "strategy/trend.SmmaStrategy": [("trend.Smma", [0]), ("trend.Smma", [1])],
    "strategy/trend.TrimaStrategy": [("trend.Trima", [0]), ("trend.Trima", [1])],
    "strategy/trend.TripleMovingAverageCrossoverStrategy": [("trend.Ema", [0]), ("trend.Ema", [1]), ("trend.Ema", [2])],
    "strategy/trend.TrixStrategy": [("trend.Trix", [0])],
    "strategy/trend.TsiStrategy": [("trend.Tsi", [0, 1])],
    "strategy/trend.VwmaStrategy": [("trend.Vwma", [0]), ("trend.Sma", [1])],
    "strategy/trend.AlligatorStrategy": [("trend.Smma", [0]), ("trend.Smma", [1]), ("trend.Smma", [2])],
    "strategy/momentum.AwesomeOscillatorStrategy": [("momentum.AwesomeOscillator", [0, 1])],
    "strategy/momentum.RsiStrategy": [("momentum.Rsi", [0])],
    "strategy/momentum.StochasticRsiStrategy": [("momentum.StochasticRsi", [0])],
    "strategy/momentum.TripleRsiStrategy": [("momentum.Rsi", [0]), ("trend.Sma", [1])],
    "strategy/volatility.BollingerBandsStrategy": [("volatility.BollingerBands", [0])],
    "strategy/volatility.SuperTrendStrategy": [("volatility.SuperTrend", [0])],
    "strategy/volume.ChaikinMoneyFlowStrategy": [("volume.Cmf", [0])],
    "strategy/volume.EaseOfMovementStrategy": [("volume.Emv", [0])],
    "strategy/volume.ForceIndexStrategy": [("volume.Fi", [0])],
    "strategy/volume.MoneyFlowIndexStrategy": [("volume.Mfi", [0])],
    "strategy/volume.WeightedAveragePriceStrategy": [("volume.Vwap", [0])],
}


def main():
    t0 = time.time()
    tier = vlib.tier()
    rng = random.Random(vlib.seed())
    vlib.build_harness()
    V = vlib.Verdicts(PID)
    machinery = []
    entries = [e for e in pe.catalogue() if e["class"] == "strategy" and not e["name"].startswith("strategy/compound.MacdRsiStrategy")]
    # ---------- (b) decision tables
    tla, meta = rulesgen.compile_rules()
    mc = "---- MODULE MCRules ----\nEXTENDS Rules\nASSUME PrintT(\"PROP \" \\o ToJson([exclusive |-> Exclusive, notVacuous |-> NotVacuous]))\nASSUME EmitTables\n====\n"
    r = vlib.run_tlc({"Rules.tla": None, "RulesData.tla": tla, "MCRules.tla": mc}, "MCRules", "INIT Init\nNEXT Next\n", workers=1, timeout=600)
    table = {}
    for tag, o in r.prints:
        if tag == "ROW":
            table[(o["s"], tuple(o["v"]))] = o
        elif tag == "PROP":
            if not o["exclusive"]:
                machinery.append("Rules.tla: some documented Buy and Sell conditions hold together (transcription error)")
            if not o["notVacuous"]:
                machinery.append("Rules.tla: a documented condition can never hold (transcription error)")
    if len(table) < 100:
        raise vlib.Machinery("Rules.tla printed only %d table rows" % len(table))
    reqs = []
    seeds = [1, 2, 3] if tier == "quick" else list(range(1, 11))
    for e in entries:
        if e["name"].split("@")[0] not in meta:
            continue
        cfgs = pe.configs_for(e, tier, rng, max_alt=2 if tier == "quick" else 4)
        for cfg in cfgs:
            n = min(3 * sum(cfg) + 60, 900)
            for sd in seeds:
                # every other series in fractional volume units (quantities below one unit, as for fractional shares or coins)
                reqs.append({"strategy": e["name"], "cfg": cfg, "seed": sd + 100 * vlib.seed(), "n": n,
                             "volume_scale": (2.0 ** -13 if sd % 2 == 0 else 1.0)})
    wd = vlib.scratch("verif-c06-")
    try:
        path = os.path.join(wd, "reqs.ndjson")
        with open(path, "w") as f:
            for q in reqs:
                f.write(json.dumps(q) + "\n")
        p = vlib.harness_cmd(["rules-trace", path], timeout=2400)
        if p.returncode != 0:
            raise vlib.Machinery("rules-trace failed: " + p.stderr[:1000])
        outs = [json.loads(l) for l in p.stdout.splitlines() if l.strip()]
    finally:
        shutil.rmtree(wd, ignore_errors=True)
    nrows = nexempt = 0
    covered = {}
    samples = []
    for o in outs:
        s = o["strategy"].split("@")[0]
        if o.get("error"):
            machinery.append("rules-trace %s %s: %s" % (s, o.get("cfg"), o["error"]))
            continue
        m = meta[s]
        prev = None
        for row in o["rows"]:
            env = dict(o.get("consts") or {})
            env.update(row["q"])
            env["i"] = row["i"]
            if prev is not None and prev["i"] == row["i"] - 1:
                for k, v in prev["q"].items():
                    env.setdefault("prev_" + k, v)
            prev_row = prev
            prev = row
            try:
                vals = rulesgen.atom_values(m["atoms"], env)
            except NameError:
                continue     # a previous value is not available at the first defined position
            ent = table.get((s, tuple(vals)))
            if ent is None:
                machinery.append("no table row for %s %s" % (s, vals))
                continue
            nrows += 1
            if ent["exempt"]:
                nexempt += 1
                continue
            covered.setdefault(s, set()).add(tuple(vals))
            if row["action"] not in ent["allowed"]:
                kind = {1: "buy", -1: "sell", 0: "hold"}[row["action"]]
                V.violation({"strategy": s, "symptom": "rule", "action": kind},
                            "%s%s seed %d: at snapshot %d the strategy recommends %s, the documented rule (%s: Buy %s; Sell %s) allows %s for "
                            "%s" % (s, o["cfg"], o["seed"], row["i"], kind.capitalize(), m["mode"], m["buy"], m["sell"],
                                    [{1: "Buy", -1: "Sell", 0: "Hold"}[a] for a in ent["allowed"]],
                                    {k: round(v, 6) for k, v in {**row["q"], **(o.get("consts") or {})}.items()}),
                            {"request": {k: o[k] for k in ("strategy", "cfg", "seed", "n")}, "row": row, "previous_row": prev_row,
                             "atoms": m["atoms"], "atom_values": vals})
            elif len(samples) < 3 and row["action"] != 0:
                samples.append({"strategy": s, "cfg": o["cfg"], "snapshot": row["i"], "quantities": row["q"], "atoms": m["atoms"],
                                "atom_values": vals, "allowed": ent["allowed"], "action": row["action"]})
    # table coverage: which non-exempt valuations were reached
    reach = {}
    for (s, v), ent in table.items():
        if not ent["exempt"]:
            reach.setdefault(s, [0, 0])
            reach[s][1] += 1
            if v in covered.get(s, set()):
                reach[s][0] += 1
    # ---------- (a) documented fields
    cases = pe.build_cases(entries, "quick", [0], rng, max_alt=1)
    for c in cases:
        c.rec_len = 2 * sum(c.cfg) + 16
    recs = pe.record([{"pipe": c.pipe, "cfg": c.cfg, "cap": 0, "inputs": c.inputs, "rec_len": c.rec_len} for c in cases])
    for c, rr in zip(cases, recs):
        if rr and rr.get("wiring") and not rr.get("deadlock"):
            c.wiring = rr["wiring"]
            c.lens = [[c.rec_len]]
    pe.run_models(cases, mode="por", W_of=lambda c: 0)
    states = trans = 0
    nfields = 0
    for c in cases:
        if not c.lens or c.error or c.tlc is None:
            machinery.append("%s: no model for the field provenance (%s)" % (c.key(), c.error))
            continue
        states += c.tlc.distinct
        trans += c.tlc.generated
        t = c.terms.get((c.rec_len,), [None])[0]
        if t is None:
            continue
        fs = set()
        for tok in pe.sink_tokens(c.net, t)[0]:
            if not tok["fill"]:
                fs.update(tok["fs"])
        doc = set(c.entry.get("fields") or [])
        nfields += 1
        if fs != doc:
            V.violation({"strategy": c.pipe, "symptom": "fields"},
                        "%s: its actions are computed from the snapshot fields %s (recorded wiring of the real code), the documentation "
                        "says %s" % (c.key(), sorted(fs), sorted(doc)),
                        {"pipe": c.pipe, "cfg": c.cfg, "recorded_fields": sorted(fs), "documented_fields": sorted(doc)})
    # ---------- (c) the documented indicator AT THE CONFIGURED PARAMETERS: the network the strategy wires must contain
    # the network of its documented indicator(s) for the same parameters (stage kinds with their amounts), whatever else
    # it adds - a constructor that ignores one of its arguments, or a default used where the configured value belongs,
    # changes some stage's amount
    import collections
    import itertools
    byname = {e["name"]: e for e in pe.catalogue()}
    SIG_KINDS = {"XmaCore", "Skip", "Shift", "Head", "Last", "Buffered", "MovingStd", "KamaCore", "Echo", "First"}

    def signature(wiring):
        c = collections.Counter()
        for st in wiring.get("stages", []):
            if st.get("kind") in SIG_KINDS and st.get("par", 0) > 0:
                c[(st["kind"], st.get("par", 0))] += 1
        return c

    ninc = 0
    inc_cases = []
    for e in entries:
        inds = INDICATORS_OF.get(e["name"].split("/fields")[0] if e["name"].endswith("/fields") else e["name"])
        if not inds or not e["params"] or any(i_ not in byname for i_, _ in inds):
            continue        # (an indicator filtered out by VERIF_ONLY during development)
        k = len(e["params"])
        cand = [list(p_) for p_ in itertools.permutations([2, 3, 5, 7, 4, 6][:max(k, 2)], k)]
        oks = pe.valid_many([(e["name"], c_) for c_ in cand])
        cfg = next((c_ for c_, ok in zip(cand, oks) if ok and c_ != list(e["default"])), None)
        if cfg is None:
            continue
        inc_cases.append((e, cfg, inds))
    insts = []
    for e, cfg, inds in inc_cases:
        insts.append({"pipe": e["name"], "cfg": cfg, "cap": 0, "inputs": e["inputs"], "rec_len": 2 * sum(cfg) + 16})
        for ind, idx in inds:
            ie = byname[ind]
            insts.append({"pipe": ind, "cfg": [cfg[i] for i in idx], "cap": 0, "inputs": ie["inputs"], "rec_len": 2 * sum(cfg) + 16})
    irecs = pe.record(insts)
    pos = 0
    for e, cfg, inds in inc_cases:
        srec = irecs[pos]
        pos += 1
        irs = irecs[pos:pos + len(inds)]
        pos += len(inds)
        if not srec or not srec.get("wiring") or any(not r_ or not r_.get("wiring") for r_ in irs):
            machinery.append("%s%s: no recording for the documented-indicator comparison" % (e["name"], cfg))
            continue
        ssig = signature(srec["wiring"])
        need = collections.Counter()
        for r_ in irs:
            need += signature(r_["wiring"])
        ninc += 1
        missing = need - ssig
        if missing:
            V.violation({"strategy": e["name"], "symptom": "indicator-parameters"},
                        "%s%s: the network the strategy wires does not contain its documented indicator(s) %s at the configured parameters: "
                        "stages %s of the indicator's own network are missing (the strategy has %s)" %
                        (e["name"], cfg, ["%s%s" % (i_, [cfg[j] for j in idx]) for i_, idx in inds],
                         sorted("%s(%d)x%d" % (k_[0], k_[1], v_) for k_, v_ in missing.items()),
                         sorted("%s(%d)x%d" % (k_[0], k_[1], v_) for k_, v_ in ssig.items())),
                        {"strategy": e["name"], "cfg": cfg, "missing": [[k_[0], k_[1], v_] for k_, v_ in missing.items()]})
    # ---------- (d) a documented level has an influence on the recommendations it is documented for
    # ("BuyAt defines the level at which a Buy action is generated", "SellAt ... Sell"): the same strategy with ONE level
    # changed must recommend differently somewhere on series that move through both levels
    lev = {}
    for e in pe.catalogue():
        if e["name"].startswith("levels."):
            base, tag = e["name"].split("/")
            lev.setdefault(base, {})[tag] = e
    lreqs, lmeta = [], []
    for base, tags in sorted(lev.items()):
        for tag, e in sorted(tags.items()):
            for sd in (21, 22, 23):
                lreqs.append({"id": "l%d" % len(lreqs), "pipe": e["name"], "cfg": [3], "cap": 0, "lens": [240], "data": {"seed": sd + vlib.seed()},
                              "values": True, "mode": "compute"})
                lmeta.append((base, tag, sd))
    lres = vlib.run_children(lreqs) if lreqs else []
    acts = {}
    for (base, tag, sd), r_ in zip(lmeta, lres):
        if r_ is None or r_.get("deadlock") or not r_.get("outs"):
            machinery.append("%s/%s: no result for the level-influence comparison" % (base, tag))
            continue
        acts[(base, tag, sd)] = r_["outs"][0].get("bits") or []
    nlev = 0
    for base in sorted(lev):
        for tag, action_bits, what in (("sell", None, "Sell"), ("buy", None, "Buy")):
            differs = False
            seen_any = False
            for sd in (21, 22, 23):
                a, b = acts.get((base, "base", sd)), acts.get((base, tag, sd))
                if a is None or b is None:
                    continue
                seen_any = True
                if a != b:
                    differs = True
            if not seen_any:
                continue
            nlev += 1
            if not differs:
                V.violation({"strategy": base.replace("levels.", ""), "symptom": "level-without-influence", "level": what},
                            "%s: changing only the documented %s level (%s) changes no recommendation on three series of 240 snapshots "
                            "that move through both levels: the level the documentation names for %s actions has no influence" %
                            (base.replace("levels.", ""), what, "levels./%s vs /base entries of harness/cat_compound.go" % tag, what),
                            {"strategy": base, "variant": tag})
    rc = V.finish()
    for m_ in machinery[:20]:
        print("MACHINERY: " + m_)
    vlib.write_evidence(PID, "model_checking", {
        "states": max(states, 1) + len(table), "transitions": max(trans, 1) + len(table), "traces_validated_against_impl": len(outs) + nfields,
        "samples": samples or [{"note": "none"}], "evaluations": nrows, "distinct_nontrivial": sum(len(v) for v in covered.values()),
        "rule": "decision table rows = every valuation of the comparison atoms of %d strategies (%d rows); real side: %d runs "
                "(strategy x configuration x seed), every position with defined quantities abstracted to atoms and looked up; "
                "distinct non-trivial = distinct non-exempt (strategy, valuation) pairs reached" % (len(meta), len(table), len(outs)),
        "positions_checked": nrows, "positions_exempt": nexempt,
        "table_coverage": {s.split(".")[-1]: "%d/%d" % (a, b) for s, (a, b) in sorted(reach.items())},
        "no_documented_rule": rulesgen.NO_RULE, "field_sets_checked": nfields, "exhaustive": False, "strategies_compared_with_their_indicator_network": ninc, "documented_levels_with_influence_checked": nlev, "known_findings_hit": V.hit},
        time.time() - t0, len(V.new),
        assumptions=["spec/rules_documented.json transcribes the documentation; where the code adds undocumented conditions the "
                     "rule is checked as a necessary condition only (mode onlyif)",
                     "the oracle quantities come from the library's own indicator types (their arithmetic is C01's concern)"])
    if rc == 0 and machinery:
        return 2
    return rc


if __name__ == "__main__":
    vlib.main_wrapper(main)
