#!/usr/bin/env python3
"""C06 - each base strategy applies its documented rule to the documented data.

(a) Documented data: on the network recorded from the real code (the asset.SnapshotsAs* extractors are
    labelled by hooks) TLC propagates provenance tokens; the field set the action tokens depend on must
    equal the documented field set of the strategy (catalogue `Fields`, from the doc comments).
(b) Documented rule: spec/Rules.tla + generated RulesData.tla (from the transcription of the documentation,
    spec/rules_documented.json) - TLC enumerates every valuation of the comparison atoms of every strategy,
    checks that the documented Buy and Sell conditions are exclusive and not vacuous, and prints the
    decision table.  The harness computes the documented indicator values with the library's own indicator
    types directly from the documented snapshot fields, position by position, next to the action the real
    strategy emitted; the values are abstracted to atoms and the action is looked up in TLC's table.
    Positions where compared quantities are equal within rounding are exempt."""
import json
import os
import random
import shutil
import time

import pipeline_engine as pe
import rulesgen
import vlib

PID = "C06"


def main():
    t0 = time.time()
    tier = vlib.tier()
    rng = random.Random(vlib.seed())
    vlib.build_harness()
    V = vlib.Verdicts(PID)
    machinery = []
    entries = [e for e in pe.catalogue() if e["class"] == "strategy" and not e["name"].startswith("strategy/compound.MacdRsiStrategy")]
    # ---------- (b) decision tables
    tla, meta = rulesgen.compile_rules()
    mc = "---- MODULE MCRules ----\nEXTENDS Rules\nASSUME PrintT(\"PROP \" \\o ToJson([exclusive |-> Exclusive, notVacuous |-> NotVacuous]))\nASSUME EmitTables\n====\n"
    r = vlib.run_tlc({"Rules.tla": None, "RulesData.tla": tla, "MCRules.tla": mc}, "MCRules", "INIT Init\nNEXT Next\n", workers=1, timeout=600)
    table = {}
    for tag, o in r.prints:
        if tag == "ROW":
            table[(o["s"], tuple(o["v"]))] = o
        elif tag == "PROP":
            if not o["exclusive"]:
                machinery.append("Rules.tla: some documented Buy and Sell conditions hold together (transcription error)")
            if not o["notVacuous"]:
                machinery.append("Rules.tla: a documented condition can never hold (transcription error)")
    if len(table) < 100:
        raise vlib.Machinery("Rules.tla printed only %d table rows" % len(table))
    reqs = []
    seeds = [1, 2, 3] if tier == "quick" else list(range(1, 11))
    for e in entries:
        if e["name"].split("@")[0] not in meta:
            continue
        cfgs = pe.configs_for(e, tier, rng, max_alt=2 if tier == "quick" else 4)
        for cfg in cfgs:
            n = min(3 * sum(cfg) + 60, 900)
            for sd in seeds:
                # every other series in fractional volume units (quantities below one unit, as for fractional shares or coins)
                reqs.append({"strategy": e["name"], "cfg": cfg, "seed": sd + 100 * vlib.seed(), "n": n,
                             "volume_scale": (2.0 ** -13 if sd % 2 == 0 else 1.0)})
    wd = vlib.scratch("verif-c06-")
    try:
        path = os.path.join(wd, "reqs.ndjson")
        with open(path, "w") as f:
            for q in reqs:
                f.write(json.dumps(q) + "\n")
        p = vlib.harness_cmd(["rules-trace", path], timeout=2400)
        if p.returncode != 0:
            raise vlib.Machinery("rules-trace failed: " + p.stderr[:1000])
        outs = [json.loads(l) for l in p.stdout.splitlines() if l.strip()]
    finally:
        shutil.rmtree(wd, ignore_errors=True)
    nrows = nexempt = 0
    covered = {}
    samples = []
    for o in outs:
        s = o["strategy"].split("@")[0]
        if o.get("error"):
            machinery.append("rules-trace %s %s: %s" % (s, o.get("cfg"), o["error"]))
            continue
        m = meta[s]
        prev = None
        for row in o["rows"]:
            env = dict(o.get("consts") or {})
            env.update(row["q"])
            env["i"] = row["i"]
            if prev is not None and prev["i"] == row["i"] - 1:
                for k, v in prev["q"].items():
                    env.setdefault("prev_" + k, v)
            prev_row = prev
            prev = row
            try:
                vals = rulesgen.atom_values(m["atoms"], env)
            except NameError:
                continue     # a previous value is not available at the first defined position
            ent = table.get((s, tuple(vals)))
            if ent is None:
                machinery.append("no table row for %s %s" % (s, vals))
                continue
            nrows += 1
            if ent["exempt"]:
                nexempt += 1
                continue
            covered.setdefault(s, set()).add(tuple(vals))
            if row["action"] not in ent["allowed"]:
                kind = {1: "buy", -1: "sell", 0: "hold"}[row["action"]]
                V.violation({"strategy": s, "symptom": "rule", "action": kind},
                            "%s%s seed %d: at snapshot %d the strategy recommends %s, the documented rule (%s: Buy %s; Sell %s) allows %s for "
                            "%s" % (s, o["cfg"], o["seed"], row["i"], kind.capitalize(), m["mode"], m["buy"], m["sell"],
                                    [{1: "Buy", -1: "Sell", 0: "Hold"}[a] for a in ent["allowed"]],
                                    {k: round(v, 6) for k, v in {**row["q"], **(o.get("consts") or {})}.items()}),
                            {"request": {k: o[k] for k in ("strategy", "cfg", "seed", "n")}, "row": row, "previous_row": prev_row,
                             "atoms": m["atoms"], "atom_values": vals})
            elif len(samples) < 3 and row["action"] != 0:
                samples.append({"strategy": s, "cfg": o["cfg"], "snapshot": row["i"], "quantities": row["q"], "atoms": m["atoms"],
                                "atom_values": vals, "allowed": ent["allowed"], "action": row["action"]})
    # table coverage: which non-exempt valuations were reached
    reach = {}
    for (s, v), ent in table.items():
        if not ent["exempt"]:
            reach.setdefault(s, [0, 0])
            reach[s][1] += 1
            if v in covered.get(s, set()):
                reach[s][0] += 1
    # ---------- (a) documented fields
    cases = pe.build_cases(entries, "quick", [0], rng, max_alt=1)
    for c in cases:
        c.rec_len = 2 * sum(c.cfg) + 16
    recs = pe.record([{"pipe": c.pipe, "cfg": c.cfg, "cap": 0, "inputs": c.inputs, "rec_len": c.rec_len} for c in cases])
    for c, rr in zip(cases, recs):
        if rr and rr.get("wiring") and not rr.get("deadlock"):
            c.wiring = rr["wiring"]
            c.lens = [[c.rec_len]]
    pe.run_models(cases, mode="por", W_of=lambda c: 0)
    states = trans = 0
    nfields = 0
    for c in cases:
        if not c.lens or c.error or c.tlc is None:
            machinery.append("%s: no model for the field provenance (%s)" % (c.key(), c.error))
            continue
        states += c.tlc.distinct
        trans += c.tlc.generated
        t = c.terms.get((c.rec_len,), [None])[0]
        if t is None:
            continue
        fs = set()
        for tok in pe.sink_tokens(c.net, t)[0]:
            if not tok["fill"]:
                fs.update(tok["fs"])
        doc = set(c.entry.get("fields") or [])
        nfields += 1
        if fs != doc:
            V.violation({"strategy": c.pipe, "symptom": "fields"},
                        "%s: its actions are computed from the snapshot fields %s (recorded wiring of the real code), the documentation "
                        "says %s" % (c.key(), sorted(fs), sorted(doc)),
                        {"pipe": c.pipe, "cfg": c.cfg, "recorded_fields": sorted(fs), "documented_fields": sorted(doc)})
    rc = V.finish()
    for m_ in machinery[:20]:
        print("MACHINERY: " + m_)
    vlib.write_evidence(PID, "model_checking", {
        "states": max(states, 1) + len(table), "transitions": max(trans, 1) + len(table), "traces_validated_against_impl": len(outs) + nfields,
        "samples": samples or [{"note": "none"}], "evaluations": nrows, "distinct_nontrivial": sum(len(v) for v in covered.values()),
        "rule": "decision table rows = every valuation of the comparison atoms of %d strategies (%d rows); real side: %d runs "
                "(strategy x configuration x seed), every position with defined quantities abstracted to atoms and looked up; "
                "distinct non-trivial = distinct non-exempt (strategy, valuation) pairs reached" % (len(meta), len(table), len(outs)),
        "positions_checked": nrows, "positions_exempt": nexempt,
        "table_coverage": {s.split(".")[-1]: "%d/%d" % (a, b) for s, (a, b) in sorted(reach.items())},
        "no_documented_rule": rulesgen.NO_RULE, "field_sets_checked": nfields, "exhaustive": False, "known_findings_hit": V.hit},
        time.time() - t0, len(V.new),
        assumptions=["spec/rules_documented.json transcribes the documentation; where the code adds undocumented conditions the "
                     "rule is checked as a necessary condition only (mode onlyif)",
                     "the oracle quantities come from the library's own indicator types (their arithmetic is C01's concern)"])
    if rc == 0 and machinery:
        return 2
    return rc


if __name__ == "__main__":
    vlib.main_wrapper(main)
