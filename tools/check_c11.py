#!/usr/bin/env python3
"""C11 - CSV and JSON codecs round-trip every supported value.

spec/CsvFile.tla: the file as a sequence of lines under WriteToFile / AppendToFile / AppendOrWriteToCsvFile
(implementation-shaped: Write overlays without truncation when Truncate = FALSE) next to the abstract
content the property prescribes (write replaces, append extends); TLC checks ReadBack and OneHeader over
all histories from the three initial file states (missing, empty, header only), emits every history and
every header arrangement (any order of a subset of the struct's columns plus an extra column) with the
name-based mapping; the harness replays them on the real helper.Csv[T].  Value fidelity (every supported
kind: quoting-sensitive strings, extreme integers, floats to the last bit incl. subnormals and +-Inf,
booleans, dates in tagged and default formats) is a pool round trip through CSV (with and without header)
and JSON; the value dimension is sampled, not model checked."""
import json
import os
import shutil
import time

import vlib

PID = "C11"
# helper.Csv.WriteToFile as coded: False = opens without O_TRUNC (pinned commit); True since fix 79ce920
TRUNCATE_AS_CODED = True


def cfg(depth, truncate, what):
    s = ('CONSTANTS MaxRows = 2 Depth = %d Truncate = %s Fields = {"A", "B", "C"}\nSPECIFICATION Spec\nCHECK_DEADLOCK FALSE\n'
         % (depth, "TRUE" if truncate else "FALSE"))
    if what == "emit":
        s += "INVARIANTS Emit\n"
    elif what == "check":
        s += "INVARIANTS ReadBack OneHeader\n"
    return s


def main():
    t0 = time.time()
    tier = vlib.tier()
    vlib.build_harness()
    V = vlib.Verdicts(PID)
    machinery = []
    depth = 3 if tier == "quick" else 4
    r1 = vlib.run_tlc({"CsvFile.tla": None}, "CsvFile", cfg(depth + 1, TRUNCATE_AS_CODED, "check"), workers=4, timeout=1200)
    model_viol = r1.violation
    # the histories carry the ABSTRACT expectation, so Truncate does not matter for emission
    r2 = vlib.run_tlc({"CsvFile.tla": None}, "CsvFile", cfg(depth, True, "emit"), workers=1, timeout=1800, heap="4g")
    hists = [o for t, o in r2.prints if t == "HIST"]
    mc = "---- MODULE MCCsv ----\nEXTENDS CsvFile\nASSUME EmitHeaders\n====\n"
    r3 = vlib.run_tlc({"CsvFile.tla": None, "MCCsv.tla": mc}, "MCCsv", cfg(0, True, "none"), workers=1, timeout=600)
    hdrs = [o for t, o in r3.prints if t == "HDR"]
    if len(hdrs) < 40:
        raise vlib.Machinery("only %d header arrangements emitted" % len(hdrs))
    wd = vlib.scratch("verif-c11-")
    try:
        path = os.path.join(wd, "cases.ndjson")
        with open(path, "w") as f:
            for h in hists:
                f.write(json.dumps({"kind": "hist", "hist": h}) + "\n")
            for hd in hdrs:
                f.write(json.dumps({"kind": "hdr", "header": hd["header"], "map": hd["map"]}) + "\n")
        p = vlib.harness_cmd(["replay-csv", path], timeout=1800)
        if p.returncode != 0:
            raise vlib.Machinery("replay-csv failed: " + p.stderr[:1500])
        rep = json.loads(p.stdout)
    finally:
        shutil.rmtree(wd, ignore_errors=True)
    for m in rep["mismatches"] or []:
        key = {"kind": m["kind"]}
        if m["kind"] == "file":
            key["what"] = "reads-back-stale" if "reads back rows" in m["what"] else "error"
        if m["kind"] in ("pool", "json"):
            key["field"] = m["what"].split("field ")[1].split(":")[0] if "field " in m["what"] else "?"
            key["codec"] = "csv" if "CSV" in m["what"] else "json"
            key["value"] = "crlf" if "\\r\\n" in m["what"] else "other"
        rp = {"mismatch": m}
        if m["kind"] == "file":
            rp["history"] = hists[m["case"]]
        V.violation(key, m["what"], rp)
    stale = any(m["kind"] == "file" and "reads back rows" in m["what"] for m in rep["mismatches"] or [])
    if model_viol and not stale:
        machinery.append("spec/CsvFile.tla (Truncate=%s as coded): %s violated in the model but every history reads back "
                         "correctly on the real code: the implementation-shaped Write does not follow the code" % (TRUNCATE_AS_CODED, model_viol))
    if not model_viol and stale:
        print("MODEL-DIVERGENCE: the real code reads back stale rows, the model (Truncate=%s) does not" % TRUNCATE_AS_CODED)
    if model_viol and stale:
        print("MODEL: spec/CsvFile.tla with Truncate=%s (as coded) violates %s; confirmed on the real code" % (TRUNCATE_AS_CODED, model_viol))
    rc = V.finish()
    for m in machinery:
        print("MACHINERY: " + m)
    vlib.write_evidence(PID, "model_checking", {
        "states": r1.distinct + r2.distinct + max(r3.distinct, 1), "transitions": r1.generated + r2.generated + max(r3.generated, 1),
        "traces_validated_against_impl": rep["histories"] + rep["headers"],
        "samples": [{"history": hists[len(hists) // 2]}, {"header_case": hdrs[len(hdrs) // 2]}],
        "evaluations": rep["checks"] + rep["pool_rows"],
        "distinct_nontrivial": len([h for h in hists if any(s["k"] > 0 for s in h)]) + len(hdrs),
        "rule": "every history of %d write/append/append-or-write calls with 0..2 rows from the three initial file states, read back "
                "after every call; every arrangement of a subset of {A,B,C} plus an extra column as file header (%d); value pool of %d "
                "rows x all supported kinds through CSV (with/without header) and JSON" % (depth, len(hdrs), rep["pool_rows"]),
        "exhaustive": True, "pool_rows": rep["pool_rows"], "known_findings_hit": V.hit}, time.time() - t0, len(V.new),
        assumptions=["lines of equal byte length stand for records (the harness pads them)", "value fidelity is a pool, not a model-checked space",
                     "JSON has no encoding for Inf/NaN: finite floats only"])
    if rc == 0 and machinery:
        return 2
    return rc


if __name__ == "__main__":
    vlib.main_wrapper(main)
