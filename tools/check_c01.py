#!/usr/bin/env python3
"""C01 (slice) - indicator values equal their documented formulas: the window and recurrence cores whose
documented formula can be evaluated exactly on an integer lattice.

spec/Window.tla holds (a) the documented function of the window (sum / max / min of s[k..k+P-1], SMA =
sum / P, OBV's recurrence on close vs previous close) and (b) the construction the code uses (Duplicate,
Shift(P, 0), a closure with a running sum or a multiset with Insert(c); Remove(b), Skip(P-1)); TLC compares
(a) and (b) over every sequence over {-1, 0, 1, 2} up to the length bound and P in 1..4 and emits every
sequence with the documented result; the harness replays them on the real trend.MovingSum / MovingMax /
MovingMin / Sma (periods 1, 2, 4) and volume.Obv and compares exactly.
Second part (check_c01_formulas.py): spec/Formulas.tla transcribes the documented formula of 55 indicator types over exact
rational arithmetic on position-indexed series; TLC evaluates them on every input word over small alphabets (ties, zeros,
flat bars, zero volume, negative numbers for numeric inputs) and prints the exact values; the harness runs the real
indicators on the same words and every defined position is compared (tolerance 1e-9; squares where the formula takes a
root).  Positions with a zero denominator are exempt.
"""
import json
import os
import shutil
import time

import vlib

PID = "C01"
GUARDED_REMOVE_AS_CODED = True    # MovingMax/MovingMin removed the Shift fill (0) during warm-up at the pinned commit; guarded since the fix


def main():
    t0 = time.time()
    tier = vlib.tier()
    vlib.build_harness()
    V = vlib.Verdicts(PID)
    machinery = []
    maxlen, maxp = (5, 3) if tier == "quick" else (6, 4)
    mc = ("---- MODULE MCWin ----\nEXTENDS Window\nMCAlpha == {-1, 0, 1, 2}\n"
          "ASSUME PrintT(\"PROP \" \\o ToJson([sum |-> SumOK, max |-> MaxOK, min |-> MinOK]))\nASSUME Emit\nASSUME EmitObv(%d)\n====\n" % (4 if tier == "quick" else 5))
    cfg = "CONSTANTS Alpha <- MCAlpha MaxLen = %d MaxP = %d GuardedRemove = %s\nINIT Init\nNEXT Next\n" % (
        maxlen, maxp, "TRUE" if GUARDED_REMOVE_AS_CODED else "FALSE")
    r = vlib.run_tlc({"Window.tla": None, "MCWin.tla": mc}, "MCWin", cfg, workers=1, timeout=2400, heap="6g")
    props = [o for t, o in r.prints if t == "PROP"]
    cases = []
    for t, o in r.prints:
        if t == "WIN":
            o["kind"] = "win"
            cases.append(o)
        elif t == "OBV":
            o["kind"] = "obv"
            cases.append(o)
    if len(cases) < 500 or not props:
        raise vlib.Machinery("Window.tla emitted %d cases" % len(cases))
    wd = vlib.scratch("verif-c01-")
    try:
        path = os.path.join(wd, "cases.ndjson")
        with open(path, "w") as f:
            for c in cases:
                f.write(json.dumps(c) + "\n")
        p = vlib.harness_cmd(["replay-window", path], timeout=1800)
        if p.returncode != 0:
            raise vlib.Machinery("replay-window failed: " + p.stderr[:1000])
        rep = json.loads(p.stdout)
    finally:
        shutil.rmtree(wd, ignore_errors=True)
    seen = set()
    for m in rep["mismatches"] or []:
        V.violation({"indicator": m["ind"]}, m["what"], {"mismatch": m})
        seen.add(m["ind"])
    pr = props[0]
    model_bad = [k for k in ("sum", "max", "min") if not pr[k]]
    real_bad = sorted(x for x in seen if x.startswith("Moving"))
    if model_bad and not real_bad:
        machinery.append("Window.tla (GuardedRemove=%s as coded): construction differs from the documented function for %s, the real "
                         "indicators agree with the documented function" % (GUARDED_REMOVE_AS_CODED, model_bad))
    if model_bad:
        print("MODEL: Window.tla construction as coded differs from the documented window function for %s" % model_bad)
    # ---- second part: the documented formulas of spec/Formulas.tla on every word over small alphabets
    import check_c01_formulas
    fcov = check_c01_formulas.run(tier, V)
    if fcov["formula_outputs_never_compared"]:
        machinery.append("documented outputs never compared (vacuous): %s" % fcov["formula_outputs_never_compared"])
    rc = V.finish()
    for m in machinery:
        print("MACHINERY: " + m)
    vlib.write_evidence(PID, "model_checking", {
        "states": 1, "transitions": len(cases) + fcov["formula_cases"], "traces_validated_against_impl": len(cases) + fcov["formula_cases"],
        "samples": [c for c in cases if c["kind"] == "win" and len(c["s"]) == 4 and c["p"] == 2][:2] + [c for c in cases if c["kind"] == "obv"][-1:],
        "evaluations": rep["checks"], "distinct_nontrivial": len([c for c in cases if c.get("s") or c.get("c")]),
        "rule": "every sequence over {-1,0,1,2} of length 0..%d x P in 1..%d (window cores), every close/volume word over {10,11,12} x {1,2} "
                "up to length %d (OBV); non-trivial = non-empty" % (maxlen, maxp, 4 if tier == "quick" else 5),
        "construction_equals_documented": pr, "exhaustive": True, "known_findings_hit": V.hit, **fcov,
        "scope": "window cores and OBV compared bit for bit (Window.tla); %d indicator types compared with the exact rational value of their "
                 "documented formula (Formulas.tla) at every position of every word; not covered: Envelope, Hma, Po, SuperTrend, PercentB, "
                 "BollingerBandWidth, the Atr/SuperTrend variants with another moving average, Ichimoku's lagging span" % fcov["formula_indicators"]},
        time.time() - t0, len(V.new),
        assumptions=["window cores: integer lattice, IEEE arithmetic exact", "formulas: small-integer words, tolerance 1e-9 relative; positions whose "
                     "documented formula has a zero denominator are exempt", "configurations: periods 1..5 (the table in tools/formulas.py)"])
    if rc == 0 and machinery:
        return 2
    return rc


if __name__ == "__main__":
    vlib.main_wrapper(main)
