"""Shared machinery of the /verif checks: building the harness from /repo's working tree, running
real pipelines in timer-free child processes, running TLC in scratch directories, evidence and
known-findings handling."""
import concurrent.futures as cf
import hashlib
import json
import os
import re
import shutil
import subprocess
import sys
import tempfile
import time

VERIF = os.path.dirname(os.path.dirname(os.path.abspath(__file__)))
SPEC = os.path.join(VERIF, "spec")
HARNESS = os.path.join(VERIF, "harness")
BUILD = os.path.join(VERIF, ".build")
EVID = os.environ.get("VERIF_EVIDENCE_DIR") or os.path.join(VERIF, "evidence")
REPLAYS = os.environ.get("VERIF_REPLAYS_DIR") or os.path.join(VERIF, "replays")
TLA_CP = "/opt/veriftools/tla/tla2tools.jar:/opt/veriftools/tla/CommunityModules-deps.jar"
NCPU = os.cpu_count() or 4

GOENV = dict(os.environ, GOFLAGS="-mod=mod", GOPROXY="off", GOSUMDB="off", GOTOOLCHAIN="local",
             CGO_ENABLED="0")


class Machinery(Exception):
    """A failure of the verification machinery itself (never a violation): exit 2."""


def seed():
    try:
        return int(os.environ.get("VERIF_SEED", "1"))
    except ValueError:
        return 1


def tier(default="quick"):
    return os.environ.get("VERIF_TIER", default)


def scratch(prefix="verif-"):
    base = os.environ.get("VERIF_SCRATCH") or tempfile.gettempdir()
    return tempfile.mkdtemp(prefix=prefix, dir=base)


# ------------------------------------------------------------------------------------------------
# harness

_built = {}


def build_harness(race=False):
    """(Re)builds the Go harness against /repo's current working tree, hooks enabled."""
    key = "race" if race else "plain"
    if key in _built:
        return _built[key]
    os.makedirs(BUILD, exist_ok=True)
    out = os.path.join(BUILD, "vh-race" if race else "vh")
    env = dict(GOENV)
    cmd = ["go", "build", "-tags", "verif", "-o", out]
    if race:
        env["CGO_ENABLED"] = "1"
        cmd.insert(2, "-race")
    cmd.append(".")
    src = HARNESS
    alt = os.environ.get("VERIF_REPO")      # development aid (seeded changes evaluated in a copy of /repo, in parallel)
    if alt and os.path.abspath(alt) != "/repo":
        src = scratch("verif-harness-")
        for f in os.listdir(HARNESS):
            if f.endswith(".go") or f in ("go.mod", "go.sum"):
                shutil.copy(os.path.join(HARNESS, f), src)
        gm = open(os.path.join(src, "go.mod")).read().replace("=> /repo", "=> " + os.path.abspath(alt))
        open(os.path.join(src, "go.mod"), "w").write(gm)
        out = os.path.join(src, "vh-race" if race else "vh")
        cmd[cmd.index("-o") + 1] = out
    p = subprocess.run(cmd, cwd=src, env=env, capture_output=True, text=True, timeout=900)
    if p.returncode != 0:
        raise Machinery("harness does not build against /repo:\n" + p.stdout + p.stderr)
    _built[key] = out
    return out


def harness_cmd(args, timeout=600, race=False, input=None):
    exe = build_harness(race)
    p = subprocess.run([exe] + list(args), capture_output=True, text=True, timeout=timeout, input=input)
    return p


GOROUTINE_RE = re.compile(r"^goroutine (\d+) \[([^\]]*)\]:$")


def parse_dump(stderr):
    """Parses the goroutine dump of a `fatal error: all goroutines are asleep` report."""
    gs = []
    cur = None
    for line in stderr.splitlines():
        m = GOROUTINE_RE.match(line.strip())
        if m:
            cur = {"id": int(m.group(1)), "state": m.group(2).split(",")[0], "frames": []}
            gs.append(cur)
        elif cur is not None and line and not line.startswith("\t") and not line.startswith(" "):
            name = line.strip()
            if name.startswith("created by "):
                cur["created_by"] = name[len("created by "):].split(" in goroutine")[0]
            else:
                j = name.rfind("(")
                cur["frames"].append(name[:j] if j > 0 else name)
    out = []
    for g in gs:
        fn = next((f for f in g["frames"] if not f.startswith("runtime.")), "")
        out.append({"state": g["state"], "func": fn, "created_by": g.get("created_by", "")})
    return out


def run_child_batch(reqs, workdir, tag, timeout=300, env=None, race=False, subcmd="child", sparse=False):
    """Runs requests sequentially in child processes; restarts after a deadlock / leak.
    Returns a list of results aligned with reqs.  A deadlocked request yields
    {"id":..., "deadlock": True, "dump": [...]}."""
    exe = build_harness(race)
    path = os.path.join(workdir, "reqs-%s.json" % tag)
    with open(path, "w") as f:
        for r in reqs:
            f.write(json.dumps(r) + "\n")
    results = [None] * len(reqs)
    start = 0
    e = dict(os.environ)
    if env:
        e.update(env)
    while start < len(reqs):
        try:
            p = subprocess.run([exe, subcmd, path, str(start)], capture_output=True, text=True,
                               timeout=timeout, env=e)
        except subprocess.TimeoutExpired as ex:
            # a hang that the runtime did not report: machinery problem, never a verdict
            out = ex.stdout.decode() if isinstance(ex.stdout, bytes) else (ex.stdout or "")
            last = -1
            for line in out.splitlines():
                if line.startswith("BEGIN "):
                    last = int(line.split()[1])
            raise Machinery("child timed out (no runtime deadlock report) at request %d: %s" %
                            (last, json.dumps(reqs[last]) if last >= 0 else "?"))
        begun = -1
        nxt = None
        for line in p.stdout.splitlines():
            if line.startswith("BEGIN "):
                begun = int(line.split()[1])
            elif line.startswith("RESULT "):
                _, idx, js = line.split(" ", 2)
                results[int(idx)] = json.loads(js)
            elif line.startswith("RESTART "):
                nxt = int(line.split()[1])
            elif line == "END":
                nxt = len(reqs)
        if nxt is not None:
            start = nxt
            continue
        # the child died
        if "all goroutines are asleep - deadlock!" in p.stderr and begun >= 0 and results[begun] is None:
            results[begun] = {"id": reqs[begun].get("id"), "deadlock": True, "dump": parse_dump(p.stderr)}
            start = begun + 1
            continue
        if "DATA RACE" in p.stderr and begun >= 0:
            results[begun] = {"id": reqs[begun].get("id"), "race": True, "stderr": p.stderr[-4000:]}
            start = begun + 1
            continue
        if begun >= 0 and results[begun] is None and ("panic:" in p.stderr or "fatal error:" in p.stderr):
            results[begun] = {"id": reqs[begun].get("id"), "crash": True, "stderr": p.stderr[:3000]}
            start = begun + 1
            continue
        raise Machinery("child failed (exit %s) at request %d:\n%s" % (p.returncode, begun, p.stderr[:2000]))
    return results


def run_children(reqs, jobs=None, timeout=300, env=None, race=False, subcmd="child"):
    """Runs requests in parallel child processes (partitioned round-robin)."""
    if not reqs:
        return []
    jobs = max(1, min(jobs or NCPU, len(reqs)))
    wd = scratch("verif-run-")
    try:
        parts = [[] for _ in range(jobs)]
        for i, r in enumerate(reqs):
            parts[i % jobs].append((i, r))
        results = [None] * len(reqs)
        with cf.ThreadPoolExecutor(max_workers=jobs) as ex:
            futs = {ex.submit(run_child_batch, [r for _, r in part], wd, str(k), timeout, env, race, subcmd): part
                    for k, part in enumerate(parts) if part}
            for fut in cf.as_completed(futs):
                part = futs[fut]
                rs = fut.result()
                for (i, _), r in zip(part, rs):
                    results[i] = r
        return results
    finally:
        shutil.rmtree(wd, ignore_errors=True)


# ------------------------------------------------------------------------------------------------
# TLC

STATES_RE = re.compile(r"(\d+) states generated, (\d+) distinct states found")


class TlcResult:
    def __init__(self):
        self.stdout = ""
        self.generated = 0
        self.distinct = 0
        self.ok = False          # finished without error
        self.violation = None    # name of a violated invariant / "deadlock" / None
        self.terms = []          # parsed TERM summaries
        self.prints = []         # other printed JSON lines (tag, obj)
        self.wall = 0.0
        self.trace = []          # raw counterexample text lines


def unescape_tla_string(s):
    # TLC prints strings with \" and \\ escapes
    out = []
    i = 0
    while i < len(s):
        ch = s[i]
        if ch == "\\" and i + 1 < len(s):
            nx = s[i + 1]
            if nx == "n":
                out.append("\n")
            elif nx == "t":
                out.append("\t")
            else:
                out.append(nx)
            i += 2
        else:
            out.append(ch)
            i += 1
    return "".join(out)


PRINT_RE = re.compile(r'^"([A-Z]+) (.*)"$')


def run_tlc(files, module, cfg_text, workers=1, timeout=600, heap="2g", simulate=None, depth=None,
            extra_args=None, dfs=False, keep_dir=None, seed_=None, fast_start=None):
    """files: dict name -> text, or paths of spec files to copy.  Runs TLC in a scratch directory."""
    wd = keep_dir or scratch("verif-tlc-")
    try:
        for name, text in files.items():
            if text is None:
                shutil.copy(os.path.join(SPEC, name), os.path.join(wd, name))
            else:
                with open(os.path.join(wd, name), "w") as f:
                    f.write(text)
        with open(os.path.join(wd, module + ".cfg"), "w") as f:
            f.write(cfg_text)
        if fast_start is None:
            fast_start = workers == 1
        # short single-worker runs: serial GC and C1 only cut the CPU cost of a run from ~7 s to ~2 s
        # TLC unpacks its standard modules into java.io.tmpdir on every start and leaves them there: keep that inside the
        # scratch directory of the run, which is removed afterwards
        jtmp = os.path.join(wd, "jtmp")
        os.makedirs(jtmp, exist_ok=True)
        cmd = ["java"] + (["-XX:+UseSerialGC", "-XX:TieredStopAtLevel=1"] if fast_start else ["-XX:+UseParallelGC"]) + \
              ["-Xmx" + heap, "-Xss64m", "-Djava.io.tmpdir=" + jtmp]
        if dfs:
            cmd.append("-Dtlc2.tool.queue.IStateQueue=StateDeque")
        cmd += ["-cp", TLA_CP, "tlc2.TLC", "-workers", str(workers), "-metadir", os.path.join(wd, "meta"),
                "-noGenerateSpecTE"]
        if simulate:
            cmd += ["-simulate", simulate]
        if depth:
            cmd += ["-depth", str(depth)]
        if seed_ is not None:
            cmd += ["-seed", str(seed_)]
        if extra_args:
            cmd += list(extra_args)
        cmd += ["-config", module + ".cfg", module + ".tla"]
        t0 = time.time()
        env = dict(os.environ)
        env.pop("JAVA_TOOL_OPTIONS", None)
        try:
            p = subprocess.run(cmd, cwd=wd, capture_output=True, text=True, timeout=timeout, env=env)
        except subprocess.TimeoutExpired:
            raise Machinery("TLC timed out after %ss on %s" % (timeout, module))
        r = TlcResult()
        r.wall = time.time() - t0
        r.stdout = p.stdout
        for line in p.stdout.splitlines():
            m = STATES_RE.search(line)
            if m:
                r.generated, r.distinct = int(m.group(1)), int(m.group(2))
            m = PRINT_RE.match(line.strip())
            if m:
                try:
                    obj = json.loads(unescape_tla_string(m.group(2)))
                except Exception:
                    continue
                if m.group(1) == "TERM":
                    r.terms.append(obj)
                else:
                    r.prints.append((m.group(1), obj))
            m2 = re.match(r"Error: Invariant (\S+) is violated", line)
            if m2:
                r.violation = m2.group(1)
            if "Error: Deadlock reached" in line:
                r.violation = "deadlock"
            m3 = re.match(r"Error: Action property (\S+) is violated", line)
            if m3:
                r.violation = m3.group(1)
            if "Temporal properties were violated" in line:
                r.violation = r.violation or "temporal"
        r.ok = ("Model checking completed. No error has been found." in p.stdout) or \
               (simulate is not None and r.violation is None and "Error:" not in p.stdout)
        if not r.ok and r.violation is None:
            raise Machinery("TLC failed on %s:\n%s" % (module, p.stdout[-3000:] + p.stderr[-1000:]))
        if r.violation:
            keep = False
            for line in p.stdout.splitlines():
                if line.startswith("Error:"):
                    keep = True
                if keep:
                    r.trace.append(line)
        return r
    finally:
        if not keep_dir:
            shutil.rmtree(wd, ignore_errors=True)


def run_apalache(spec_name, text, args, timeout=600):
    """Runs apalache-mc check on a spec text in a scratch directory; returns (ok, tail of the output)."""
    wd = scratch("verif-apa-")
    try:
        with open(os.path.join(wd, spec_name), "w") as f:
            f.write(text)
        try:
            jtmp = os.path.join(wd, "jtmp")
            os.makedirs(jtmp, exist_ok=True)
            env = dict(os.environ)
            env["TMPDIR"] = jtmp        # the launcher script makes its java.io.tmpdir with mktemp -t (SANY's unpacked modules)
            p = subprocess.run(["apalache-mc", "check"] + list(args) + ["--out-dir=" + os.path.join(wd, "out"), spec_name],
                               cwd=wd, capture_output=True, text=True, timeout=timeout, env=env)
        except subprocess.TimeoutExpired:
            raise Machinery("apalache timed out on " + spec_name)
        out = p.stdout + p.stderr
        return ("EXITCODE: OK" in out and "NoError" in out), out[-1500:]
    finally:
        shutil.rmtree(wd, ignore_errors=True)


# ------------------------------------------------------------------------------------------------
# evidence / findings / verdicts

def run_tlapm(spec_name, timeout=900):
    """Checks the proofs of a module of /verif/spec with the TLA+ proof system in a scratch directory; returns the number of
    obligations proved (raises Machinery when an obligation fails or tlapm is not usable)."""
    wd = scratch("verif-tlapm-")
    try:
        shutil.copy(os.path.join(SPEC, spec_name), os.path.join(wd, spec_name))
        try:
            p = subprocess.run(["tlapm", "--threads", "8", "--cleanfp", spec_name], cwd=wd, capture_output=True, text=True, timeout=timeout)
        except subprocess.TimeoutExpired:
            raise Machinery("tlapm timed out on %s" % spec_name)
        out = p.stdout + p.stderr
        m = re.search(r"All (\d+) obligations? proved", out)
        if not m:
            raise Machinery("tlapm does not prove every obligation of %s:\n%s" % (spec_name, out[-1500:]))
        return int(m.group(1))
    finally:
        shutil.rmtree(wd, ignore_errors=True)


def load_known():
    p = os.path.join(VERIF, "known_findings.json")
    if not os.path.exists(p):
        return {"findings": [], "fixed": []}
    return json.load(open(p))


def write_evidence(pid, level, coverage, wall, violations, assumptions=None, tier_=None):
    os.makedirs(EVID, exist_ok=True)
    ev = {"property_id": pid, "tier": tier_ or tier(), "seed": seed(), "level": level,
          "coverage": coverage, "assumptions": assumptions or [], "wall_s": round(wall, 2),
          "violations": violations}
    with open(os.path.join(EVID, pid + ".json"), "w") as f:
        json.dump(ev, f, indent=1, sort_keys=True)


def write_replay(pid, obj):
    d = os.path.join(REPLAYS, pid)
    os.makedirs(d, exist_ok=True)
    s = json.dumps(obj, sort_keys=True, indent=1)
    h = hashlib.sha1(s.encode()).hexdigest()[:12]
    path = os.path.join(d, h + ".json")
    with open(path, "w") as f:
        f.write(s)
    return path


class Verdicts:
    """Collects violations, matches them against known findings, prints the contract lines."""

    def __init__(self, pid):
        self.pid = pid
        self.known = [k for k in load_known().get("findings", []) if k["property"] == pid]
        self.new = []        # (key, description, replay obj)
        self.hit = {}        # known id -> count
        self.seen_keys = set()

    def violation(self, key, what, replay):
        """key: dict of identifying fields, e.g. {"pipe":..., "symptom":...}"""
        for k in self.known:
            if all(match_field(key.get(f), v) for f, v in k["match"].items()):
                self.hit[k["id"]] = self.hit.get(k["id"], 0) + 1
                return
        kk = json.dumps(key, sort_keys=True)
        if kk in self.seen_keys:
            return
        self.seen_keys.add(kk)
        self.new.append((key, what, replay))

    def finish(self):
        for k in self.known:
            if k["id"] in self.hit:
                print("KNOWN-FINDING: property=%s %s (%d occurrences) [%s]" %
                      (self.pid, k["what"], self.hit[k["id"]], k["id"]))
        for key, what, replay in self.new[:80]:
            path = write_replay(self.pid, {"property": self.pid, "key": key, "what": what, "replay": replay})
            print("VIOLATION property=%s replay=%s" % (self.pid, path))
            print("  " + what)
        return 1 if self.new else 0


def match_field(val, pat):
    if isinstance(pat, dict) and "re" in pat:
        return val is not None and re.fullmatch(pat["re"], str(val)) is not None
    if isinstance(pat, list):
        return val in pat
    return val == pat


def main_wrapper(fn):
    """Runs a check's main(): exit 0/1 by verdict, exit 2 on machinery failures."""
    try:
        rc = fn()
    except Machinery as e:
        print("MACHINERY: " + str(e))
        sys.exit(2)
    except SystemExit:
        raise
    except BaseException:
        import traceback
        print("MACHINERY: internal error of the check (never a verdict)")
        traceback.print_exc()
        sys.exit(2)
    sys.exit(rc)
