"""Documented formulas (spec/Formulas.tla) against the real indicators: case generation, TLC runs, replay, comparison.

An ENTRY binds a catalogue indicator to the TLA+ expressions of its documented outputs:
    pipe     catalogue name (harness/cat_*.go)
    cfgs     configurations (quick, thorough extra)
    outs     [(label, TLA+ expression over the input series, real)]  real = index of the real output, or a function
             of the list of real outputs at one position (e.g. the squared distance of a band from the middle)
    alpha    optional explicit alphabet of input tuples (catalogue input order)
In the TLA+ expressions the inputs are named o h l c v (open high low close volume; a sole numeric input is c; x y for
the regressions) and the configuration parameters {0} {1} ...
"""
import json
import math
import os
import shutil
from fractions import Fraction

import vlib

NAMES = {"open": "o", "high": "h", "low": "l", "close": "c", "volume": "v", "c": "c", "x": "xs", "y": "ys"}

# generic valid bars (open, high, low, close, volume): mid close / close at high with less volume (the first two must differ in
# typical price and volume, or ratio indicators are undefined everywhere) / flat bar (zero range) / zero volume / close at low /
# wide bar
# (the special bars come early: long words leave room for the first two or three symbols only)
BARS = [
    dict(open=2, high=3, low=1, close=2, volume=2),
    dict(open=2, high=3, low=1, close=3, volume=1),
    dict(open=2, high=2, low=2, close=2, volume=2),
    dict(open=3, high=4, low=2, close=3, volume=0),
    dict(open=3, high=3, low=2, close=2, volume=3),
    dict(open=1, high=4, low=1, close=4, volume=1),
]
NUMERIC = [2, 3, 1, 0, -1, 4]      # a numeric series: ties, zero, a negative value
PRICE = [2, 3, 1, 4]


def sq(x):
    return x * x


def E(pipe, outs, cfgs, more=(), alpha=None, note=None, extra=None, c15=()):
    """extra: positions after the warm-up (default 3 quick / 4 thorough); smaller where the exact values outgrow TLC's integers
    c15: [(label, TLA+ theorem about the documented series, predicate on (real outputs, inputs) at one position)] - the
    range / ordering statements of property C15"""
    return dict(pipe=pipe, outs=outs, cfgs=[list(c) for c in cfgs], more=[list(c) for c in more], alpha=alpha, note=note, extra=extra,
                c15=list(c15))


TOL = 1e-9


def within(lo, hi):
    return lambda o, x, i=0: lo - TOL <= o[i] <= hi + TOL


def rng(label, expr, lo, hi, i=0):
    """the predicate returns True, or the side on which the value leaves the range"""
    def pred(o, x):
        if o[i] < lo - TOL * max(1, abs(lo)):
            return "below"
        if o[i] > hi + TOL * max(1, abs(hi)):
            return "above"
        return True
    return (label + " in [%g, %g]" % (lo, hi), "RangeOK(%s, %d, %d)" % (expr, lo, hi), pred)


def ordered(u, m, l_):
    """upper >= middle >= lower on real outputs 0, 1, 2"""
    return ("upper >= middle >= lower", "GeOK(%s, %s) /\\ GeOK(%s, %s)" % (u, m, m, l_),
            lambda o, x: o[0] >= o[1] - TOL * max(1, abs(o[1])) and o[1] >= o[2] - TOL * max(1, abs(o[2])))


def nonneg(label, expr, i=0):
    return (label + " >= 0", "NonNegOK(%s)" % expr, lambda o, x: o[i] >= -TOL)


ENTRIES = [
    # ---- trend
    E("trend.Sma", [("sma", "Sma(c, {0})", 0)], [(1,), (2,), (3,)], [(4,), (5,)]),
    E("trend.MovingSum", [("sum", "MSum(c, {0})", 0)], [(2,), (3,)], [(1,), (4,)]),
    E("trend.MovingMax", [("max", "MMax(c, {0})", 0)], [(2,), (3,)], [(1,), (4,)],
      c15=[("value <= moving max", "GeOK(MMax(c, {0}), c)", lambda o, x: x[0] <= o[0])]),
    E("trend.MovingMin", [("min", "MMin(c, {0})", 0)], [(2,), (3,)], [(1,), (4,)],
      c15=[("moving min <= value", "GeOK(c, MMin(c, {0}))", lambda o, x: o[0] <= x[0])]),
    E("trend.Ema", [("ema", "Ema(c, {0})", 0)], [(1,), (2,), (3,)], [(4,), (5,)]),
    E("trend.Rma", [("rma", "Rma(c, {0})", 0)], [(1,), (2,), (3,)], [(4,), (5,)]),
    E("trend.Smma", [("smma", "Smma(c, {0})", 0)], [(2,), (3,)], [(1,), (5,)]),
    E("trend.Wma", [("wma", "Wma(c, {0})", 0)], [(1,), (2,), (3,)], [(4,), (5,)]),
    E("trend.Apo", [("apo", "Apo(c, {0}, {1})", 0, "ApoAsCoded(c, {0}, {1})")], [(2, 3), (2, 2), (1, 3)], [(3, 5), (2, 5)]),
    E("trend.Macd", [("macd", "Macd(c, {0}, {1})", 0), ("signal", "MacdSignal(c, {0}, {1}, {2})", 1)],
      [(2, 3, 2), (1, 3, 2), (2, 2, 3)], [(3, 5, 2), (2, 4, 3)]),
    E("trend.Dema", [("dema", "Dema(c, {0}, {1})", 0, "DemaAsCoded(c, {0}, {1})")], [(2, 2), (2, 3), (3, 1)], [(3, 3), (1, 4)]),
    E("trend.Tema", [("tema", "Tema(c, {0}, {1}, {2})", 0)], [(2, 2, 2), (1, 2, 3)], [(3, 3, 3), (3, 2, 1)]),
    E("trend.Trima", [("trima", "Trima(c, {0})", 0)], [(2,), (3,), (4,)], [(5,), (6,), (7,)]),
    E("trend.Trix", [("trix", "Trix(c, {0})", 0)], [(2,), (3,)], [(1,)], extra=3),
    E("trend.Tsi", [("tsi", "Tsi(c, {0}, {1})", 0, "TsiAsCoded(c, {0}, {1})")], [(2, 2), (3, 2), (2, 3)], [(1, 3), (4, 2)]),
    E("trend.TypicalPrice", [("tp", "TypicalPrice(h, l, c)", 0)], [()]),
    E("trend.WeightedClose", [("wc", "WeightedClose(h, l, c)", 0)], [()]),
    E("trend.Bop", [("bop", "Bop(o, h, l, c)", 0)], [()], c15=[rng("bop", "Bop(o, h, l, c)", -1, 1)]),
    E("trend.Envelope", [("upper", "EnvUpper(Sma(c, {0}), 20)", 0), ("middle", "Sma(c, {0})", 1), ("lower", "EnvLower(Sma(c, {0}), 20)", 2)],
      [(1,), (2,), (3,)], [(4,)], c15=[ordered("EnvUpper(Sma(c, {0}), 20)", "Sma(c, {0})", "EnvLower(Sma(c, {0}), 20)")]),
    E("trend.Envelope/Ema", [("upper", "EnvUpper(Ema(c, {0}), 20)", 0), ("middle", "Ema(c, {0})", 1), ("lower", "EnvLower(Ema(c, {0}), 20)", 2)],
      [(1,), (2,), (3,)], [(4,)], c15=[ordered("EnvUpper(Ema(c, {0}), 20)", "Ema(c, {0})", "EnvLower(Ema(c, {0}), 20)")]),
    # WMA periods period/2 and sqrt(period) rounded to the nearest integer; even periods only (the documentation does not say
    # what period/2 is for an odd period)
    E("trend.Hma", [("hma", "Hma(c, {0}, 2, 2)", 0)], [(4,)], []),
    E("trend.Hma", [("hma", "Hma(c, {0}, 3, 2)", 0)], [(6,)], []),
    E("trend.Hma", [("hma", "Hma(c, {0}, 5, 3)", 0)], [], [(10,)]),
    E("trend.Vwma", [("vwma", "Vwma(c, v, {0})", 0)], [(1,), (2,), (3,)], [(4,)]),
    E("trend.Aroon", [("up", "AroonUp(h, {0})", 0, "AroonAsCoded(h, {0}, TRUE)"), ("down", "AroonDown(l, {0})", 1, "AroonAsCoded(l, {0}, FALSE)")], [(2,), (3,), (4,)], [(5,)],
      c15=[rng("up", "AroonUp(h, {0})", 0, 100, 0), rng("down", "AroonDown(l, {0})", 0, 100, 1)]),
    E("trend.Cci", [("cci", "Cci(h, l, c, {0})", 0)], [(2,), (3,)], [(1,), (4,)]),
    E("trend.Kdj", [("k", "KdjK(h, l, c, {0}, {2})", 0), ("d", "KdjD(h, l, c, {0}, {2}, {3})", 1), ("j", "KdjJ(h, l, c, {0}, {2}, {3})", 2)],
      [(2, 2, 2, 2), (3, 3, 1, 2), (2, 2, 2, 1)], [(3, 3, 2, 3)]),
    E("trend.MassIndex", [("mi", "MassIndex(h, l, {0}, {1}, {2})", 0)], [(2, 2, 2), (1, 2, 3), (2, 1, 2)], [(3, 2, 2)]),
    E("trend.Kama", [("kama", "Kama(c, {0}, {1}, {2})", 0)], [(2, 1, 3), (3, 2, 5), (1, 2, 2)], [(4, 1, 2)], extra=2),
    E("trend.Mls", [("m", "MlsM(xs, ys, {0})", 0), ("b", "MlsB(xs, ys, {0})", 1)], [(2,), (3,)], [(4,)]),
    E("trend.Mlr", [("y", "Mlr(xs, ys, {0})", 0)], [(2,), (3,)], [(4,)]),
    # ---- momentum
    E("momentum.AwesomeOscillator", [("ao", "AwesomeOscillator(h, l, {0}, {1})", 0)], [(1, 2), (2, 3), (2, 2)], [(2, 5)]),
    E("momentum.Ppo", [("ppo", "Ppo(c, {0}, {1})", 0), ("signal", "PpoSignal(c, {0}, {1}, {2})", 1), ("hist", "PpoHist(c, {0}, {1}, {2})", 2)],
      [(2, 3, 2), (1, 3, 2), (2, 2, 1)], [(3, 4, 1)], extra=3),
    E("momentum.Pvo", [("pvo", "Ppo(v, {0}, {1})", 0), ("signal", "PpoSignal(v, {0}, {1}, {2})", 1), ("hist", "PpoHist(v, {0}, {1}, {2})", 2)],
      [(2, 3, 2), (1, 3, 2)], [(3, 4, 1)], alpha=[(2,), (3,), (1,), (4,)], extra=3),
    E("momentum.Qstick", [("qs", "Qstick(o, c, {0})", 0)], [(1,), (2,), (3,)], [(4,)]),
    E("momentum.Rsi", [("rsi", "Rsi(c, {0})", 0)], [(1,), (2,), (3,)], [(4,), (5,)], c15=[rng("rsi", "Rsi(c, {0})", 0, 100)]),
    E("momentum.StochasticOscillator", [("k", "StochK(h, l, c, {0})", 0), ("d", "StochD(h, l, c, {0}, {2})", 1)],
      [(2, 2, 2), (3, 3, 1), (1, 1, 3)], [(3, 3, 3)],
      c15=[rng("k", "StochK(h, l, c, {0})", 0, 100, 0), rng("d", "StochD(h, l, c, {0}, {2})", 0, 100, 1)]),
    E("momentum.StochasticRsi", [("srsi", "StochRsi(c, {0})", 0)], [(2,), (3,)], [], extra=3, c15=[rng("srsi", "StochRsi(c, {0})", 0, 1)]),
    E("momentum.WilliamsR", [("wr", "WilliamsR(h, l, c, {0})", 0)], [(1, 1), (2, 2), (3, 3)], [(4, 4)],
      c15=[rng("wr", "WilliamsR(h, l, c, {0})", -100, 0)]),
    E("momentum.ChaikinOscillator", [("co", "ChaikinOsc(h, l, c, v, {0}, {1})", 0), ("ad", "Ad(h, l, c, v)", 1)],
      [(1, 2), (2, 3), (2, 2)], [(2, 4)]),
    E("momentum.IchimokuCloud", [("conversion", "IchiLine(h, l, {0})", 0), ("base", "IchiLine(h, l, {2})", 1),
                                 ("leadingA", "IchiLeadA(h, l, {0}, {2})", 2), ("leadingB", "IchiLine(h, l, {4})", 3),
                                 # Chikou Span (Lagging Span) = Closing plotted LaggingPeriod days in the past
                                 ("lagging", "Prev(c, {6})", 4)],
      [(1, 1, 2, 2, 3, 3, 2), (2, 2, 2, 2, 3, 3, 1), (2, 2, 3, 3, 4, 4, 2)], []),
    # ---- volatility
    E("volatility.Atr", [("atr", "Atr(h, l, c, {0})", 0)], [(1,), (2,), (3,)], [(4,)], c15=[nonneg("atr", "Atr(h, l, c, {0})")]),
    E("volatility.Atr/Ema", [("atr", "Ema(Tr(h, l, c), {0})", 0)], [(1,), (2,), (3,)], [(4,)], c15=[nonneg("atr", "Ema(Tr(h, l, c), {0})")]),
    E("volatility.Atr/Smma", [("atr", "Smma(Tr(h, l, c), {0})", 0)], [(2,), (3,)], [(4,)], c15=[nonneg("atr", "Smma(Tr(h, l, c), {0})")]),
    E("volatility.Atr/Wma", [("atr", "Wma(Tr(h, l, c), {0})", 0)], [(2,), (3,)], [(4,)]),
    E("volatility.MovingStd", [("std^2", "Var(c, {0})", lambda o: sq(o[0]))], [(1,), (2,), (3,)], [(4,)], c15=[nonneg("std", "Var(c, {0})")]),
    E("volatility.BollingerBandWidth", [("width^2", "BbwSq(c, {0})", lambda o: sq(o[0]))], [(2,), (3,)], [(4,)], alpha=[(x,) for x in PRICE],
      c15=[nonneg("band width", "BbwSq(c, {0})")]),
    E("volatility.PercentB", [("(%b-1/2)^2", "PercentBSq(c, {0})", lambda o: sq(o[0] - 0.5))], [(2,), (3,)], [(4,)]),
    E("volatility.BollingerBands", [("middle", "Sma(c, {0})", 1), ("(upper-middle)^2", "Scale(I(4), Var(c, {0}))", lambda o: sq(o[0] - o[1])),
                                    ("(middle-lower)^2", "Scale(I(4), Var(c, {0}))", lambda o: sq(o[1] - o[2])),
                                    ("upper+lower", "Scale(I(2), Sma(c, {0}))", lambda o: o[0] + o[2])],
      [(2,), (3,)], [(4,)], c15=[("upper >= middle >= lower", "NonNegOK(Var(c, {0}))", lambda o, x: o[0] >= o[1] - TOL * max(1, abs(o[1])) and o[1] >= o[2] - TOL * max(1, abs(o[2])))]),
    E("volatility.DonchianChannel", [("upper", "MMax(c, {0})", 0), ("middle", "DonchianMid(c, {0})", 1), ("lower", "MMin(c, {0})", 2)],
      [(1,), (2,), (3,)], [(4,)], c15=[ordered("MMax(c, {0})", "DonchianMid(c, {0})", "MMin(c, {0})")]),
    E("volatility.KeltnerChannel", [("upper", "KeltnerUp(h, l, c, {0}, {0})", 0), ("middle", "Ema(c, {0})", 1), ("lower", "KeltnerLow(h, l, c, {0}, {0})", 2)],
      [(1,), (2,), (3,)], [(4,)], c15=[ordered("KeltnerUp(h, l, c, {0}, {0})", "Ema(c, {0})", "KeltnerLow(h, l, c, {0}, {0})")]),
    E("volatility.KeltnerChannel/fields", [("upper", "KeltnerUp(h, l, c, {0}, {1})", 0), ("middle", "Ema(c, {1})", 1), ("lower", "KeltnerLow(h, l, c, {0}, {1})", 2)],
      [(2, 3), (3, 2), (3, 1)], [(4, 5)]),
    E("volatility.ChandelierExit", [("long", "ChandelierLong(h, l, c, {0})", 0), ("short", "ChandelierShort(h, l, c, {0})", 1)],
      [(1,), (2,), (3,)], [(4,)]),
    E("volatility.AccelerationBands", [("upper", "AccUpper(h, l, {0})", 0), ("middle", "Sma(c, {0})", 1), ("lower", "AccLower(h, l, {0})", 2)],
      [(1,), (2,), (3,)], [(4,)], c15=[ordered("AccUpper(h, l, {0})", "Sma(c, {0})", "AccLower(h, l, {0})")]),
    E("volatility.Po", [("po", "Po(h, l, c, {0})", 0)], [(2,), (3,)], [(4,)]),
    # dyadic periods only: the recursion branches on comparisons of derived quantities, which must be exact in floats too
    E("volatility.SuperTrend/Sma", [("supertrend", "SuperTrend(h, l, c, Atr(h, l, c, {0}), Q(5, 2))", 0)], [(1,), (2,)], [(4,)]),
    E("volatility.SuperTrend/Ema", [("supertrend", "SuperTrend(h, l, c, Ema(Tr(h, l, c), {0}), Q(5, 2))", 0)], [(1,), (3,)], []),
    E("volatility.SuperTrend", [("supertrend", "SuperTrend(h, l, c, Hma(Tr(h, l, c), {0}, 2, 2), Q(5, 2))", 0)], [(4,)], []),
    E("volatility.Atr/Hma", [("atr", "Hma(Tr(h, l, c), {0}, 2, 2)", 0)], [(4,)], []),
    E("volatility.UlcerIndex", [("ui^2", "UlcerSq(c, {0})", lambda o: sq(o[0]), "UlcerSqAsCoded(c, {0})")], [(1,), (2,), (3,)], [(4,)], c15=[nonneg("ulcer index", "UlcerSq(c, {0})")]),
    # ---- volume
    E("volume.Mfm", [("mfm", "Mfm(h, l, c)", 0)], [()], c15=[rng("mfm", "Mfm(h, l, c)", -1, 1)]),
    E("volume.Mfv", [("mfv", "Mfv(h, l, c, v)", 0)], [()]),
    E("volume.Ad", [("ad", "Ad(h, l, c, v)", 0)], [()]),
    E("volume.Cmf", [("cmf", "Cmf(h, l, c, v, {0})", 0)], [(1,), (2,), (3,)], [(4,)], c15=[rng("cmf", "Cmf(h, l, c, v, {0})", -1, 1)]),
    E("volume.Emv", [("emv", "Emv(h, l, v, {0})", 0, "EmvAsCoded(h, l, v, {0})")], [(1,), (2,), (3,)], [], note="volume unit 100000000"),
    E("volume.Fi", [("fi", "Fi(c, v, {0})", 0, "FiAsCoded(c, v, {0})")], [(1,), (2,), (3,)], [(4,)]),
    E("volume.Mfi", [("mfi", "Mfi(h, l, c, v, {0})", 0)], [(1,), (2,), (3,)], [(4,)], c15=[rng("mfi", "Mfi(h, l, c, v, {0})", 0, 100)]),
    E("volume.Nvi", [("nvi", "Nvi(c, v)", 0)], [()]),
    E("volume.Vpt", [("vpt", "Vpt(c, v)", 0)], [()]),
    E("volume.Vwap", [("vwap", "Vwap(c, v, {0})", 0)], [(1,), (2,), (3,)], [(4,)]),
]


def alphabet(entry, inputs):
    if entry["alpha"]:
        return [tuple(t) for t in entry["alpha"]]
    if inputs == ["c"]:
        return [(x,) for x in NUMERIC]
    if inputs == ["close"]:
        return [(x,) for x in PRICE]
    if inputs == ["x", "y"]:
        return [(1, 2), (2, 1), (3, 3), (4, 1), (2, 2), (0, -1)]
    out = []
    for b in BARS:
        t = tuple(b[n] for n in inputs)
        if t not in out:
            out.append(t)
    return out


def plan(entries, catalogue, idles, tier, long_words=False):
    """one plan item per (entry, cfg): word length L = warm-up + extra, alphabet as large as the budget allows"""
    budget = 1200 if tier == "quick" else 12000
    items = []
    for e in entries:
        cat = catalogue[e["pipe"]]
        for cfg in e["cfgs"] + (e["more"] if tier == "thorough" else []):
            w = idles[(e["pipe"], tuple(cfg))]
            if w is None or w < 0:
                continue
            L = w + (e["extra"] or (3 if tier == "quick" else 4))
            if long_words:
                # range statements fail on long flat or monotone runs rather than on many symbols: longer words, fewer symbols
                L = w + max(cfg + [2]) + (e["extra"] or (3 if tier == "quick" else 5))
            al = alphabet(e, cat["inputs"])
            k = len(al)
            while k > 2 and k ** L > budget:
                k -= 1
            while k ** L > 4 * budget and L > w + 2:
                L -= 1
            items.append(dict(entry=e, cfg=cfg, idle=w, L=L, alpha=al[:k], inputs=cat["inputs"]))
    return items


def tla_module(items):
    """MC module: one ASSUME per plan item printing every word with the exact documented values"""
    lines = ["---- MODULE MCFormulas ----", "EXTENDS Formulas", ""]
    for k, it in enumerate(items):
        e = it["entry"]
        names = [NAMES[n] for n in it["inputs"]]
        al = "{" + ", ".join("<<" + ", ".join(str(x) for x in t) + ">>" for t in it["alpha"]) + "}"
        lets = " ".join("%s == Ser([i \\in 1..%d |-> w[i][%d]])" % (nm, it["L"], j + 1) for j, nm in enumerate(names))
        outs = ", ".join("Out(" + o[1].format(*it["cfg"]) + ")" for o in e["outs"])
        alts = ", ".join(("Out(" + o[3].format(*it["cfg"]) + ")") if len(o) > 3 else "Out(Empty)" for o in e["outs"])
        ths = ", ".join("(" + th.format(*it["cfg"]) + ")" for _, th, _ in e["c15"])
        lines.append("ASSUME \\A w \\in Words(%s, %d) : LET %s IN PrintT(\"F \" \\o ToJson([k |-> %d, w |-> w, out |-> <<%s>>, alt |-> <<%s>>, th |-> <<%s>>]))"
                     % (al, it["L"], lets, k, outs, alts, ths))
    lines.append("====")
    return "\n".join(lines) + "\n"


def close_enough(real, exact):
    ex = float(exact)
    return abs(real - ex) <= 1e-9 * max(1.0, abs(ex))


def parse_float(s):
    if s == "NaN":
        return float("nan")
    if s == "+Inf":
        return float("inf")
    if s == "-Inf":
        return float("-inf")
    return float(s)


# ---- property C18: degree of homogeneity (price, volume) of every real output of every catalogued indicator.
# A sole numeric input ("c") counts as a price.  The degrees of the outputs that have a documented formula in
# spec/Formulas.tla are checked on the formula by TLC (HomogOK); the others are stated here only.
P1, P0 = (1, 0), (0, 0)
DEGREES = {
    "trend.Sma": [P1], "trend.MovingSum": [P1], "trend.MovingMax": [P1], "trend.MovingMin": [P1], "trend.Ema": [P1], "trend.Rma": [P1],
    "trend.Smma": [P1], "trend.Wma": [P1], "trend.Apo": [P1], "trend.Macd": [P1, P1], "trend.Dema": [P1], "trend.Tema": [P1],
    "trend.Trima": [P1], "trend.Trix": [P0], "trend.Tsi": [P0], "trend.TypicalPrice": [P1], "trend.WeightedClose": [P1], "trend.Bop": [P0],
    "trend.Envelope": [P1, P1, P1], "trend.Envelope/Ema": [P1, P1, P1], "trend.Hma": [P1], "trend.Vwma": [P1], "trend.Aroon": [P0, P0],
    "trend.Cci": [P0], "trend.Kdj": [P0, P0, P0], "trend.MassIndex": [P0], "trend.Kama": [P1],
    "momentum.AwesomeOscillator": [P1], "momentum.Ppo": [P0, P0, P0], "momentum.Pvo": [P0, P0, P0], "momentum.Qstick": [P1],
    "momentum.Rsi": [P0], "momentum.StochasticOscillator": [P0, P0], "momentum.StochasticRsi": [P0], "momentum.WilliamsR": [P0],
    "momentum.ChaikinOscillator": [(0, 1), (0, 1)], "momentum.IchimokuCloud": [P1, P1, P1, P1, P1],
    "volatility.Atr": [P1], "volatility.Atr/Ema": [P1], "volatility.Atr/Smma": [P1], "volatility.Atr/Wma": [P1], "volatility.Atr/Hma": [P1],
    "volatility.MovingStd": [P1], "volatility.BollingerBandWidth": [P0], "volatility.PercentB": [P0], "volatility.BollingerBands": [P1, P1, P1],
    "volatility.DonchianChannel": [P1, P1, P1], "volatility.KeltnerChannel": [P1, P1, P1], "volatility.KeltnerChannel/fields": [P1, P1, P1],
    "volatility.ChandelierExit": [P1, P1], "volatility.AccelerationBands": [P1, P1, P1], "volatility.UlcerIndex": [P0],
    "volatility.Po": [P0], "volatility.SuperTrend": [P1], "volatility.SuperTrend/Sma": [P1], "volatility.SuperTrend/Ema": [P1],
    "volume.Mfm": [P0], "volume.Mfv": [(0, 1)], "volume.Ad": [(0, 1)], "volume.Cmf": [P0], "volume.Emv": [(2, -1)], "volume.Fi": [(1, 1)],
    "volume.Mfi": [P0], "volume.Nvi": [P0], "volume.Obv": [(0, 1)], "volume.Vpt": [(0, 1)], "volume.Vwap": [P1],
}
SQ_DEG = {"std^2": (2, 0), "(upper-middle)^2": (2, 0), "(middle-lower)^2": (2, 0), "upper+lower": (1, 0), "ui^2": (0, 0),
          "width^2": (0, 0), "(%b-1/2)^2": (0, 0)}
# entries whose formula is pure arithmetic on the inputs (no sign / comparison of DERIVED quantities, where float noise on a
# rational tie could legitimately flip a branch): these are also run on the decimal unit 0.1
DECIMAL_OK = {"trend.Sma", "trend.MovingSum", "trend.MovingMax", "trend.MovingMin", "trend.Ema", "trend.Rma", "trend.Smma", "trend.Wma",
              "trend.Macd", "trend.Tema", "trend.Trima", "trend.TypicalPrice", "trend.WeightedClose", "trend.Envelope", "trend.Envelope/Ema",
              "trend.Hma", "trend.Vwma", "momentum.AwesomeOscillator", "momentum.Qstick", "volatility.Atr", "volatility.Atr/Ema",
              "volatility.Atr/Smma", "volatility.Atr/Wma", "volatility.MovingStd", "volatility.BollingerBands", "volatility.BollingerBandWidth",
              "volatility.DonchianChannel", "volatility.KeltnerChannel", "volatility.KeltnerChannel/fields", "volatility.ChandelierExit",
              "volatility.AccelerationBands", "volume.Vwap"}
# configurations of the indicators without a Formulas entry
EXTRA_CFGS = {
    "volume.Obv": [[]],
}
