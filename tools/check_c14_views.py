"""Beyond the listed property: helper.Report's bookkeeping of columns and chart views (spec/ReportViews.tla), run with C14."""
import json
import os
import shutil

import vlib


def run(tier, V, machinery):
    depth, listed = (4, 2) if tier == "quick" else (5, 2)
    cfg = "CONSTANTS Depth = %d MaxListed = %d ND = 3\nSPECIFICATION Spec\nCHECK_DEADLOCK FALSE\nINVARIANTS Filed Valid MainViewStays DocOK Emit\n" % (depth, listed)
    r = vlib.run_tlc({"ReportViews.tla": None}, "ReportViews", cfg, workers=4, timeout=1800, heap="4g")
    if r.violation:
        machinery.append("spec/ReportViews.tla: %s violated in the model" % r.violation)
    hists = [o for t, o in r.prints if t == "HIST"]
    if len(hists) < 50:
        raise vlib.Machinery("ReportViews.tla emitted %d histories" % len(hists))
    wd = vlib.scratch("verif-c14v-")
    try:
        path = os.path.join(wd, "h.ndjson")
        with open(path, "w") as f:
            for h in hists:
                f.write(json.dumps(h) + "\n")
        p = vlib.harness_cmd(["replay-views", path], timeout=900)
        if p.returncode != 0:
            raise vlib.Machinery("replay-views failed: " + (p.stderr or p.stdout)[:600])
        rep = json.loads(p.stdout)
    finally:
        shutil.rmtree(wd, ignore_errors=True)
    for m in rep["mismatches"] or []:
        V.violation({"symptom": "report-views"}, "helper.Report chart views: " + m, {"mismatch": m})
    return {"views_states": r.distinct, "views_histories": rep["histories"], "views_documents_rendered_and_read_back": rep.get("rendered", 0), "views_mismatches": len(rep["mismatches"] or [])}
