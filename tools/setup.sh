#!/bin/sh
# Offline setup: build the Go harness once (every check rebuilds it from /repo's working tree anyway)
# and make sure TLC starts.
set -e
cd "$(dirname "$0")/.."
mkdir -p .build evidence replays
export GOFLAGS=-mod=mod GOPROXY=off GOSUMDB=off GOTOOLCHAIN=local CGO_ENABLED=0
(cd harness && go build -tags verif -o ../.build/vh .)
java -cp /opt/veriftools/tla/tla2tools.jar tlc2.TLC -h >/dev/null 2>&1 || true
echo setup ok
