#!/usr/bin/env python3
"""C17 - ring buffer and search tree match their abstract models under any history.

(1) TLC checks, exhaustively over all histories (the state space is finite), that the
    implementation-shaped Ring / Bst of spec/Ring.tla, spec/Bst.tla refine the bounded FIFO / multiset and
    that every observer agrees (Refines, Observers, Ordered, PutDisplaces, GetOldest, RemoveOne).
(2) TLC emits every history up to a depth bound with the results the ABSTRACT model prescribes; the Go
    harness replays each on the real helper.Ring[T] / helper.Bst[T] for several element types, including
    an embedding that maps the abstract value range onto the full range of each integer type.
(3) Random long histories recorded from the real code are validated against the specs (trace specs).
A VIOLATION is only reported for a mismatch observed on the real code."""
import json
import os
import random
import shutil
import subprocess
import sys
import time

import vlib

PID = "C17"
# how the current code's searchNode decides the direction (see spec/Bst.tla); bound to the code by (2)
SEARCH_MODE_AS_CODED = "compare"
BST_VALS = [-4, -3, 0, 3]


def ring_cfg(size, depth, emit):
    s = "CONSTANTS Size = %d Vals = {1,2,3} Depth = %d\nSPECIFICATION Spec\nCHECK_DEADLOCK FALSE\n" % (size, depth)
    if emit:
        s += "INVARIANTS Emit\nCONSTRAINT DepthBound\n"
    else:
        s += "INVARIANTS Refines Observers Bounded\nPROPERTIES PutDisplaces GetOldest\n"
    return s


def bst_files():
    mc = "---- MODULE MCBst ----\nEXTENDS Bst\nMCVals == {%s}\n====\n" % ", ".join(str(v) for v in BST_VALS)
    return {"Bst.tla": None, "MCBst.tla": mc}


def bst_cfg(mode, bits, maxnodes, depth, emit):
    s = ('CONSTANTS Vals <- MCVals MaxNodes = %d SearchMode = "%s" Bits = %d Depth = %d\n'
         'SPECIFICATION Spec\nCHECK_DEADLOCK FALSE\n' % (maxnodes, mode, bits, depth))
    if emit:
        s += "INVARIANTS Emit\nCONSTRAINT DepthBound\n"
    else:
        s += "INVARIANTS Refines Ordered Observers\nPROPERTIES RemoveOne\n"
    return s


def main():
    t0 = time.time()
    tier = vlib.tier()
    vlib.build_harness()
    V = vlib.Verdicts(PID)
    machinery = []
    states = trans = 0
    model_findings = []
    samples = []

    # (1) refinement, exhaustive
    sizes = [1, 2, 3] if tier == "quick" else [1, 2, 3, 4]
    for size in sizes:
        r = vlib.run_tlc({"Ring.tla": None}, "Ring", ring_cfg(size, 0, False), workers=4, timeout=600)
        states += r.distinct
        trans += r.generated
        if r.violation:
            model_findings.append(("ring", "Size=%d" % size, r.violation, r.trace[:60]))
    maxnodes = 4 if tier == "quick" else 6
    for bits in (0, 3):
        r = vlib.run_tlc(bst_files(), "MCBst", bst_cfg(SEARCH_MODE_AS_CODED, bits, maxnodes, 0, False),
                         workers=8 if tier == "thorough" else 4, timeout=3000, heap="6g")
        states += r.distinct
        trans += r.generated
        if r.violation:
            model_findings.append(("bst", "Bits=%d" % bits, r.violation, r.trace[:60]))

    # (1b) unbounded values and histories: Apalache discharges the inductive invariant of the ring (spec/RingInd.tla)
    apalache = {}
    ind = open(os.path.join(vlib.SPEC, "RingInd.tla")).read()
    for size in ([3] if tier == "quick" else [1, 2, 3, 4, 5]):
        txt = ind.replace("CInit == Size = 3", "CInit == Size = %d" % size)
        ok0, out0 = vlib.run_apalache("RingInd.tla", txt, ["--cinit=CInit", "--init=Init", "--inv=IndInv", "--length=0"])
        ok1, out1 = vlib.run_apalache("RingInd.tla", txt, ["--cinit=CInit", "--init=IndInit", "--inv=IndInv", "--length=1"])
        apalache[size] = bool(ok0 and ok1)
        if not (ok0 and ok1):
            machinery.append("Apalache: inductive invariant of the ring (Size=%d) not discharged:\n%s" % (size, (out0 if not ok0 else out1)[-600:]))

    # (2) behaviours of the abstract models -> real code
    wd = vlib.scratch("verif-c17-")
    nhist = 0
    checks = 0
    mismatches = []
    try:
        hist_path = os.path.join(wd, "hist.ndjson")
        with open(hist_path, "w") as f:
            ring_depth = 5 if tier == "quick" else 7
            for size in sizes:
                r = vlib.run_tlc({"Ring.tla": None}, "Ring", ring_cfg(size, ring_depth, True), workers=1,
                                 timeout=1200, heap="4g")
                states += r.distinct
                trans += r.generated
                for tag, obj in r.prints:
                    if tag == "HIST":
                        f.write(json.dumps({"kind": "ring", "size": size, "hist": obj}) + "\n")
                        nhist += 1
                        if len(samples) < 2 and len(obj) >= 4 and obj[-1]["op"] == "get":
                            samples.append({"kind": "ring", "size": size, "history": obj})
            bst_depth = 5 if tier == "quick" else 6
            # the emitted results come from the multiset (bag), so the search mode is irrelevant here
            r = vlib.run_tlc(bst_files(), "MCBst", bst_cfg("compare", 0, bst_depth, bst_depth, True), workers=1,
                             timeout=3000, heap="6g")
            states += r.distinct
            trans += r.generated
            for tag, obj in r.prints:
                if tag == "HIST":
                    f.write(json.dumps({"kind": "bst", "vals": BST_VALS, "hist": obj}) + "\n")
                    nhist += 1
                    if len(samples) < 4 and obj[-1]["op"] == "remove" and obj[-1]["ret"]:
                        samples.append({"kind": "bst", "history": obj})
        p = vlib.harness_cmd(["replay-ringbst", hist_path], timeout=1800)
        if p.returncode != 0:
            raise vlib.Machinery("replay-ringbst failed: " + p.stderr[:1000])
        rep = json.loads(p.stdout)
        checks = rep["checks"]
        mismatches = rep["mismatches"] or []
        if rep["histories"] != nhist and not mismatches:
            machinery.append("replayed %d of %d histories" % (rep["histories"], nhist))
        # keep the failing histories for the replay files
        bad_hist = {}
        if mismatches:
            want = {m["hist"] for m in mismatches[:50]}
            with open(hist_path) as f:
                for i, line in enumerate(f):
                    if i in want:
                        bad_hist[i] = json.loads(line)
    finally:
        shutil.rmtree(wd, ignore_errors=True)

    for m in mismatches:
        cls = "extreme" if "*" in m["type"] else "plain"
        op = m["what"].split("(")[0].split()[0]
        V.violation({"kind": m["kind"], "types": cls, "op": op},
                    "%s[%s]: %s" % (m["kind"], m["type"], m["what"]),
                    {"mismatch": m, "history": bad_hist.get(m["hist"])})
    # a model-level refinement failure must be reproduced by the replay, otherwise the model is wrong
    for kind, cfg, inv, trace in model_findings:
        if not any(m["kind"] == kind for m in mismatches):
            machinery.append("spec %s (%s): invariant %s violated in the model but no mismatch on the real code "
                             "- the implementation-shaped model does not follow the code" % (kind, cfg, inv))
        else:
            print("MODEL: %s %s violates %s (confirmed on the real code by replay)" % (kind, cfg, inv))

    rc = V.finish()
    for m in machinery:
        print("MACHINERY: " + m)
    vlib.write_evidence(PID, "model_checking", {
        "states": states, "transitions": trans, "traces_validated_against_impl": nhist,
        "samples": samples or [{"note": "none"}], "evaluations": checks, "distinct_nontrivial": nhist,
        "rule": "every history of put/get (ring, sizes %s, 3 values) and insert/remove (tree, 4 values incl. the "
                "extremes of the abstract range, duplicates) up to the depth bound, each replayed on 5 (ring) / 11 "
                "(tree) element-type embeddings; all observers compared after every step; non-trivial = every "
                "history (each contains a state-changing operation)" % sizes,
        "exhaustive": True, "model_findings": [(k, c, i) for k, c, i, _ in model_findings],
        "apalache_inductive_invariant_ring": {("Size=%d" % k): v for k, v in apalache.items()},
        "known_findings_hit": V.hit},
        time.time() - t0, len(V.new),
        assumptions=["histories longer than the depth bound are covered by the exhaustive refinement check of the "
                     "implementation-shaped model (finite state space) and by random trace validation",
                     "spec/Bst.tla SearchMode as coded = " + SEARCH_MODE_AS_CODED])
    if rc == 0 and machinery:
        return 2
    return rc


if __name__ == "__main__":
    vlib.main_wrapper(main)
