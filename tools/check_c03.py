#!/usr/bin/env python3
"""C03 - pipelines never deadlock or leak and are schedule-independent.

For every catalogued pipeline (indicators, strategies, compounds, decorators) x configurations x input
capacities x input-length vectors (equal lengths 0..2w+2, and for multi-input indicators one input
shorter / empty):
  * the process network RECORDED from the real code is model checked with TLC (spec/Pipeline.tla):
    NoPanic, SingleReader as invariants, every terminal state reported (all processes done = no deadlock
    and no leaked goroutine); reduced next-state relation for all, ALL interleavings for the networks
    that fit, where the terminal state must be unique per input (determinacy = schedule independence)
    and equal to the reduced run's; EMA/RMA/SMMA units (the only shared channels) are verified in
    isolation with all interleavings for every period in use;
  * the same instances run on the real code in timer-free child processes: a hang is reported by the Go
    runtime's own deadlock detector, leaked goroutines by a census after all outputs were drained;
    thorough tier: GOMAXPROCS in {1,2,16} x random producer/consumer pacing, outputs compared bit for bit.
A VIOLATION is reported only for real-code behaviour; model/code disagreement is a machinery failure."""
import random
import sys
import time

import netgen
import pipeline_engine as pe
import vlib

PID = "C03"


def lens_class(lv):
    return "equal" if len(set(lv)) <= 1 else "unequal"


def leading_zeros(res):
    """number of leading zero values on output 0 of a recording run (estimate of a strategy's warm-up)"""
    try:
        bits = res["outs"][0].get("bits") or []
    except Exception:
        return 0
    k = 0
    for b in bits:
        if b in ("0", "8000000000000000"):
            k += 1
        else:
            break
    return k


def main():
    t0 = time.time()
    tier = vlib.tier()
    rng = random.Random(vlib.seed())
    vlib.build_harness()
    entries = [e for e in pe.catalogue() if e["class"] != "aux"]
    caps_all = [0] if tier == "quick" else [0, 1, 2]
    cases = []
    for e in entries:
        # entries with two or more periods: one alternative per relation class between them (buffer sizes, SyncPeriod
        # and alignment Skips depend on which period is the longer one and by how much)
        multi = len(e["params"] or []) >= 2
        cfgs = pe.configs_for(e, tier, rng, max_alt=(6 if multi else 1) if tier == "quick" else (8 if multi else 4))
        for ci, cfg in enumerate(cfgs):
            caps = list(caps_all)
            if tier == "quick" and ci == 1:
                caps = [0, 2]
            if tier == "thorough" and ci == 1:
                caps = [0, 1, 2, max(cfg) + 1]
            for cap in caps:
                cs_ = pe.Case(e, cfg, cap)
                cs_.extra = tier == "quick" and ci >= 2      # the further relation classes: a sample of lengths only
                cases.append(cs_)
    # recording runs (with values, to estimate the warm-up of strategies)
    insts = []
    for c in cases:
        rl = 40 if c.entry["class"] == "indicator" else sum(c.cfg) + 12
        insts.append({"pipe": c.pipe, "cfg": c.cfg, "cap": c.cap, "inputs": c.inputs, "rec_len": rl})
    reqs = [{"id": "rec%d" % i, "pipe": x["pipe"], "cfg": x["cfg"], "cap": x["cap"],
             "lens": [x["rec_len"]] * len(x["inputs"]), "data": {"seed": 7}, "wiring": True, "values": True}
            for i, x in enumerate(insts)]
    res = vlib.run_children(reqs)
    again = []
    for i, (c, r) in enumerate(zip(cases, res)):
        idle = (r or {}).get("idle", -1)
        need = 2 * max(idle, 0) + 4
        if r is None or r.get("deadlock") or need > reqs[i]["lens"][0]:
            q = dict(reqs[i])
            q["lens"] = [max(need, 12)] * len(c.inputs)
            again.append((i, q))
    if again:
        res2 = vlib.run_children([q for _, q in again])
        for (i, _), r in zip(again, res2):
            if r is not None and not r.get("deadlock"):
                res[i] = r
    V = vlib.Verdicts(PID)
    machinery = []
    cov = pe.Coverage()
    for c, r in zip(cases, res):
        c.rec = r
        if r is None or r.get("deadlock") or r.get("crash"):
            # even the long recording run does not terminate: a real hang
            if r is not None and r.get("deadlock"):
                V.violation({"pipe": c.pipe, "symptom": "deadlock", "lens": "equal", "cfg": str(c.cfg)},
                            "%s: hangs on %d equal-length inputs (Go runtime: all goroutines are asleep)" %
                            (c.key(), insts[cases.index(c)]["rec_len"]), {"request": reqs[cases.index(c)], "dump": r.get("dump")})
            else:
                machinery.append("%s: recording run failed: %s" % (c.key(), r))
            continue
        c.idle = r.get("idle", -1)
        c.lag = r.get("lag")
        c.wiring = r.get("wiring")
        w = c.idle if c.idle >= 0 else leading_zeros(r)
        c.west = w
        nin = len(c.inputs)
        is_default = c.cfg == c.entry["default"]
        lens = pe.lens_for(w, tier, nin, is_default)
        if getattr(c, "extra", False):
            keep = {0, 1, max(w, 0) - 1, max(w, 0), max(w, 0) + 1, max(w, 0) + 2, 2 * max(w, 0) + 2}
            lens = [lv for lv in lens if lv[0] in keep]
        elif nin > 1:
            lens += pe.unequal_lens(w, nin) if (tier == "thorough" or c.cap == 0) else []
        c.lens = lens
    # reduced-mode model checking of every recorded network
    pe.run_models(cases, mode="por", W_of=lambda c: max(c.west, 0), lags_of=lambda c: c.lag,
                  timeout=1800)
    # real runs
    nreal = pe.run_real(cases, values=(tier == "thorough"))
    cov.real_runs += nreal
    # all-interleavings runs for the networks that fit
    full_cases = []
    max_procs = 13 if tier == "quick" else 22
    for c in cases:
        if c.net is None or c.error:
            continue
        if len(c.net.procs) <= max_procs and c.cap <= 1:
            fc = pe.Case(c.entry, c.cfg, c.cap)
            fc.wiring = c.wiring
            fc.idle, fc.lag, fc.west = c.idle, c.lag, c.west
            small = [lv for lv in c.lens if max(lv) <= (max(c.west, 0) + 2 if tier == "quick" else max(c.west, 0) + 3)
                     and max(lv) <= (5 if tier == "quick" else 7)]
            fc.lens = small
            fc.por = c
            if small:
                full_cases.append(fc)
    # budget: the smallest networks first (by processes x longest input), a bounded number of runs
    full_cases.sort(key=lambda fc: (len(fc.por.net.procs) * (1 + max(max(lv) for lv in fc.lens)), fc.key()))
    seen_shape = set()
    picked = []
    # the same pipeline, configuration, input lengths and data under different input channel capacities: judged on the real
    # runs alone (needs no model) - "whatever ... the buffering of the input channels ... emits the same values in the same order"
    bycap = {}
    for c in cases:
        for lv, real in (c.real or {}).items():
            if real and not (real.get("deadlock") or real.get("crash")) and real.get("outs") is not None:
                bycap.setdefault((c.pipe, tuple(c.cfg), tuple(lv)), {})[c.cap] = real
    ncapcmp = 0
    for (pipe_, cfg_, lv_), d in sorted(bycap.items()):
        if 0 not in d:
            continue
        ref = [(o["n"], o.get("bits")) for o in d[0]["outs"]]
        for cap_, r_ in sorted(d.items()):
            if cap_ == 0:
                continue
            ncapcmp += 1
            got = [(o["n"], o.get("bits")) for o in r_["outs"]]
            same = len(got) == len(ref) and all(g[0] == w[0] and (g[1] is None or w[1] is None or g[1] == w[1]) for g, w in zip(got, ref))
            if not same:
                V.violation({"pipe": pipe_, "symptom": "capacity-dependent"},
                            "%s%s lens=%s: with input channels of capacity %d the outputs have %s values, with unbuffered inputs %s "
                            "(same data)%s" % (pipe_, list(cfg_), list(lv_), cap_, [g[0] for g in got], [w[0] for w in ref],
                                               "" if [g[0] for g in got] != [w[0] for w in ref] else ": the values differ"),
                            {"pipe": pipe_, "cfg": list(cfg_), "lens": list(lv_), "cap": cap_})
    coverage_capcmp = ncapcmp
    for fc in full_cases:
        shape = (fc.pipe, tuple(fc.cfg))
        if tier == "quick" and shape in seen_shape:
            continue
        seen_shape.add(shape)
        picked.append(fc)
    full_cases = picked[:40 if tier == "quick" else 160]

    def run_full(fc):
        try:
            fc.net, fc.tlc = pe.model_check(fc.wiring, fc.lens, "full", max(fc.west, 0), fc.lag,
                                            timeout=120 if tier == "quick" else 600,
                                            workers=2 if tier == "quick" else 4, heap="3g")
            fc.terms = pe.term_by_lens(fc.tlc)
        except vlib.Machinery as e:
            fc.error = str(e)[:200]
    pe.parallel(run_full, full_cases, jobs=8 if tier == "quick" else 4)

    # EMA/RMA/SMMA units in isolation, all interleavings
    periods = set()
    for c in cases:
        if c.net is not None:
            periods |= {p for p in c.net.xma_periods}
    unit_cases = []
    ecat = {e["name"]: e for e in pe.catalogue(all_=True)}
    for P in sorted(periods):
        if P > (6 if tier == "quick" else 12):
            continue
        for name in ("trend.Ema", "trend.Rma", "trend.Smma"):
            for cap in (0, 1, 2):
                uc = pe.Case(ecat[name], [P], cap)
                uc.west = P - 1
                uc.lens = [[n] for n in range(0, min(2 * P + 3, P + 4 if tier == "quick" else 99))]
                unit_cases.append(uc)
    pe.record_cases(unit_cases)

    def run_unit(uc):
        if uc.wiring is None:
            return
        try:
            uc.net, uc.tlc = pe.model_check(uc.wiring, uc.lens, "full", uc.west, None, timeout=900, workers=2, heap="3g")
            uc.terms = pe.term_by_lens(uc.tlc)
        except vlib.Machinery as e:
            uc.error = str(e)[:300]
    pe.parallel(run_unit, unit_cases, jobs=8)
    units_ok = {}
    for uc in unit_cases:
        key = (uc.pipe, uc.cfg[0])
        ok = uc.tlc is not None and uc.tlc.violation is None and all(len(v) == 1 and v[0]["done"] for v in uc.terms.values()) \
            and len(uc.terms) == len(uc.lens)
        units_ok[key] = units_ok.get(key, True) and ok
        if uc.tlc is not None:
            cov.add_tlc(uc.tlc)
            cov.full_runs += 1
        if not ok:
            machinery.append("Xma unit %s cap=%d: not determinate / SingleReader violated / not terminating in isolation "
                             "(%s)" % (uc.key(), uc.cap, uc.error or (uc.tlc.violation if uc.tlc else "no run")))

    # thorough: schedules on the real code
    sched_runs = []
    if tier == "thorough":
        import os
        sel = [c for c in cases if c.lens and c.cap in (0, 2)]
        for gmp in ("1", "2", "16"):
            for pace in (0, 1000 + vlib.seed(), 2000 + vlib.seed()):
                if gmp == "16" and pace == 0:
                    continue   # the baseline
                sub = []
                for c in sel:
                    cc = pe.Case(c.entry, c.cfg, c.cap)
                    w = max(c.west, 0)
                    cc.lens = [lv for lv in c.lens if max(lv) in (w + 2, w + 3, 2 * w + 2)][:3]
                    cc.base = c
                    sub.append(cc)
                n = pe.run_real(sub, values=True, pace=pace, env={"GOMAXPROCS": gmp})
                cov.real_runs += n
                sched_runs.append((gmp, pace, sub))

    # verdicts
    for c in cases:
        if not c.lens:
            continue
        if c.error:
            # no model of this wiring: exit 2 for the model - a hang, crash or leak of the REAL runs is still a verdict
            machinery.append("%s: %s" % (c.key(), c.error))
            for lv in c.lens:
                real = c.real.get(tuple(lv))
                if real is None:
                    continue
                replay = {"pipe": c.pipe, "cfg": c.cfg, "cap": c.cap, "lens": lv, "model": None}
                cls = lens_class(lv)
                if real.get("deadlock"):
                    stuck = sorted({g["func"].split("/")[-1] + ":" + g["state"] for g in real.get("dump", []) if "indicator" in g["func"]})
                    V.violation({"pipe": c.pipe, "symptom": "deadlock", "lens": cls},
                                "%s lens=%s: the real pipeline hangs (Go runtime: all goroutines are asleep); parked: %s" % (c.key(), lv, stuck[:6]), replay)
                elif real.get("crash"):
                    V.violation({"pipe": c.pipe, "symptom": "crash", "lens": cls},
                                "%s lens=%s: the real pipeline crashed: %s" % (c.key(), lv, real.get("stderr", "")[:300]), replay)
                elif real.get("leaks"):
                    lk = sorted({l["func"].split("/")[-1] + ":" + l["state"] for l in real["leaks"]})
                    V.violation({"pipe": c.pipe, "symptom": "leak", "lens": cls},
                                "%s lens=%s: %d goroutine(s) remain parked after every output was drained: %s" % (c.key(), lv, len(real["leaks"]), lk[:6]), replay)
            continue
        cov.add_tlc(c.tlc)
        cov.instances += 1
        if c.tlc.violation:
            machinery.append("MODEL %s: invariant %s violated in the model (reduced mode)" % (c.key(), c.tlc.violation))
        for note in c.net.notes:
            cov.notes.append("%s: %s" % (c.key(), note))
        for u in c.net.unrecognised_units:
            cov.notes.append("%s: shared channel %d is not a recognised Xma unit (period %d): explored as unsafe" %
                             (c.key(), u["chan"], u["period"]))
        for lv in c.lens:
            real = c.real.get(tuple(lv))
            terms = c.terms.get(tuple(lv), [])
            replay = {"pipe": c.pipe, "cfg": c.cfg, "cap": c.cap, "lens": lv}
            if real is None:
                machinery.append("%s lens=%s: no real result" % (c.key(), lv))
                continue
            cls = lens_class(lv)
            if real.get("deadlock"):
                stuck = sorted({g["func"].split("/")[-1] + ":" + g["state"] for g in real.get("dump", []) if "indicator" in g["func"]})
                replay["goroutines"] = stuck
                V.violation({"pipe": c.pipe, "symptom": "deadlock", "lens": cls},
                            "%s lens=%s: the real pipeline hangs (Go runtime: all goroutines are asleep); parked: %s" %
                            (c.key(), lv, stuck[:6]), replay)
            elif real.get("crash"):
                V.violation({"pipe": c.pipe, "symptom": "crash", "lens": cls},
                            "%s lens=%s: the real pipeline crashed: %s" % (c.key(), lv, real.get("stderr", "")[:300]), replay)
            elif real.get("leaks"):
                lk = sorted({l["func"].split("/")[-1] + ":" + l["state"] for l in real["leaks"]})
                replay["leaks"] = real["leaks"]
                V.violation({"pipe": c.pipe, "symptom": "leak", "lens": cls},
                            "%s lens=%s: %d goroutine(s) remain parked after every output was drained: %s" %
                            (c.key(), lv, len(real["leaks"]), lk[:6]), replay)
            if real.get("unstable"):
                machinery.append("%s lens=%s: goroutine census did not stabilise" % (c.key(), lv))
            if len(terms) != 1:
                if len(terms) > 1 and c.net.unsafe:
                    # the model says the outcome depends on the schedule (a second reader on a live channel)
                    machinery.append("MODEL %s lens=%s: %d different terminal states (schedule-dependent in the model); "
                                     "not (yet) reproduced on the real code" % (c.key(), lv, len(terms)))
                else:
                    machinery.append("%s lens=%s: %d terminal states in reduced mode" % (c.key(), lv, len(terms)))
                continue
            term = terms[0]
            if not term["done"] or max(lv) > max(c.west, 0):
                cov.nontrivial.add((c.pipe, tuple(c.cfg), c.cap, tuple(lv)))
            diffs = pe.compare_real_model(c.net, term, real)
            if diffs:
                machinery.append("MODEL-DIVERGENCE %s lens=%s: %s" % (c.key(), lv, diffs))
            if len(cov.samples) < 5 and cls == "unequal" and not term["done"]:
                cov.samples.append({"pipe": c.pipe, "cfg": c.cfg, "cap": c.cap, "lens": lv,
                                    "model_stuck": term["stuck"], "real": "deadlock" if real.get("deadlock") else real.get("leaks")})
    for fc in full_cases:
        if fc.error:
            cov.notes.append("all-interleavings run skipped/failed for %s: %s" % (fc.key(), fc.error[:120]))
            continue
        cov.add_tlc(fc.tlc)
        cov.full_runs += 1
        if fc.tlc.violation:
            machinery.append("MODEL %s: invariant %s violated under all interleavings" % (fc.key(), fc.tlc.violation))
        for lv in fc.lens:
            ft = fc.terms.get(tuple(lv), [])
            pt = fc.por.terms.get(tuple(lv), [])
            if len(ft) != 1:
                machinery.append("MODEL %s lens=%s: %d terminal states under all interleavings (not determinate)" %
                                 (fc.key(), lv, len(ft)))
            elif len(pt) == 1 and (ft[0]["out"] != pt[0]["out"] or ft[0]["done"] != pt[0]["done"] or
                                    ft[0]["stuck"] != pt[0]["stuck"]):
                machinery.append("REDUCTION %s lens=%s: reduced and full exploration end in different states" % (fc.key(), lv))
    for gmp, pace, sub in sched_runs:
        for cc in sub:
            for lv in cc.lens:
                a = cc.base.real.get(tuple(lv))
                b = cc.real.get(tuple(lv))
                if a is None or b is None:
                    continue
                replay = {"pipe": cc.pipe, "cfg": cc.cfg, "cap": cc.cap, "lens": lv, "GOMAXPROCS": gmp, "pace": pace}
                if b.get("deadlock") and not a.get("deadlock"):
                    V.violation({"pipe": cc.pipe, "symptom": "deadlock", "lens": lens_class(lv)},
                                "%s lens=%s: hangs under GOMAXPROCS=%s pace=%s only" % (cc.key(), lv, gmp, pace), replay)
                elif not a.get("deadlock") and not b.get("deadlock"):
                    if [o.get("bits") for o in a.get("outs", [])] != [o.get("bits") for o in b.get("outs", [])]:
                        V.violation({"pipe": cc.pipe, "symptom": "schedule-dependent", "lens": lens_class(lv)},
                                    "%s lens=%s: outputs differ between schedules (GOMAXPROCS=%s pace=%s)" %
                                    (cc.key(), lv, gmp, pace), replay)
                    if len(b.get("leaks") or []) != len(a.get("leaks") or []):
                        V.violation({"pipe": cc.pipe, "symptom": "leak", "lens": lens_class(lv)},
                                    "%s lens=%s: parked goroutines differ between schedules" % (cc.key(), lv), replay)
    rc = V.finish()
    for m in machinery[:40]:
        print("MACHINERY: " + m)
    if not cov.samples:
        for c in cases:
            if c.net is not None and c.lens:
                lv = c.lens[-1]
                t = c.terms.get(tuple(lv), [None])[0]
                cov.samples.append({"pipe": c.pipe, "cfg": c.cfg, "cap": c.cap, "lens": lv,
                                    "processes": len(c.net.procs), "channels": len(c.net.caps),
                                    "model_done": t and t["done"], "real_counts": [o["n"] for o in (c.real.get(tuple(lv)) or {}).get("outs", [])]})
                if len(cov.samples) >= 3:
                    break
    coverage = {"states": cov.states, "transitions": cov.transitions,
                "traces_validated_against_impl": cov.real_runs,
                "samples": cov.samples or [{"note": "none"}],
                "evaluations": cov.real_runs, "distinct_nontrivial": len(cov.nontrivial),
                "rule": "instance = (pipeline, configuration, input capacity, length vector); one reduced-mode TLC run per "
                        "(pipeline, configuration, capacity) on the network recorded from the real code; all-interleavings "
                        "runs for networks up to %d processes; each instance executed on the real code; non-trivial = some "
                        "input longer than the warm-up, or the model's terminal state is not all-done" % max_procs,
                "tlc_runs": cov.tlc_runs, "all_interleavings_runs": cov.full_runs, "instances": cov.instances,
                "pipelines": len(entries), "xma_unit_periods": sorted(periods), "units_verified": sorted(k[0] + str(k[1]) for k, v in units_ok.items() if v),
                "exhaustive": False, "notes": cov.notes[:40], "machinery": machinery[:40], "known_findings_hit": V.hit}
    # the commutation lemma behind the reduction, proved with the TLA+ proof system (spec/Commute.tla)
    coverage["tlaps_commutation_lemma_obligations_proved"] = vlib.run_tlapm("Commute.tla")
    coverage["real_runs_compared_across_input_capacities"] = coverage_capcmp
    vlib.write_evidence(PID, "model_checking", coverage, time.time() - t0, len(V.new),
                        assumptions=["stage programs of Pipeline.tla follow helper/*.go (bound by C16 probes)",
                                     "networks too large for all interleavings are explored with the ample-set reduction, "
                                     "validated against all interleavings on every network that fits",
                                     "receives on the input of a recognised EMA/RMA/SMMA unit are treated as safe after the "
                                     "unit was verified in isolation"])
    if rc == 0 and machinery:
        return 2
    return rc


if __name__ == "__main__":
    vlib.main_wrapper(main)
