"""Beyond the listed property: the indicator-backtest command-line tool, run as part of C13.

The binary built from /repo/cmd/indicator-backtest runs all base strategies over a file-system repository with three
assets that hold data and one name the repository does not hold, with 1 and with 4 workers.  What spec/Backtest.tla
prescribes for Backtest.Run (ExactlyOnce, SameForAnyW) is read off the HTML report it writes: every present asset is
listed exactly once in the index, its page lists every strategy exactly once (the same strategies for every asset), the
name the repository does not hold produces nothing, and the set of (asset, strategy, outcome) rows is the same for both
worker counts.  Unknown repository / report names exit 1."""
import datetime
import os
import re
import shutil
import subprocess

import vlib

ENV = dict(os.environ, GOFLAGS="-mod=mod", GOPROXY="off", GOSUMDB="off", GOTOOLCHAIN="local", CGO_ENABLED="0")


def write_asset(path, name, n, seed, today):
    import random
    rng = random.Random(seed)
    p = 100.0
    with open(os.path.join(path, name + ".csv"), "w") as f:
        f.write("Date,Open,High,Low,Close,Volume\n")
        for i in range(n):
            d = today - datetime.timedelta(days=n - i)
            o = p
            c = max(1.0, p * (1 + rng.uniform(-0.03, 0.03)))
            h = max(o, c) * (1 + rng.uniform(0, 0.01))
            lo = min(o, c) * (1 - rng.uniform(0, 0.01))
            f.write("%s,%.2f,%.2f,%.2f,%.2f,%d\n" % (d.strftime("%Y-%m-%d"), o, h, lo, c, rng.randint(1000, 9000)))
            p = c


def rows_of(outdir):
    """(index rows, {asset: [(strategy, outcome text)]})"""
    idx = open(os.path.join(outdir, "index.html")).read()
    index_assets = re.findall(r'<td><a href="([^"]+)\.html">', idx)
    pages = {}
    for a in sorted(set(index_assets)):
        page = open(os.path.join(outdir, a + ".html")).read()
        strategies = re.findall(r'<td><a href="[^"]* - ([^"]+)\.html">', page)
        outcomes = re.findall(r'(-?\d+\.\d\d)%', page)
        pages[a] = list(zip(strategies, outcomes[:len(strategies)]))
    return index_assets, pages


def run(tier, V, machinery):
    repo = os.environ.get("VERIF_REPO", "/repo")
    wd = vlib.scratch("verif-c13cli-")
    try:
        exe = os.path.join(wd, "indicator-backtest")
        p = subprocess.run(["go", "build", "-o", exe, "./cmd/indicator-backtest"], cwd=repo, capture_output=True, text=True, env=ENV, timeout=600)
        if p.returncode != 0:
            raise vlib.Machinery("cmd/indicator-backtest does not build: " + p.stderr[:600])
        now = datetime.datetime.utcnow()
        today = datetime.datetime(now.year, now.month, now.day)
        data = os.path.join(wd, "data")
        os.makedirs(data)
        present = ["aaa", "bbb", "ccc"]
        for i, a in enumerate(present):
            write_asset(data, a, 150 if tier == "quick" else 300, 7 + i + vlib.seed(), today)
        results = {}
        for W in (1, 4):
            out = os.path.join(wd, "out%d" % W)
            os.makedirs(out)
            p = subprocess.run([exe, "-repository-name", "filesystem", "-repository-config", data, "-report-name", "html", "-report-config", out,
                                "-workers", str(W), "-last", "120"] + present + ["nosuchasset"], capture_output=True, text=True, timeout=1200)
            if p.returncode != 0:
                V.violation({"symptom": "cli-backtest-exit"}, "indicator-backtest (workers %d) exits with status %d: %s" % (W, p.returncode, p.stderr[-400:]), {"workers": W})
                continue
            index_assets, pages = rows_of(out)
            results[W] = pages
            if sorted(index_assets) != present:
                V.violation({"symptom": "cli-backtest-index"},
                            "indicator-backtest (workers %d): the index lists %s, the assets that hold data are %s (spec/Backtest.tla SameForAnyW: "
                            "one best result per present asset, none for a name the repository does not hold)" % (W, index_assets, present), {"workers": W})
            ns = {a: len(rows) for a, rows in pages.items()}
            names = {a: sorted(s for s, _ in rows) for a, rows in pages.items()}
            ref = names.get(present[0], [])
            for a in present:
                if a not in pages:
                    continue
                if len(set(names[a])) != len(names[a]) or names[a] != ref or len(ref) < 20:
                    V.violation({"symptom": "cli-backtest-exactly-once"},
                                "indicator-backtest (workers %d): the page of %s lists %d results (%d distinct strategies), the page of %s lists %d "
                                "(spec/Backtest.tla ExactlyOnce: one result per asset and strategy)" % (W, a, ns[a], len(set(names[a])), present[0], len(ref)),
                                {"workers": W, "asset": a})
        if 1 in results and 4 in results and results[1] != results[4]:
            diff = [a for a in present if results[1].get(a) != results[4].get(a)]
            V.violation({"symptom": "cli-backtest-workers"},
                        "indicator-backtest: the results for %s differ between -workers 1 and -workers 4" % diff, {"assets": diff})
        for flags in (["-repository-name", "nosuch"], ["-repository-name", "filesystem", "-repository-config", data, "-report-name", "nosuch"]):
            p = subprocess.run([exe] + flags + ["aaa"], capture_output=True, text=True, timeout=120, cwd=wd)
            if p.returncode == 0:
                V.violation({"symptom": "cli-unknown-name"}, "indicator-backtest %s exits with status 0" % flags, {"flags": flags})
        return {"cli_backtest_runs": 4, "cli_backtest_strategies": len(results.get(1, {}).get(present[0], [])), "cli_backtest_assets": len(present)}
    finally:
        shutil.rmtree(wd, ignore_errors=True)
