#!/usr/bin/env python3
"""C14 - strategy reports have one value per date in every column.

For every strategy's Report() x configurations x n: the network recorded from the real code - closed
with the report template as its consumer (the `Template` process: receive a date, then one value from
every column in column order; a closed column yields a zero at once) - is model checked by TLC:
ColumnsBalanced (no column ran out, nothing left in any channel, every process done, every channel
closed) and ColAligned (the value printed in the row of date d was computed for date d or is a warm-up
fill).  The same instances are rendered by the real Report.WriteToWriter; afterwards the column
channels are inspected (left-over values), goroutines counted, and the printed rows compared with the
closing price, the normalised action and the outcome of each date computed independently."""
import datetime
import os
import random
import time

import pipeline_engine as pe
import vlib

PID = "C14"
HOLD = ("0", "8000000000000000")


def act(b):
    return 0 if b in HOLD else (1 if b == "3ff0000000000000" else (-1 if b == "bff0000000000000" else None))


def bits2f(b):
    import struct
    return struct.unpack(">d", int(b, 16).to_bytes(8, "big"))[0]


def normalize(acts):
    last = -1
    out = []
    for a in acts:
        if a != 0 and a != last:
            last = a
            out.append(a)
        else:
            out.append(0)
    return out


def outcome(closes, acts):
    balance, shares = 1.0, 0.0
    out = []
    for v, a in zip(closes, acts):
        if balance > 0 and a == 1:
            shares = balance / v
            balance = 0.0
        elif shares > 0 and a == -1:
            balance = shares * v
            shares = 0.0
        out.append((balance + (shares * v) - 1.0) * 100)
    return out


def rows_by_date(rows):
    day0 = datetime.date(2020, 1, 1)
    out = {}
    for r in rows or []:
        try:
            out[(datetime.date.fromisoformat(r[0][len('new Date("'):-2]) - day0).days] = r
        except Exception:
            pass
    return out


def confirm_late(c, n, col, d, hi):
    """Model: the value in column col of the row of date d was computed for date hi < d.  On the real code that value
    must then stay the same when every snapshot after hi is replaced (several seeds), although the row's date moved on."""
    if hi >= d:
        return None
    reqs = []
    seeds = [31, 32, 33, 34]
    base = {"pipe": c.pipe, "cfg": c.cfg, "cap": 0, "lens": [n], "mode": "report"}
    for sd in seeds:
        reqs.append(dict(base, id="b%d" % sd, data={"seed": sd}))
        reqs.append(dict(base, id="p%d" % sd, data={"seed": sd, "perturbed": True, "perturb_at": hi + 1, "seed2": 800 + sd}))
    res = vlib.run_children(reqs, jobs=4)
    for k in range(0, len(res), 2):
        a, b = res[k], res[k + 1]
        if not a or not b or a.get("deadlock") or b.get("deadlock"):
            return None
        ra, rb = rows_by_date(a.get("rows")), rows_by_date(b.get("rows"))
        if d not in ra or d not in rb or col >= len(ra[d]) or ra[d][col] != rb[d][col]:
            return None
        if ra[d][1] == rb[d][1]:
            return None   # the perturbation did not even change that date's close: no evidence
    return "confirmed on the code: that value does not change when all snapshots after date %d are replaced (4 seeds)" % hi


def main():
    t0 = time.time()
    tier = vlib.tier()
    rng = random.Random(vlib.seed())
    vlib.build_harness()
    entries = [e for e in pe.catalogue() if e["class"] in ("strategy", "compound")]
    cases = pe.build_cases(entries, tier, [0], rng, max_alt=1 if tier == "quick" else 4,
                           max_alt_multi=2 if tier == "quick" else 5)
    for c in cases:
        c.rec_len = 2 * sum(c.cfg) + 16
    reqs = [{"id": "rec%d" % i, "pipe": c.pipe, "cfg": c.cfg, "cap": 0, "lens": [c.rec_len], "data": {"seed": 7},
             "wiring": True, "mode": "report"} for i, c in enumerate(cases)]
    res = vlib.run_children(reqs)
    # compute-mode run of the same length: leading Holds estimate the warm-up (the property speaks about longer series)
    creqs = [{"id": "c%d" % i, "pipe": c.pipe, "cfg": c.cfg, "cap": 0, "lens": [c.rec_len], "data": {"seed": 7},
              "values": True} for i, c in enumerate(cases)]
    cres = vlib.run_children(creqs)
    for c, r in zip(cases, cres):
        c.west = 0
        if r and not r.get("deadlock") and r.get("outs"):
            bits = r["outs"][0].get("bits") or []
            while c.west < len(bits) and bits[c.west] in HOLD:
                c.west += 1
    V = vlib.Verdicts(PID)
    machinery = []
    cov = pe.Coverage()
    for c, r in zip(cases, res):
        c.rec = r
        if r is None or r.get("crash") or (r.get("err") and not r.get("wiring")):
            machinery.append("%s: report recording failed: %s" % (c.key(), str(r)[:200]))
            continue
        if r.get("deadlock"):
            V.violation({"pipe": c.pipe, "symptom": "deadlock"},
                        "%s: rendering the report on %d snapshots hangs" % (c.key(), c.rec_len),
                        {"request": reqs[cases.index(c)], "dump": r.get("dump")})
            continue
        c.wiring = r["wiring"]
        est = max(c.west, 1)
        # the property speaks about series longer than the warm-up
        ns = sorted({est + 1, est + 2, est + 5, min(2 * est + 2, est + 14)})
        c.lens = [[n] for n in ns]
    pe.run_models(cases, mode="por", W_of=lambda c: 0)
    # real: render + compute (for the independent oracle of the rows)
    cov.real_runs += pe.run_real(cases, mode="report")
    comp = []
    for c in cases:
        if c.lens:
            cc = pe.Case(c.entry, c.cfg, 0)
            cc.lens = c.lens
            cc.rep = c
            comp.append(cc)
    cov.real_runs += pe.run_real(comp, values=True)
    aux = [e for e in pe.catalogue(all_=True) if e["name"] == "aux.Closings"][0]
    closes_by_n = {}
    cl = pe.Case(aux, [], 0)
    cl.lens = [[n] for n in sorted({lv[0] for c in cases for lv in c.lens})]
    pe.run_real([cl], values=True)
    for lv in cl.lens:
        r = cl.real.get((lv[0],))
        closes_by_n[lv[0]] = [bits2f(b) for b in (r["outs"][0].get("bits") or [])] if r and r.get("outs") else None
    day0 = datetime.date(2020, 1, 1)
    for c, cc in zip([x for x in cases if x.lens], comp):
        if c.error:
            # no model of this wiring: exit 2 for the model - the REAL renders are still judged (below, with t = None)
            machinery.append("%s: %s" % (c.key(), c.error))
        else:
            cov.add_tlc(c.tlc)
        cov.instances += 1
        for lv in c.lens:
            n = lv[0]
            real = c.real.get((n,))
            terms = [] if c.error else c.terms.get((n,), [])
            if real is None:
                machinery.append("%s n=%d: no real result" % (c.key(), n))
                continue
            if len(terms) != 1 and not c.error:
                machinery.append("%s n=%d: %d terminal states in the model" % (c.key(), n, len(terms)))
            t = terms[0] if len(terms) == 1 else None
            cov.nontrivial.add((c.pipe, tuple(c.cfg), n))
            replay = {"pipe": c.pipe, "cfg": c.cfg, "n": n, "mode": "report",
                      "model": None if t is None else {"done": t["done"], "ran": t["ran"], "leftover": t["leftover"], "colAligned": t["colAligned"],
                                                       "colBalanced": t["colBalanced"], "stuck": t["stuck"]}}
            if real.get("deadlock"):
                V.violation({"pipe": c.pipe, "symptom": "deadlock"}, "%s n=%d: rendering the report hangs" % (c.key(), n), replay)
                if t is not None and t["done"]:
                    machinery.append("MODEL-DIVERGENCE %s n=%d: real hangs, model terminates" % (c.key(), n))
                continue
            if real.get("crash") or real.get("err"):
                V.violation({"pipe": c.pipe, "symptom": "render-error"},
                            "%s n=%d: rendering failed: %s" % (c.key(), n, (real.get("err") or real.get("stderr", ""))[:200]), replay)
                continue
            rows = real.get("rows") or []
            cols = real.get("cols") or []
            replay["real_cols"] = cols
            replay["real_rows"] = len(rows)
            nleak = len(real.get("leaks") or [])
            # --- model vs real
            mleft = sum((t["leftover"] or {}).values()) if (t is not None and isinstance(t["leftover"], dict)) else 0
            rleft = sum(x["left"] for x in cols)
            mstuck = len(pe.stuck_procs(t)) if t is not None else 0
            model_bad = bool(mleft or mstuck)
            real_bad = bool(rleft or nleak)
            if t is not None and (model_bad != real_bad or mstuck != nleak):
                machinery.append("MODEL-DIVERGENCE %s n=%d: left-over values real %d model %d (buffered); parked goroutines "
                                 "real %d model %d" % (c.key(), n, rleft, mleft, nleak, mstuck))
            # --- property on the real code
            for x in cols:
                if x["left"] > 0:
                    V.violation({"pipe": c.pipe, "symptom": "leftover", "col": x["col"]},
                                "%s n=%d: column %d still holds %d unconsumed value(s) after the last date row" %
                                (c.key(), n, x["col"], x["left"]), replay)
                if x["state"] == "open":
                    V.violation({"pipe": c.pipe, "symptom": "open-column", "col": x["col"]},
                                "%s n=%d: column %d is neither closed nor readable after rendering" % (c.key(), n, x["col"]), replay)
            if nleak:
                V.violation({"pipe": c.pipe, "symptom": "leak"},
                            "%s n=%d: %d goroutine(s) remain parked after rendering: %s" %
                            (c.key(), n, nleak, sorted({l["func"].split("/")[-1] for l in real["leaks"]})[:5]), replay)
            if not rows:
                V.violation({"pipe": c.pipe, "symptom": "no-rows"}, "%s n=%d: the report has no date rows" % (c.key(), n), replay)
            # rows: date, close, ..., annotation, ..., outcome - compared per date with an independent computation
            cr = cc.real.get((n,))
            closes = closes_by_n.get(n)
            if cr and not cr.get("deadlock") and rows and closes and len(closes) == n:
                acts = [act(b) for b in (cr["outs"][0].get("bits") or [])]
                norm = normalize(acts)
                oc = outcome(closes, acts)
                ai = next((j for j in range(2, len(rows[0])) if all(r[j] in ("null", '"B"', '"S"') for r in rows)), None)
                if ai is None:
                    machinery.append("%s n=%d: no annotation column found" % (c.key(), n))
                seen = set()
                for r in rows:
                    try:
                        d = (datetime.date.fromisoformat(r[0][len('new Date("'):-2]) - day0).days
                    except Exception:
                        V.violation({"pipe": c.pipe, "symptom": "date"}, "%s n=%d: unparsable date %s" % (c.key(), n, r[0]), replay)
                        break
                    if d in seen or d < 0 or d >= n:
                        V.violation({"pipe": c.pipe, "symptom": "date"}, "%s n=%d: date row %s repeated or outside the series" %
                                    (c.key(), n, r[0]), replay)
                        break
                    seen.add(d)
                    labels = real.get("labels") or []
                    ci = labels.index("Close") + 1 if "Close" in labels else None
                    if ci is None:
                        cov.notes.append("%s: report has no column labelled Close" % c.key())
                        gc = closes[d]
                    else:
                        try:
                            gc = float(r[ci])
                        except Exception:
                            gc = None
                    if gc != closes[d]:
                        V.violation({"pipe": c.pipe, "symptom": "close"},
                                    "%s n=%d: the row of date %d prints %s in the Close column, that date's closing price is %r" %
                                    (c.key(), n, d, r[ci] if ci else None, closes[d]), replay)
                        break
                    if ai is not None and d < len(norm):
                        want = '"B"' if norm[d] == 1 else ('"S"' if norm[d] == -1 else "null")
                        if r[ai] != want:
                            V.violation({"pipe": c.pipe, "symptom": "annotation"},
                                        "%s n=%d: the row of date %d is annotated %s, the normalised action recommended on that "
                                        "date is %s" % (c.key(), n, d, r[ai], want), replay)
                            break
                    if d < len(oc):
                        try:
                            go_ = float(r[-1])
                        except Exception:
                            go_ = None
                        if go_ is None or abs(go_ - oc[d]) > 1e-9 * max(1.0, abs(oc[d])):
                            V.violation({"pipe": c.pipe, "symptom": "outcome"},
                                        "%s n=%d: the row of date %d prints outcome %s, the portfolio outcome as of that date is %r"
                                        % (c.key(), n, d, r[-1], oc[d]), replay)
                            break
            if t is None:
                continue
            if t["done"] and not t.get("closeCol", True):
                cov.notes.append("%s n=%d: model: the Close column is not fed from the Close field" % (c.key(), n))
            # model-only claim: a value plotted against another date -> confirm on the real code by perturbation
            if t["done"] and not t["colAligned"]:
                tm = list(t["out"].values())[0]
                bad = [(e["col"], e["d"], e["tok"]["hi"]) for e in tm if not e["tok"]["fill"] and e["tok"]["hi"] != e["d"]]
                percol = {}
                for col, d, hi in bad:
                    percol.setdefault(col, (col, d, hi))
                for col, d, hi in percol.values():
                    key = {"pipe": c.pipe, "symptom": "late-column" if hi < d else "early-column", "col": col}
                    conf = confirm_late(c, n, col, d, hi)
                    if conf:
                        V.violation(key, "%s n=%d: model: column %d prints in the row of date %d a value computed for date %d; %s"
                                    % (c.key(), n, col, d, hi, conf), replay)
                    elif not any(x["left"] for x in cols):
                        machinery.append("MODEL-ONLY %s n=%d: model reports column %d value of date %d in the row of date %d; "
                                         "not confirmed on the code" % (c.key(), n, col, hi, d))
            if len(cov.samples) < 4 and n > 4:
                tm = list(t["out"].values())[0]
                cov.samples.append({"pipe": c.pipe, "cfg": c.cfg, "n": n, "real_cols": cols, "real_last_row": rows[-1] if rows else None,
                                    "model_row_of_last_date": [(e["col"], e["tok"]["hi"], e["tok"]["fill"]) for e in tm if e["d"] == n - 1]})
    # ---- beyond the property: the report's bookkeeping of columns and chart views (spec/ReportViews.tla)
    import check_c14_views
    vcov = check_c14_views.run(tier, V, machinery) if not os.environ.get("VERIF_ONLY") else {}
    rc = V.finish()
    for m in machinery[:40]:
        print("MACHINERY: " + m)
    vlib.write_evidence(PID, "model_checking", {
        "states": cov.states, "transitions": cov.transitions, "traces_validated_against_impl": cov.real_runs,
        "samples": cov.samples or [{"note": "none"}], "evaluations": cov.real_runs, "distinct_nontrivial": len(cov.nontrivial),
        "rule": "instance = (strategy report, configuration, n); TLC on the recorded report network closed with the Template "
                "consumer; every instance rendered by the real code, column channels inspected, rows compared with an "
                "independent computation of close / normalised action / outcome; every instance is non-trivial",
        "tlc_runs": cov.tlc_runs, "instances": cov.instances, "strategies": len(entries), "exhaustive": False,
        "notes": cov.notes[:40], "machinery": machinery[:40], "known_findings_hit": V.hit, **vcov},
        time.time() - t0, len(V.new),
        assumptions=["the Template process follows helper/report.tmpl (range .Date, then every column's Value in order)",
                     "indicator-column alignment (value plotted against the date it was computed for) is decided on the model's "
                     "provenance tokens; on the real code it shows as left-over / missing values"])
    if rc == 0 and machinery:
        return 2
    return rc


if __name__ == "__main__":
    vlib.main_wrapper(main)
