#!/usr/bin/env python3
"""Development aid: re-run checks against an already filed seeded change (after the machinery was strengthened) and
record the new outcome in its meta.json (the first outcome is kept under "checks_before_strengthening").
usage: tools/seedrecheck.py <tag> <ID> [<ID> ...]"""
import json
import os
import re
import subprocess
import sys

VERIF = os.path.dirname(os.path.dirname(os.path.abspath(__file__)))


def main():
    tag, ids = sys.argv[1], sys.argv[2:]
    d = os.path.join(VERIF, "seeded", tag)
    meta = json.load(open(os.path.join(d, "meta.json")))
    p = subprocess.run([os.path.join(VERIF, "tools", "seedtest.py"), os.path.join(d, "patch.diff")] + ids, capture_output=True, text=True)
    print(p.stdout[-3000:])
    caught, cur = {}, None
    for line in p.stdout.splitlines():
        mm = re.match(r"== (\S+) exit=(\d+)", line)
        if mm:
            cur = mm.group(1)
            caught[cur] = {"exit": int(mm.group(2)), "lines": []}
        elif cur and line.strip().startswith(("VIOLATION", "MACHINERY")) or (cur and line.startswith("     ")):
            caught[cur]["lines"].append(re.sub(r"/tmp/verif-repo-\w+/", "<copy>/", line.strip())[:300])
    if "checks_before_strengthening" not in meta:
        meta["checks_before_strengthening"] = meta.get("checks", {})
    meta["checks"] = dict(meta.get("checks", {}), **caught)
    json.dump(meta, open(os.path.join(d, "meta.json"), "w"), indent=1)
    print("updated", d, {k: v["exit"] for k, v in caught.items()})


if __name__ == "__main__":
    sys.exit(main())
