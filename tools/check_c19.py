#!/usr/bin/env python3
"""C19 - malformed external data never panics, hangs or leaks.

spec/Readers.tla models the CSV reader at the level of record shapes (header arrangement incl. unknown,
duplicated and missing columns; records of any length 1..MaxCols; a cell of the wrong type anywhere; with
and without header) with an explicit Panic outcome where the code indexes out of range, and the JSON
stream reader at token level (truncation after any token, wrong top-level value, wrong element type,
garbage).  TLC evaluates NeverPanics / JsonPrefixOK and enumerates every case with the rows of the
well-formed prefix; every case is rendered to bytes in several ways (LF, CRLF, quoted, no trailing
newline; compact / spaced JSON) and fed to the real ReadFromReader / JSONToChan in a timer-free child
process (a panic kills the child and is reported with its case, a hang is reported by the Go runtime,
goroutines left behind by a census).  HTTP statuses x response bodies run against TiingoRepository
through an in-process server.  Arbitrary byte strings are reached only through these renderings."""
import json
import re
import time

import vlib

PID = "C19"
BOUNDS_CHECKED_AS_CODED = True    # header-less CSV: record shorter than the struct -> logged error since the fix (index out of range at the pinned commit)


def cfg(n, maxcols, maxrecs, headers):
    return ("CONSTANTS N = %d MaxCols = %d MaxRecs = %d BoundsChecked = %s HeaderCases = %s\nINIT Init\nNEXT Next\n" % (
        n, maxcols, maxrecs, "TRUE" if BOUNDS_CHECKED_AS_CODED else "FALSE", "TRUE" if headers else "FALSE"))


def main():
    t0 = time.time()
    tier = vlib.tier()
    vlib.build_harness()
    V = vlib.Verdicts(PID)
    machinery = []
    cases = []
    states = 0
    model_panics = False
    plans = [(2, 3, 3, True), (3, 4, 2, False), (4, 4, 2, False)] if tier == "quick" else \
            [(2, 3, 3, True), (3, 4, 3, False), (4, 5, 2, False), (3, 3, 2, True)]
    for n, mc_, mr, hd in plans:
        mc = ("---- MODULE MCReaders ----\nEXTENDS Readers\nASSUME PrintT(\"PROP \" \\o ToJson([neverPanics |-> NeverPanics, json |-> JsonPrefixOK]))\n"
              "ASSUME EmitCsv\n%s====\n" % ("ASSUME EmitJson(%d)\n" % (4 if tier == "quick" else 5) if n == 2 else ""))
        r = vlib.run_tlc({"Readers.tla": None, "MCReaders.tla": mc}, "MCReaders", cfg(n, mc_, mr, hd), workers=1, timeout=2400, heap="6g")
        states += 1
        for tag, o in r.prints:
            if tag == "CSV":
                o["kind"] = "csv"
                cases.append(o)
            elif tag == "JSON":
                o["kind"] = "json"
                cases.append(o)
            elif tag == "PROP":
                if not o["neverPanics"]:
                    model_panics = True
                if not o["json"]:
                    machinery.append("Readers.tla: JsonPrefixOK fails")
    if len(cases) < 2000:
        raise vlib.Machinery("Readers.tla emitted only %d cases" % len(cases))
    res = vlib.run_children(cases, subcmd="readers-child", timeout=1800)
    samples = []
    real_panic = False
    for c, r in zip(cases, res):
        if r is None:
            continue
        desc = ("CSV %s header=%s records=%s (struct of %d fields)" % ("with" if c.get("hdr") else "without", c.get("header"), c.get("recs"), c.get("n"))
                if c["kind"] == "csv" else "JSON tokens %s" % c.get("toks"))
        if r.get("crash"):
            real_panic = True
            what = r.get("stderr", "").split("\n")[0][:200]
            V.violation({"reader": c["kind"], "symptom": "panic", "hdr": c.get("hdr")},
                        "%s: the reader goroutine panics: %s" % (desc, what), {"case": c, "stderr": r.get("stderr", "")[:1500]})
        elif r.get("deadlock"):
            V.violation({"reader": c["kind"], "symptom": "hang"}, "%s: reading blocks forever" % desc, {"case": c})
        elif r.get("mismatch"):
            V.violation({"reader": c["kind"], "symptom": "prefix"}, "%s: %s" % (desc, r["mismatch"]), {"case": c})
        elif r.get("leaks"):
            V.violation({"reader": "?", "symptom": "leak"}, "goroutines left behind after reader cases up to #%s: %s" % (r.get("id"), r["leaks"][:3]), {})
    for c in cases:
        if len(samples) < 3 and ((c["kind"] == "csv" and len(c["recs"]) == 2 and c["out"]["rows"] == 1) or (c["kind"] == "json" and c["rows"] == 2)):
            samples.append(c)
    p = vlib.harness_cmd(["tiingo-http"], timeout=900)
    if p.returncode != 0 and re.search(r"^(panic:|fatal error:)", p.stderr, re.M) and "cinar/indicator/v2/" in p.stderr:
        # the process died inside library code (a panic in the reader goroutine cannot be recovered by the caller): a crash of the
        # real code on the case in progress
        last = [l for l in p.stderr.splitlines() if l.startswith("CASE ")]
        what = (re.search(r"^(panic:.*|fatal error:.*)$", p.stderr, re.M).group(1))[:200]
        V.violation({"reader": "tiingo", "symptom": "panics"},
                    "TiingoRepository: the process dies in %s: %s" % (last[-1] if last else "an unknown case", what),
                    {"case": last[-1] if last else None, "stderr": p.stderr[-2500:]})
        rep = {"mismatches": [], "cases": len(last), "checks": len(last)}
    elif p.returncode != 0:
        raise vlib.Machinery("tiingo-http failed: " + p.stderr[-800:])
    else:
        rep = json.loads(p.stdout)
    for m in rep["mismatches"] or []:
        V.violation({"reader": "tiingo", "symptom": m["what"].split(" ")[1]}, "TiingoRepository: " + m["what"], {"mismatch": m})
    if model_panics and not real_panic:
        machinery.append("Readers.tla (BoundsChecked=%s as coded) says the header-less reader panics on short records, the real code "
                         "did not" % BOUNDS_CHECKED_AS_CODED)
    if model_panics and real_panic:
        print("MODEL: spec/Readers.tla with BoundsChecked=FALSE (as coded) refutes NeverPanics; reproduced on the real code")
    if real_panic and not model_panics:
        print("MODEL-DIVERGENCE: the real reader panics where the model does not")
    rc = V.finish()
    for m in machinery:
        print("MACHINERY: " + m)
    vlib.write_evidence(PID, "model_checking", {
        "states": max(states, 1), "transitions": max(len(cases), 1), "traces_validated_against_impl": len(cases) + rep["cases"],
        "samples": samples or [{"note": "none"}], "evaluations": len(cases) * 4 + rep["checks"],
        "distinct_nontrivial": len([c for c in cases if (c["kind"] == "csv" and c["recs"]) or (c["kind"] == "json" and c["toks"])]),
        "rule": "every sequence of 0..3 records of 1..3/4 cells over {ok, bad} for structs of 2-4 fields without header, every header "
                "arrangement over the struct's columns plus an unknown one (length 1..3, duplicates allowed) x 0..2 records with header, "
                "every JSON token sequence up to length 4/5; each rendered 4 (CSV) / 2 (JSON) ways; 9 HTTP statuses x 19 bodies (incl. arrays with null / scalar / array elements); "
                "non-trivial = non-empty input",
        "csv_json_cases": len(cases), "http_cases": rep["cases"], "exhaustive": True, "known_findings_hit": V.hit},
        time.time() - t0, len(V.new),
        assumptions=["arbitrary bytes are reached only through renderings of the structural cases (not a fuzzer)",
                     "the HTTP part runs with a 15 s watchdog instead of the runtime deadlock detector (net/http needs the poller)"])
    if rc == 0 and machinery:
        return 2
    return rc


if __name__ == "__main__":
    vlib.main_wrapper(main)
