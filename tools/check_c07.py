#!/usr/bin/env python3
"""C07 - compound and decorator strategies combine sub-recommendations as specified.

spec/Combinators.tla: And/Or/Majority over standing (denormalised) recommendations, Split, MACD-RSI,
Inverse, No-Loss and Stop-Loss (code-shaped sentinel state next to the abstract position).  TLC checks
NoLossSafe, StopLossSafe, Repr, VoteSupported over all action words / closes / percentages up to the
depth bound, emits every behaviour, and the harness replays each on the REAL combinators wrapped around
scripted stub strategies (model -> code).  Random long words on the real combinators, and the real
MACD-RSI strategy next to its own MACD and RSI sub-strategies, are logged and validated by TLC against
the specification (code -> model, CombinatorsTrace.tla)."""
import json
import os
import shutil
import time

import vlib

PID = "C07"


def cfg(k, closes, num, den, depth, emit):
    s = "CONSTANTS K = %d Closes = {%s} Num = %d Den = %d Depth = %d\nSPECIFICATION Spec\nCHECK_DEADLOCK FALSE\n" % (
        k, ",".join(str(c) for c in closes), num, den, depth)
    if emit:
        s += "INVARIANTS Emit\n"
    else:
        s += "INVARIANTS Repr\nPROPERTIES NoLossSafe StopLossSafe VoteSupported\n"
    return s


def tla_rec(st):
    return "[as |-> <<%s>>, c |-> %d, and |-> %d, or |-> %d, maj |-> %d, split |-> %d, inv |-> %d, mr |-> %d, nl |-> %d, sl |-> %d, nlsl |-> %d]" % (
        ", ".join(str(a) for a in st["as"]), st["c"], st["and"], st["or"], st["maj"], st["split"], st["inv"], st["mr"],
        st["nl"], st["sl"], st["nlsl"])


def main():
    t0 = time.time()
    tier = vlib.tier()
    vlib.build_harness()
    V = vlib.Verdicts(PID)
    machinery = []
    states = trans = 0
    model_viol = []
    # (1) safety properties, exhaustive to the depth bound, several percentages
    for (k, closes, num, den, depth) in ([(2, [1, 2, 3, 4], 1, 4, 3), (2, [1, 2, 3, 4], 1, 2, 3), (3, [2, 3], 0, 1, 2)] if tier == "quick" else
                                         [(2, [1, 2, 3, 4], 1, 4, 4), (2, [1, 2, 3, 4], 1, 2, 4), (2, [1, 2, 3, 4], 0, 1, 4), (3, [1, 2, 3], 1, 4, 3)]):
        r = vlib.run_tlc({"Combinators.tla": None}, "Combinators", cfg(k, closes, num, den, depth, False), workers=8,
                         timeout=3000, heap="8g")
        states += r.distinct
        trans += r.generated
        if r.violation:
            model_viol.append((k, num, den, r.violation))
    # (2) model -> code
    # K = 4 and 6: plurality and strict majority (and ties between Buy and Sell) only differ from 4 voters on
    plans = [(2, [1, 2, 3, 4], 1, 4, 3), (3, [2, 3], 1, 2, 2), (4, [2, 3], 1, 2, 1), (6, [2], 1, 2, 1)] if tier == "quick" else \
            [(2, [1, 2, 3], 1, 4, 4), (2, [1, 2, 3, 4], 1, 2, 3), (3, [2, 3], 1, 4, 3), (4, [2, 3], 1, 2, 2), (5, [2], 1, 2, 1), (6, [2], 1, 2, 1)]
    nh = 0
    checks = 0
    samples = []
    wd = vlib.scratch("verif-c07-")
    try:
        for pi, (k, closes, num, den, depth) in enumerate(plans):
            r = vlib.run_tlc({"Combinators.tla": None}, "Combinators", cfg(k, closes, num, den, depth, True), workers=1,
                             timeout=3000, heap="8g")
            states += r.distinct
            trans += r.generated
            hists = [o for t, o in r.prints if t == "HIST"]
            path = os.path.join(wd, "h%d.ndjson" % pi)
            with open(path, "w") as f:
                for h in hists:
                    f.write(json.dumps(h) + "\n")
            p = vlib.harness_cmd(["replay-comb", path, str(num), str(den)], timeout=3000)
            if p.returncode != 0:
                raise vlib.Machinery("replay-comb failed: " + p.stderr[:800])
            rep = json.loads(p.stdout)
            nh += rep["histories"]
            checks += rep["checks"]
            if hists and len(samples) < 2:
                samples.append({"K": k, "stop_loss": "%d/%d" % (num, den), "history": hists[len(hists) // 2]})
            for m in rep["mismatches"] or []:
                name = m["what"].split(" ")[0]
                V.violation({"combinator": name}, m["what"], {"K": k, "pct": [num, den], "history": hists[m["hist"]]})
        # (3) code -> model
        nt, ln, k = (20, 30, 3) if tier == "quick" else (150, 40, 3)
        p = vlib.harness_cmd(["drive-comb", str(vlib.seed()), str(nt), str(ln), str(k), "1", "4"], timeout=1200)
        if p.returncode != 0:
            raise vlib.Machinery("drive-comb failed: " + p.stderr[:800])
        traces = []
        for line in p.stdout.splitlines():
            o = json.loads(line)
            if "error" in o:
                V.violation({"combinator": "length"}, o["error"], o)
            else:
                traces.append(o)
        def data(ts):
            return "---- MODULE TraceData ----\nEXTENDS Integers\nTraceData == <<\n" + ",\n".join(
                "<<" + ", ".join(tla_rec(s) for s in t["steps"]) + ">>" for t in ts) + "\n>>\n====\n"
        tcfg = ("CONSTANTS K = %d Closes = {1} Num = 1 Den = 4 Depth = 0\nINIT TraceInit\nNEXT TraceNext\n"
                "INVARIANTS Accepted\nCHECK_DEADLOCK FALSE\n" % k)
        # binding self-test: copies of the first traces with one combinator output altered in the middle must be rejected
        import copy
        corrupt = []
        for t in traces[:3]:
            if t["kind"] != "macdrsi" and len(t["steps"]) >= 4:
                for field in ("and", "split", "nl"):
                    c = copy.deepcopy(t)
                    st = c["steps"][len(c["steps"]) // 2]
                    st[field] = 1 if st[field] != 1 else -1
                    corrupt.append(c)
        nreal_tr = len(traces)
        r = vlib.run_tlc({"Combinators.tla": None, "CombinatorsTrace.tla": None, "TraceData.tla": data(traces + corrupt)},
                         "CombinatorsTrace", tcfg, workers=1, timeout=1800, heap="4g")
        states += r.distinct
        trans += r.generated
        acc = {o["tr"] for t, o in r.prints if t == "ACC"}
        if any((nreal_tr + 1 + i) in acc for i in range(len(corrupt))):
            raise vlib.Machinery("CombinatorsTrace accepts a corrupted trace: the trace specification binds nothing")
        rejected_corrupt = len(corrupt)
        for i, t in enumerate(traces):
            if (i + 1) not in acc:
                # find how far it got: rerun that trace alone with progress output
                r1 = vlib.run_tlc({"Combinators.tla": None, "CombinatorsTrace.tla": None, "TraceData.tla": data([t])}, "CombinatorsTrace",
                                  tcfg.replace("INVARIANTS Accepted", "INVARIANTS Accepted Progress"), workers=1, timeout=600)
                at = max([o["l"] for tg, o in r1.prints if tg == "AT"] or [0])
                st = t["steps"][at - 1] if 0 < at <= len(t["steps"]) else None
                V.violation({"combinator": t["kind"], "symptom": "trace-rejected"},
                            "a recorded execution of the real %s is not a behaviour of spec/Combinators.tla: rejected at snapshot %d: %s"
                            % ("MACD-RSI strategy" if t["kind"] == "macdrsi" else "combinators on random words", at - 1, st),
                            {"trace": t, "rejected_at": at - 1})
        ntr = len(traces)
    finally:
        shutil.rmtree(wd, ignore_errors=True)
    if model_viol and not V.new:
        machinery.append("spec/Combinators.tla: %s violated in the model but the real code agrees with the emitted behaviours: "
                         "the safety property or the model is wrong" % model_viol)
    rc = V.finish()
    for m in machinery:
        print("MACHINERY: " + m)
    vlib.write_evidence(PID, "model_checking", {
        "states": states, "transitions": trans, "traces_validated_against_impl": nh + ntr,
        "samples": samples or [{"note": "none"}], "evaluations": checks, "distinct_nontrivial": nh,
        "rule": "model->code: every word of (sub-actions, close) steps up to the depth bound for K=2..6 wrapped strategies, "
                "replayed on the real And/Or/Majority/Split/Inverse/NoLoss/StopLoss/NoLoss(StopLoss) around scripted stubs; "
                "code->model: %d random words of length %d and %d MACD-RSI runs validated by TLC; every history is non-trivial "
                "(each step changes some standing recommendation or position)" % (nt, ln, nt),
        "exhaustive": True, "model_violations": model_viol, "corrupted_traces_rejected": rejected_corrupt, "known_findings_hit": V.hit}, time.time() - t0, len(V.new),
        assumptions=["stub strategies replay a word position by position (they consume every snapshot)",
                     "closes on an integer lattice and dyadic percentages make the threshold arithmetic exact"])
    if rc == 0 and machinery:
        return 2
    return rc


if __name__ == "__main__":
    vlib.main_wrapper(main)
