//go:build verif

package main

import (
	"bufio"
	"encoding/json"
	"fmt"
	"math"
	"os"

	"github.com/cinar/indicator/v2/asset"
	"github.com/cinar/indicator/v2/helper"
	"github.com/cinar/indicator/v2/strategy"
)

// Replays the histories TLC generates from spec/Actions.tla on the real strategy.Outcome,
// NormalizeActions, DenormalizeActions, CountTransactions and ComputeWithOutcome(BuyAndHold).

type actStep struct {
	A   int  `json:"a"`
	P   int  `json:"p"`
	W   int  `json:"w"`
	Inv bool `json:"inv"`
	Na  int  `json:"na"`
	Da  int  `json:"da"`
	N2  int  `json:"n2"`
	Tr  int  `json:"tr"`
}

func actsChan(as []strategy.Action) <-chan strategy.Action { return helper.SliceToChan(as) }

func replayActionsMain(args []string) {
	f, err := os.Open(args[0])
	if err != nil {
		fmt.Fprintln(os.Stderr, err)
		os.Exit(3)
	}
	defer f.Close()
	sc := bufio.NewScanner(f)
	sc.Buffer(make([]byte, 1<<20), 1<<26)
	type mm struct {
		Hist int    `json:"hist"`
		What string `json:"what"`
	}
	var out []mm
	nh, checks := 0, 0
	bad := func(h int, format string, a ...any) {
		if len(out) < 200 {
			out = append(out, mm{h, fmt.Sprintf(format, a...)})
		}
	}
	for sc.Scan() {
		var steps []actStep
		if err := json.Unmarshal(sc.Bytes(), &steps); err != nil {
			fmt.Fprintln(os.Stderr, "bad history:", err)
			os.Exit(3)
		}
		n := len(steps)
		prices := make([]float64, n)
		acts := make([]strategy.Action, n)
		for i, s := range steps {
			prices[i] = math.Ldexp(1, s.P)
			acts[i] = strategy.Action(s.A)
		}
		// Outcome
		oc := helper.ChanToSlice(strategy.Outcome(helper.SliceToChan(prices), actsChan(acts)))
		checks++
		if len(oc) != n {
			bad(nh, "Outcome yields %d entries for %d (value, action) pairs", len(oc), n)
		} else {
			for i, s := range steps {
				want := math.Ldexp(1, s.W) - 1
				checks++
				if math.Float64bits(oc[i]) != math.Float64bits(want) {
					bad(nh, "Outcome[%d] = %v, portfolio simulation says %v (prices %v actions %v)", i, oc[i], want, prices, acts)
					break
				}
			}
		}
		// the relative gain does not depend on the price unit: the same word with every price multiplied by 2^off (an asset
		// quoted in millions, or in millionths) has bit for bit the same outcome - still exact on the lattice
		for _, off := range []int{40, -40, 200, -200} {
			sp := make([]float64, n)
			for i, s := range steps {
				sp[i] = math.Ldexp(1, s.P+off)
			}
			os2 := helper.ChanToSlice(strategy.Outcome(helper.SliceToChan(sp), actsChan(acts)))
			checks++
			if len(os2) != n {
				bad(nh, "Outcome yields %d entries for %d (value, action) pairs (prices x 2^%d)", len(os2), n, off)
				continue
			}
			for i, s := range steps {
				want := math.Ldexp(1, s.W) - 1
				if math.Float64bits(os2[i]) != math.Float64bits(want) {
					bad(nh, "Outcome[%d] = %v, portfolio simulation says %v (prices %v actions %v)", i, os2[i], want, sp, acts)
					break
				}
			}
		}
		// one entry per pair: the shorter stream decides
		if n >= 2 {
			o2 := helper.ChanToSlice(strategy.Outcome(helper.SliceToChan(prices), actsChan(acts[:n-1])))
			o3 := helper.ChanToSlice(strategy.Outcome(helper.SliceToChan(prices[:n-1]), actsChan(acts)))
			checks += 2
			if len(o2) != n-1 || len(o3) != n-1 {
				bad(nh, "Outcome on streams of %d and %d elements yields %d / %d entries", n, n-1, len(o2), len(o3))
			}
		}
		// Normalize / Denormalize / Normalize
		na := helper.ChanToSlice(strategy.NormalizeActions(actsChan(acts)))
		da := helper.ChanToSlice(strategy.DenormalizeActions(actsChan(na)))
		n2 := helper.ChanToSlice(strategy.NormalizeActions(actsChan(da)))
		tr := helper.ChanToSlice(strategy.CountTransactions(actsChan(acts)))
		if len(na) != n || len(da) != n || len(n2) != n || len(tr) != n {
			bad(nh, "Normalize/Denormalize/CountTransactions change the length: %d %d %d %d for %d", len(na), len(da), len(n2), len(tr), n)
		} else {
			for i, s := range steps {
				checks += 4
				if int(na[i]) != s.Na {
					bad(nh, "NormalizeActions[%d] = %d, model %d (actions %v)", i, na[i], s.Na, acts)
					break
				}
				if int(da[i]) != s.Da {
					bad(nh, "DenormalizeActions[%d] = %d, model %d (normalised %v)", i, da[i], s.Da, na)
					break
				}
				if int(n2[i]) != s.N2 {
					bad(nh, "Normalize(Denormalize(Normalize))[%d] = %d, model %d", i, n2[i], s.N2)
					break
				}
				if tr[i] != s.Tr {
					bad(nh, "CountTransactions[%d] = %d, model %d (actions %v)", i, tr[i], s.Tr, acts)
					break
				}
			}
		}
		// outcome of the normalised stream is the same, bit for bit
		on := helper.ChanToSlice(strategy.Outcome(helper.SliceToChan(prices), actsChan(na)))
		checks++
		for i := range oc {
			if i < len(on) && math.Float64bits(oc[i]) != math.Float64bits(on[i]) {
				bad(nh, "Outcome of the normalised actions differs at %d: %v vs %v", i, on[i], oc[i])
				break
			}
		}
		// the same relations on arbitrary positive prices (not on the lattice)
		gp := make([]float64, n)
		for i := range gp {
			gp[i] = 1 + 99*unit(uint64(nh)+17, 3, i)
		}
		og := helper.ChanToSlice(strategy.Outcome(helper.SliceToChan(gp), actsChan(acts)))
		ogn := helper.ChanToSlice(strategy.Outcome(helper.SliceToChan(gp), actsChan(na)))
		boughtYet := false
		for i := range og {
			checks += 3
			if og[i] < -1 {
				bad(nh, "Outcome[%d] = %v is below -100%%", i, og[i])
			}
			if acts[i] == strategy.Buy {
				boughtYet = true
			}
			if !boughtYet && og[i] != 0 {
				bad(nh, "Outcome[%d] = %v before the first Buy", i, og[i])
			}
			if i < len(ogn) && math.Float64bits(og[i]) != math.Float64bits(ogn[i]) {
				bad(nh, "generic prices: outcome of the normalised actions differs at %d: %v vs %v", i, ogn[i], og[i])
				break
			}
		}
		// buy and hold through ComputeWithOutcome: value_i / value_0 - 1
		snaps := make([]*asset.Snapshot, n)
		for i := range snaps {
			snaps[i] = &asset.Snapshot{Date: day0.AddDate(0, 0, i), Close: prices[i], Open: prices[i], High: prices[i], Low: prices[i]}
		}
		ba, bo := strategy.ComputeWithOutcome(strategy.NewBuyAndHoldStrategy(), helper.SliceToChan(snaps))
		go helper.Drain(ba)
		bos := helper.ChanToSlice(bo)
		checks++
		if len(bos) != n {
			bad(nh, "ComputeWithOutcome(BuyAndHold) yields %d outcomes for %d snapshots", len(bos), n)
		} else {
			for i := range bos {
				want := math.Ldexp(1, steps[i].P-steps[0].P) - 1
				if math.Float64bits(bos[i]) != math.Float64bits(want) {
					bad(nh, "buy and hold outcome[%d] = %v, value_i/value_0 - 1 = %v", i, bos[i], want)
					break
				}
			}
		}
		nh++
	}
	b, _ := json.Marshal(map[string]any{"histories": nh, "checks": checks, "mismatches": out})
	fmt.Println(string(b))
}

func init() { extraCmds["replay-actions"] = replayActionsMain }
