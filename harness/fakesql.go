//go:build verif

package main

import (
	"database/sql"
	"database/sql/driver"
	"errors"
	"io"
	"sort"
	"sync"
	"time"
)

// A conforming in-process database/sql driver for asset.SQLRepository: the repository ships no dialect,
// so the harness supplies one whose statements this driver interprets against an in-memory table.
// An optional gate lets the harness hold back row insertion to observe whether Append returns before
// its rows are written.

type fakeRow struct {
	name string
	date time.Time
	vals [5]float64
}

type fakeDB struct {
	mu      sync.Mutex
	rows    []fakeRow
	created bool
	gate    chan struct{} // nil = open
	waiting int           // inserts currently held at the gate
	failAll bool
}

var (
	fakeDBs   = map[string]*fakeDB{}
	fakeDBsMu sync.Mutex
)

func getFakeDB(name string) *fakeDB {
	fakeDBsMu.Lock()
	defer fakeDBsMu.Unlock()
	db, ok := fakeDBs[name]
	if !ok {
		db = &fakeDB{}
		fakeDBs[name] = db
	}
	return db
}

func dropFakeDB(name string) {
	fakeDBsMu.Lock()
	defer fakeDBsMu.Unlock()
	delete(fakeDBs, name)
}

type fakeDriver struct{}

func (fakeDriver) Open(name string) (driver.Conn, error) { return &fakeConn{db: getFakeDB(name)}, nil }

type fakeConn struct{ db *fakeDB }

func (c *fakeConn) Prepare(q string) (driver.Stmt, error) { return &fakeStmt{db: c.db, q: q}, nil }
func (c *fakeConn) Close() error                          { return nil }
func (c *fakeConn) Begin() (driver.Tx, error)             { return nil, errors.New("no transactions") }

type fakeStmt struct {
	db *fakeDB
	q  string
}

func (s *fakeStmt) Close() error { return nil }
func (s *fakeStmt) NumInput() int {
	switch s.q {
	case "GETSINCE":
		return 2
	case "LASTDATE":
		return 1
	case "APPEND":
		return 7
	}
	return 0
}

func (s *fakeStmt) Exec(args []driver.Value) (driver.Result, error) {
	switch s.q {
	case "CREATE":
		s.db.mu.Lock()
		s.db.created = true
		s.db.mu.Unlock()
		return driver.RowsAffected(0), nil
	case "DROP":
		s.db.mu.Lock()
		s.db.rows = nil
		s.db.mu.Unlock()
		return driver.RowsAffected(0), nil
	case "APPEND":
		s.db.mu.Lock()
		g := s.db.gate
		if g != nil {
			s.db.waiting++
		}
		s.db.mu.Unlock()
		if g != nil {
			<-g
			s.db.mu.Lock()
			s.db.waiting--
			s.db.mu.Unlock()
		}
		s.db.mu.Lock()
		defer s.db.mu.Unlock()
		if s.db.failAll {
			return nil, errors.New("insert failed")
		}
		r := fakeRow{name: args[0].(string), date: args[1].(time.Time)}
		for i := 0; i < 5; i++ {
			r.vals[i] = args[2+i].(float64)
		}
		s.db.rows = append(s.db.rows, r)
		return driver.RowsAffected(1), nil
	}
	return nil, errors.New("unknown statement " + s.q)
}

func (s *fakeStmt) Query(args []driver.Value) (driver.Rows, error) {
	s.db.mu.Lock()
	defer s.db.mu.Unlock()
	switch s.q {
	case "ASSETS":
		seen := map[string]bool{}
		var names []string
		for _, r := range s.db.rows {
			if !seen[r.name] {
				seen[r.name] = true
				names = append(names, r.name)
			}
		}
		sort.Strings(names)
		rows := &fakeRows{cols: []string{"name"}}
		for _, n := range names {
			rows.data = append(rows.data, []driver.Value{n})
		}
		return rows, nil
	case "GETSINCE":
		name := args[0].(string)
		date := args[1].(time.Time)
		var sel []fakeRow
		for _, r := range s.db.rows {
			if r.name == name && !r.date.Before(date) {
				sel = append(sel, r)
			}
		}
		sort.SliceStable(sel, func(i, j int) bool { return sel[i].date.Before(sel[j].date) })
		rows := &fakeRows{cols: []string{"date", "open", "high", "low", "close", "volume"}}
		for _, r := range sel {
			rows.data = append(rows.data, []driver.Value{r.date, r.vals[0], r.vals[1], r.vals[2], r.vals[3], r.vals[4]})
		}
		return rows, nil
	case "LASTDATE":
		name := args[0].(string)
		var last time.Time
		found := false
		for _, r := range s.db.rows {
			if r.name == name && (!found || r.date.After(last)) {
				last = r.date
				found = true
			}
		}
		rows := &fakeRows{cols: []string{"date"}}
		if found {
			rows.data = append(rows.data, []driver.Value{last})
		}
		return rows, nil
	}
	return nil, errors.New("unknown query " + s.q)
}

type fakeRows struct {
	cols []string
	data [][]driver.Value
	i    int
}

func (r *fakeRows) Columns() []string { return r.cols }
func (r *fakeRows) Close() error      { return nil }
func (r *fakeRows) Next(dest []driver.Value) error {
	if r.i >= len(r.data) {
		return io.EOF
	}
	copy(dest, r.data[r.i])
	r.i++
	return nil
}

type fakeDialect struct{}

func (fakeDialect) CreateTable() string { return "CREATE" }
func (fakeDialect) DropTable() string   { return "DROP" }
func (fakeDialect) Assets() string      { return "ASSETS" }
func (fakeDialect) GetSince() string    { return "GETSINCE" }
func (fakeDialect) LastDate() string    { return "LASTDATE" }
func (fakeDialect) Append() string      { return "APPEND" }

func init() { sql.Register("veriffake", fakeDriver{}) }
