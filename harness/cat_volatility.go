//go:build verif

package main

import (
	"github.com/cinar/indicator/v2/trend"
	"github.com/cinar/indicator/v2/volatility"
)

// Catalogue of the volatility package: one entry per type with a Compute method (12 types), plus
// the moving-average variants of Atr (NewAtrWithMa) and SuperTrend (NewSuperTrendWithMa).
// Every type of the package has an IdlePeriod method.

// atrPipe builds an Atr entry over the given moving average (NewAtrWithMa).
func atrPipe(name string, def int, ma func(period int) trend.Ma[float64]) Pipe {
	return Pipe{Name: name, Class: "indicator", Inputs: ins("high", "low", "close"), Params: ps("period"), Default: cfgOf(def),
		Make: func(cfg []int) Inst {
			x := volatility.NewAtrWithMa[float64](ma(cfg[0]))
			return Inst{Idle: x.IdlePeriod, Compute: func(in []<-chan float64) []Out { return outs(x.Compute(in[0], in[1], in[2])) }}
		}}
}

// superTrendPipe builds a SuperTrend entry over the given moving average (NewSuperTrendWithMa) with the default multiplier.
func superTrendPipe(name string, def int, ma func(period int) trend.Ma[float64]) Pipe {
	return Pipe{Name: name, Class: "indicator", Inputs: ins("high", "low", "close"), Params: ps("period"), Default: cfgOf(def),
		Make: func(cfg []int) Inst {
			x := volatility.NewSuperTrendWithMa[float64](ma(cfg[0]), volatility.DefaultSuperTrendMultiplier)
			return Inst{Idle: x.IdlePeriod, Compute: func(in []<-chan float64) []Out { return outs(x.Compute(in[0], in[1], in[2])) }}
		}}
}

func init() {
	register(
		// AccelerationBands: outputs upper, middle, lower.
		Pipe{Name: "volatility.AccelerationBands", Class: "indicator", Inputs: ins("high", "low", "close"), Params: ps("period"),
			Default: cfgOf(volatility.DefaultAccelerationBandsPeriod),
			Make: func(cfg []int) Inst {
				x := volatility.NewAccelerationBands[float64]()
				x.Period = cfg[0]
				return Inst{Idle: x.IdlePeriod, Compute: func(in []<-chan float64) []Out {
					a, b, c := x.Compute(in[0], in[1], in[2])
					return outs(a, b, c)
				}}
			}},
		// Atr: "By default, SMA is used as the MA" (NewAtrWithPeriod).
		Pipe{Name: "volatility.Atr", Class: "indicator", Inputs: ins("high", "low", "close"), Params: ps("period"),
			Default: cfgOf(volatility.DefaultAtrPeriod),
			Make: func(cfg []int) Inst {
				x := volatility.NewAtrWithPeriod[float64](cfg[0])
				return Inst{Idle: x.IdlePeriod, Compute: func(in []<-chan float64) []Out { return outs(x.Compute(in[0], in[1], in[2])) }}
			}},
		// Atr over other moving averages (NewAtrWithMa).
		atrPipe("volatility.Atr/Ema", volatility.DefaultAtrPeriod, func(p int) trend.Ma[float64] { return trend.NewEmaWithPeriod[float64](p) }),
		atrPipe("volatility.Atr/Smma", volatility.DefaultAtrPeriod, func(p int) trend.Ma[float64] { return trend.NewSmmaWithPeriod[float64](p) }),
		atrPipe("volatility.Atr/Wma", volatility.DefaultAtrPeriod, func(p int) trend.Ma[float64] { return trend.NewWmaWith[float64](p) }),
		atrPipe("volatility.Atr/Hma", volatility.DefaultAtrPeriod, func(p int) trend.Ma[float64] { return trend.NewHmaWithPeriod[float64](p) }),
		// BollingerBandWidth: no period constructor; the nested BollingerBands period is assigned.
		Pipe{Name: "volatility.BollingerBandWidth", Class: "indicator", Inputs: in1("c"), Params: ps("period"),
			Default: cfgOf(volatility.DefaultBollingerBandsPeriod),
			Make: func(cfg []int) Inst {
				x := volatility.NewBollingerBandWidth[float64]()
				x.BollingerBands.Period = cfg[0]
				return Inst{Idle: x.IdlePeriod, Compute: func(in []<-chan float64) []Out { return outs(x.Compute(in[0])) }}
			}},
		// BollingerBands: outputs upper, middle, lower.
		Pipe{Name: "volatility.BollingerBands", Class: "indicator", Inputs: in1("c"), Params: ps("period"),
			Default: cfgOf(volatility.DefaultBollingerBandsPeriod),
			Make: func(cfg []int) Inst {
				x := volatility.NewBollingerBandsWithPeriod[float64](cfg[0])
				return Inst{Idle: x.IdlePeriod, Compute: func(in []<-chan float64) []Out {
					a, b, c := x.Compute(in[0])
					return outs(a, b, c)
				}}
			}},
		// ChandelierExit: outputs long, short.  The multiplier (3) is not a period.
		Pipe{Name: "volatility.ChandelierExit", Class: "indicator", Inputs: ins("high", "low", "close"), Params: ps("period"),
			Default: cfgOf(volatility.DefaultChandelierExitPeriod),
			Make: func(cfg []int) Inst {
				x := volatility.NewChandelierExit[float64]()
				x.Period = cfg[0]
				return Inst{Idle: x.IdlePeriod, Compute: func(in []<-chan float64) []Out {
					a, b := x.Compute(in[0], in[1], in[2])
					return outs(a, b)
				}}
			}},
		// DonchianChannel: outputs upper, middle, lower.  NewDonchianChannelWithPeriod sets Max and Min from one period.
		Pipe{Name: "volatility.DonchianChannel", Class: "indicator", Inputs: in1("c"), Params: ps("period"),
			Default: cfgOf(volatility.DefaultDonchianChannelPeriod),
			Make: func(cfg []int) Inst {
				x := volatility.NewDonchianChannelWithPeriod[float64](cfg[0])
				return Inst{Idle: x.IdlePeriod, Compute: func(in []<-chan float64) []Out {
					a, b, c := x.Compute(in[0])
					return outs(a, b, c)
				}}
			}},
		// KeltnerChannel: outputs upper, middle, lower.  NewKeltnerChannelWithPeriod sets the ATR (SMA) and EMA
		// periods from one period; it is the only constructor variant the library offers.
		Pipe{Name: "volatility.KeltnerChannel", Class: "indicator", Inputs: ins("high", "low", "close"), Params: ps("period"),
			Default: cfgOf(volatility.DefaultKeltnerChannelPeriod),
			Make: func(cfg []int) Inst {
				x := volatility.NewKeltnerChannelWithPeriod[float64](cfg[0])
				return Inst{Idle: x.IdlePeriod, Compute: func(in []<-chan float64) []Out {
					a, b, c := x.Compute(in[0], in[1], in[2])
					return outs(a, b, c)
				}}
			}},
		// the two periods set through the exported fields; Compute aligns the EMA to the ATR by skipping
		// Atr.IdlePeriod()-Ema.IdlePeriod() values, which is defined up to an EMA period of ATR period + 1
		Pipe{Name: "volatility.KeltnerChannel/fields", Class: "indicator", Inputs: ins("high", "low", "close"), Params: ps("atr", "ema"),
			Default: cfgOf(volatility.DefaultKeltnerChannelPeriod, volatility.DefaultKeltnerChannelPeriod),
			Valid:   func(c []int) bool { return c[1] <= c[0]+1 },
			Make: func(cfg []int) Inst {
				x := volatility.NewKeltnerChannel[float64]()
				x.Atr = volatility.NewAtrWithPeriod[float64](cfg[0])
				x.Ema = trend.NewEmaWithPeriod[float64](cfg[1])
				return Inst{Idle: x.IdlePeriod, Compute: func(in []<-chan float64) []Out {
					a, b, c := x.Compute(in[0], in[1], in[2])
					return outs(a, b, c)
				}}
			}},
		Pipe{Name: "volatility.MovingStd", Class: "indicator", Inputs: in1("c"), Params: ps("period"),
			Default: cfgOf(volatility.DefaultMovingStdPeriod),
			Make: func(cfg []int) Inst {
				x := volatility.NewMovingStdWithPeriod[float64](cfg[0])
				return Inst{Idle: x.IdlePeriod, Compute: func(in []<-chan float64) []Out { return outs(x.Compute(in[0])) }}
			}},
		Pipe{Name: "volatility.PercentB", Class: "indicator", Inputs: in1("close"), Params: ps("period"),
			Default: cfgOf(volatility.DefaultBollingerBandsPeriod),
			Make: func(cfg []int) Inst {
				x := volatility.NewPercentBWithPeriod[float64](cfg[0])
				return Inst{Idle: x.IdlePeriod, Compute: func(in []<-chan float64) []Out { return outs(x.Compute(in[0])) }}
			}},
		// Po: the nested Mls / MovingMin / MovingMax are unexported and set from one period.
		Pipe{Name: "volatility.Po", Class: "indicator", Inputs: ins("high", "low", "close"), Params: ps("period"),
			Default: cfgOf(volatility.DefaultPoPeriod),
			Make: func(cfg []int) Inst {
				x := volatility.NewPoWithPeriod[float64](cfg[0])
				return Inst{Idle: x.IdlePeriod, Compute: func(in []<-chan float64) []Out { return outs(x.Compute(in[0], in[1], in[2])) }}
			}},
		// SuperTrend: NewSuperTrendWithPeriod uses an ATR over HMA(period); the multiplier (2.5) is not a period.
		Pipe{Name: "volatility.SuperTrend", Class: "indicator", Inputs: ins("high", "low", "close"), Params: ps("period"),
			Default: cfgOf(volatility.DefaultSuperTrendPeriod),
			Make: func(cfg []int) Inst {
				x := volatility.NewSuperTrendWithPeriod[float64](cfg[0], volatility.DefaultSuperTrendMultiplier)
				return Inst{Idle: x.IdlePeriod, Compute: func(in []<-chan float64) []Out { return outs(x.Compute(in[0], in[1], in[2])) }}
			}},
		// SuperTrend over other moving averages (NewSuperTrendWithMa).
		superTrendPipe("volatility.SuperTrend/Sma", volatility.DefaultSuperTrendPeriod, func(p int) trend.Ma[float64] { return trend.NewSmaWithPeriod[float64](p) }),
		superTrendPipe("volatility.SuperTrend/Ema", volatility.DefaultSuperTrendPeriod, func(p int) trend.Ma[float64] { return trend.NewEmaWithPeriod[float64](p) }),
		Pipe{Name: "volatility.UlcerIndex", Class: "indicator", Inputs: in1("close"), Params: ps("period"),
			Default: cfgOf(volatility.DefaultUlcerIndexPeriod),
			Make: func(cfg []int) Inst {
				x := volatility.NewUlcerIndex[float64]()
				x.Period = cfg[0]
				return Inst{Idle: x.IdlePeriod, Compute: func(in []<-chan float64) []Out { return outs(x.Compute(in[0])) }}
			}},
	)
}
