//go:build verif

package main

// rules-trace: an oracle for the decision rules of the base strategies that is independent of each
// strategy's Compute method.  For a strategy instance and a deterministic snapshot series it prints,
// position by position, the documented quantities (the documented indicator computed by a FRESH
// instance of the library's own indicator type from the documented snapshot fields) next to the
// action the real strategy emitted at that position.
//
// Which indicator, which fields and which quantities are taken from the documentation (type doc of
// the strategy, doc of the wrapped indicator, README.md); the strategy value is only inspected to
// reach the configured periods / thresholds.  The documented rules themselves live in
// /verif/spec/rules_documented.json - this file only produces the quantities.
//
// Alignment: an indicator with IdlePeriod w yields its k-th value for snapshot k+w.  Indicators
// without an IdlePeriod method (Apo, Aroon, Bop) use the warm-up their documented formula implies.
// When the number of values an indicator produced differs from n-w a "warn" entry is added.

import (
	"bufio"
	"encoding/json"
	"fmt"
	"math"
	"os"
	"strconv"
	"strings"
	"sync"

	"github.com/cinar/indicator/v2/asset"
	"github.com/cinar/indicator/v2/helper"
	"github.com/cinar/indicator/v2/momentum"
	"github.com/cinar/indicator/v2/strategy"
	smomentum "github.com/cinar/indicator/v2/strategy/momentum"
	strend "github.com/cinar/indicator/v2/strategy/trend"
	svolatility "github.com/cinar/indicator/v2/strategy/volatility"
	svolume "github.com/cinar/indicator/v2/strategy/volume"
	"github.com/cinar/indicator/v2/trend"
	"github.com/cinar/indicator/v2/volatility"
	"github.com/cinar/indicator/v2/volume"
)

func init() {
	extraCmds["rules-trace"] = rulesTraceMain
}

type rulesReq struct {
	Strategy string `json:"strategy"`
	Cfg      []int  `json:"cfg"`
	Seed     uint64 `json:"seed"`
	N        int    `json:"n"`
	// VolumeScale multiplies every volume (0 = 1): fractional quantities (volumes below one unit) are legitimate data
	VolumeScale float64 `json:"volume_scale,omitempty"`
}

type rulesRow struct {
	I      int                `json:"i"`
	Q      map[string]float64 `json:"q"`
	Action int                `json:"action"`
}

type rulesOut struct {
	Strategy string             `json:"strategy"`
	Cfg      []int              `json:"cfg"`
	Seed     uint64             `json:"seed"`
	N        int                `json:"n"`
	Actions  int                `json:"actions"` // number of actions the strategy emitted
	Consts   map[string]float64 `json:"consts"`
	Warmup   map[string]int     `json:"warmup"` // first snapshot index at which each quantity is defined
	Warn     []string           `json:"warn,omitempty"`
	Skipped  int                `json:"skipped_nonfinite,omitempty"`
	Rows     []rulesRow         `json:"rows"`
}

type rulesErr struct {
	Strategy string `json:"strategy"`
	Error    string `json:"error"`
}

// qSeries is one documented quantity: v[k] is its value at snapshot k+w.
type qSeries struct {
	name string
	w    int
	v    []float64
	prev bool // the rule also needs the value at the previous snapshot ("prev_"+name)
}

func (s qSeries) at(i int) (float64, bool) {
	k := i - s.w
	if k < 0 || k >= len(s.v) {
		return 0, false
	}
	return s.v[k], true
}

// rulesBars holds the snapshot fields as slices.
type rulesBars struct {
	n                   int
	open, high, low     []float64
	closing, volumeData []float64
}

func barsOf(snaps []*asset.Snapshot) rulesBars {
	b := rulesBars{n: len(snaps)}
	for _, s := range snaps {
		b.open = append(b.open, s.Open)
		b.high = append(b.high, s.High)
		b.low = append(b.low, s.Low)
		b.closing = append(b.closing, s.Close)
		b.volumeData = append(b.volumeData, s.Volume)
	}
	return b
}

func ch(v []float64) <-chan float64 { return helper.SliceToChan(v) }

// collect drains all channels concurrently.
func collect(cs ...<-chan float64) [][]float64 {
	out := make([][]float64, len(cs))
	var wg sync.WaitGroup
	for i, c := range cs {
		wg.Add(1)
		go func(i int, c <-chan float64) {
			defer wg.Done()
			out[i] = helper.ChanToSlice(c)
		}(i, c)
	}
	wg.Wait()
	return out
}

func collect1(c <-chan float64) []float64 { return collect(c)[0] }

// freshMa builds a new moving average of the same kind and period as ma.
func freshMa(ma trend.Ma[float64]) trend.Ma[float64] {
	switch m := ma.(type) {
	case *trend.Sma[float64]:
		return trend.NewSmaWithPeriod[float64](m.Period)
	case *trend.Ema[float64]:
		e := trend.NewEmaWithPeriod[float64](m.Period)
		e.Smoothing = m.Smoothing
		return e
	case *trend.Smma[float64]:
		return trend.NewSmmaWithPeriod[float64](m.Period)
	case *trend.Wma[float64]:
		return trend.NewWmaWith[float64](m.Period)
	case *trend.Hma[float64]:
		// the period is not exported; String() is "HMA(<period>)"
		s := m.String()
		if strings.HasPrefix(s, "HMA(") && strings.HasSuffix(s, ")") {
			if p, err := strconv.Atoi(s[4 : len(s)-1]); err == nil {
				return trend.NewHmaWithPeriod[float64](p)
			}
		}
	}
	return ma // configuration-only value of an unknown kind: reuse
}

func freshEma(e *trend.Ema[float64]) *trend.Ema[float64] {
	f := trend.NewEmaWithPeriod[float64](e.Period)
	f.Smoothing = e.Smoothing
	return f
}

// rulesQuantities computes the documented quantities and constants of a strategy instance.
func rulesQuantities(strat any, b rulesBars) (series []qSeries, consts map[string]float64, err error) {
	consts = map[string]float64{}
	closeSeries := qSeries{name: "close", w: 0, v: b.closing}

	switch s := strat.(type) {
	case *strategy.BuyAndHoldStrategy:
		// no quantities

	// ------------------------------------------------------------------ strategy/trend
	case *strend.AlligatorStrategy:
		// three Smoothed Moving Averages of the closing: Jaw slowest, Teeth medium, Lip fastest
		jaw := trend.NewSmmaWithPeriod[float64](s.Jaw.Period)
		teeth := trend.NewSmmaWithPeriod[float64](s.Teeth.Period)
		lip := trend.NewSmmaWithPeriod[float64](s.Lip.Period)
		series = []qSeries{
			{name: "jaw", w: jaw.IdlePeriod(), v: collect1(jaw.Compute(ch(b.closing)))},
			{name: "teeth", w: teeth.IdlePeriod(), v: collect1(teeth.Compute(ch(b.closing)))},
			{name: "lip", w: lip.IdlePeriod(), v: collect1(lip.Compute(ch(b.closing)))},
		}

	case *strend.ApoStrategy:
		// APO = Ema(values, fastPeriod) - Ema(values, slowPeriod) of the closing
		apo := trend.NewApo[float64]()
		apo.FastPeriod, apo.FastSmoothing = s.Apo.FastPeriod, s.Apo.FastSmoothing
		apo.SlowPeriod, apo.SlowSmoothing = s.Apo.SlowPeriod, s.Apo.SlowSmoothing
		// Apo has no IdlePeriod: the documented formula needs both EMAs (Ema idle = period-1)
		w := trend.NewEmaWithPeriod[float64](apo.SlowPeriod).IdlePeriod()
		if wf := trend.NewEmaWithPeriod[float64](apo.FastPeriod).IdlePeriod(); wf > w {
			w = wf
		}
		series = []qSeries{{name: "apo", w: w, v: collect1(apo.Compute(ch(b.closing)))}}

	case *strend.AroonStrategy:
		// Aroon Up from the highs, Aroon Down from the lows over Period
		a := trend.NewAroon[float64]()
		a.Period = s.Aroon.Period
		o := collect(a.Compute(ch(b.high), ch(b.low)))
		// Aroon has no IdlePeriod: "Period Since Last <Period> Period High" needs Period values
		w := a.Period - 1
		series = []qSeries{{name: "up", w: w, v: o[0]}, {name: "down", w: w, v: o[1]}}

	case *strend.BopStrategy:
		// BoP = (Closing - Opening) / (High - Low), no warm-up
		bop := trend.NewBop[float64]()
		series = []qSeries{{name: "bop", w: 0, v: collect1(bop.Compute(ch(b.open), ch(b.high), ch(b.low), ch(b.closing)))}}

	case *strend.CciStrategy:
		// CCI over the typical price (High, Low, Closing)
		cci := trend.NewCciWithPeriod[float64](s.Cci.Period)
		series = []qSeries{{name: "cci", w: cci.IdlePeriod(), v: collect1(cci.Compute(ch(b.high), ch(b.low), ch(b.closing)))}}
		consts["upper_level"] = 100
		consts["lower_level"] = -100

	case *strend.DemaStrategy:
		// Dema1 = the short ("5 days") DEMA, Dema2 = the long ("35 days") DEMA of the closing
		d1 := trend.NewDema[float64]()
		d1.Ema1, d1.Ema2 = freshEma(s.Dema1.Ema1), freshEma(s.Dema1.Ema2)
		d2 := trend.NewDema[float64]()
		d2.Ema1, d2.Ema2 = freshEma(s.Dema2.Ema1), freshEma(s.Dema2.Ema2)
		series = []qSeries{
			{name: "dema_short", w: d1.IdlePeriod(), v: collect1(d1.Compute(ch(b.closing)))},
			{name: "dema_long", w: d2.IdlePeriod(), v: collect1(d2.Compute(ch(b.closing)))},
		}

	case *strend.EnvelopeStrategy:
		env := trend.NewEnvelope[float64](freshMa(s.Envelope.Ma), s.Envelope.Percentage)
		o := collect(env.Compute(ch(b.closing))) // upper, middle, lower
		w := env.IdlePeriod()
		series = []qSeries{closeSeries, {name: "upper", w: w, v: o[0]}, {name: "lower", w: w, v: o[2]}}

	case *strend.GoldenCrossStrategy:
		fast, slow := freshEma(s.FastEma), freshEma(s.SlowEma)
		series = []qSeries{
			{name: "fast", w: fast.IdlePeriod(), v: collect1(fast.Compute(ch(b.closing)))},
			{name: "slow", w: slow.IdlePeriod(), v: collect1(slow.Compute(ch(b.closing)))},
		}

	case *strend.KamaStrategy:
		k := trend.NewKamaWith[float64](s.Kama.ErPeriod, s.Kama.FastScPeriod, s.Kama.SlowScPeriod)
		series = []qSeries{closeSeries, {name: "kama", w: k.IdlePeriod(), v: collect1(k.Compute(ch(b.closing)))}}

	case *strend.KdjStrategy:
		k := trend.NewKdj[float64]()
		k.MovingMax.Period, k.MovingMin.Period = s.Kdj.MovingMax.Period, s.Kdj.MovingMin.Period
		k.Sma1.Period, k.Sma2.Period = s.Kdj.Sma1.Period, s.Kdj.Sma2.Period
		o := collect(k.Compute(ch(b.high), ch(b.low), ch(b.closing)))
		w := k.IdlePeriod()
		series = []qSeries{{name: "k", w: w, v: o[0]}, {name: "d", w: w, v: o[1]}, {name: "j", w: w, v: o[2]}}

	case *strend.MacdStrategy:
		m := trend.NewMacdWithPeriod[float64](s.Macd.Ema1.Period, s.Macd.Ema2.Period, s.Macd.Ema3.Period)
		m.Ema1.Smoothing, m.Ema2.Smoothing, m.Ema3.Smoothing = s.Macd.Ema1.Smoothing, s.Macd.Ema2.Smoothing, s.Macd.Ema3.Smoothing
		o := collect(m.Compute(ch(b.closing))) // macd, signal
		w := m.IdlePeriod()
		// the two outputs may have different lengths: align both at the tail of the series they
		// belong to via the declared idle period, checked below by the length warning
		series = []qSeries{{name: "macd", w: w, v: o[0]}, {name: "signal", w: w, v: o[1]}}

	case *strend.QstickStrategy:
		q := momentum.NewQstick[float64]()
		q.Sma.Period = s.Qstick.Sma.Period
		series = []qSeries{{name: "qstick", w: q.IdlePeriod(), v: collect1(q.Compute(ch(b.open), ch(b.closing))), prev: true}}

	case *strend.SmmaStrategy:
		sh := trend.NewSmmaWithPeriod[float64](s.ShortSmma.Period)
		lo := trend.NewSmmaWithPeriod[float64](s.LongSmma.Period)
		series = []qSeries{
			{name: "short", w: sh.IdlePeriod(), v: collect1(sh.Compute(ch(b.closing)))},
			{name: "long", w: lo.IdlePeriod(), v: collect1(lo.Compute(ch(b.closing)))},
		}

	case *strend.TrimaStrategy:
		sh := trend.NewTrima[float64]()
		sh.Period = s.Short.Period
		lo := trend.NewTrima[float64]()
		lo.Period = s.Long.Period
		series = []qSeries{
			{name: "short", w: sh.IdlePeriod(), v: collect1(sh.Compute(ch(b.closing)))},
			{name: "long", w: lo.IdlePeriod(), v: collect1(lo.Compute(ch(b.closing)))},
		}

	case *strend.TripleMovingAverageCrossoverStrategy:
		fast, medium, slow := freshEma(s.FastEma), freshEma(s.MediumEma), freshEma(s.SlowEma)
		series = []qSeries{
			{name: "fast", w: fast.IdlePeriod(), v: collect1(fast.Compute(ch(b.closing)))},
			{name: "medium", w: medium.IdlePeriod(), v: collect1(medium.Compute(ch(b.closing)))},
			{name: "slow", w: slow.IdlePeriod(), v: collect1(slow.Compute(ch(b.closing)))},
		}

	case *strend.TrixStrategy:
		t := trend.NewTrix[float64]()
		t.Period = s.Trix.Period
		series = []qSeries{{name: "trix", w: t.IdlePeriod(), v: collect1(t.Compute(ch(b.closing)))}}

	case *strend.TsiStrategy:
		// Signal Line = Ema(signalPeriod, TSI)
		t := &trend.Tsi[float64]{FirstSmoothing: freshMa(s.Tsi.FirstSmoothing), SecondSmoothing: freshMa(s.Tsi.SecondSmoothing)}
		sig := freshMa(s.Signal)
		tsis := collect1(t.Compute(ch(b.closing)))
		sigs := collect1(sig.Compute(ch(tsis)))
		series = []qSeries{
			{name: "tsi", w: t.IdlePeriod(), v: tsis},
			{name: "signal", w: t.IdlePeriod() + sig.IdlePeriod(), v: sigs},
		}

	case *strend.VwmaStrategy:
		v := trend.NewVwma[float64]()
		v.Period = s.Vwma.Period
		sma := trend.NewSmaWithPeriod[float64](s.Sma.Period)
		series = []qSeries{
			{name: "vwma", w: v.IdlePeriod(), v: collect1(v.Compute(ch(b.closing), ch(b.volumeData)))},
			{name: "sma", w: sma.IdlePeriod(), v: collect1(sma.Compute(ch(b.closing)))},
		}

	case *strend.WeightedCloseStrategy:
		// Weighted Close = (High + Low + (Close * 2)) / 4; the moving average is taken of the weighted close
		wc := trend.NewWeightedClose[float64]()
		ma := freshMa(s.Ma)
		wcs := collect1(wc.Compute(ch(b.high), ch(b.low), ch(b.closing)))
		series = []qSeries{
			{name: "wc", w: wc.IdlePeriod(), v: wcs},
			{name: "ma", w: wc.IdlePeriod() + ma.IdlePeriod(), v: collect1(ma.Compute(ch(wcs)))},
		}

	// ------------------------------------------------------------------ strategy/momentum
	case *smomentum.AwesomeOscillatorStrategy:
		// Median Price = (Low + High) / 2; AO = short SMA - long SMA
		ao := momentum.NewAwesomeOscillator[float64]()
		ao.ShortSma.Period, ao.LongSma.Period = s.AwesomeOscillator.ShortSma.Period, s.AwesomeOscillator.LongSma.Period
		series = []qSeries{{name: "ao", w: ao.IdlePeriod(), v: collect1(ao.Compute(ch(b.high), ch(b.low)))}}

	case *smomentum.RsiStrategy:
		r := momentum.NewRsiWithPeriod[float64](s.Rsi.Rma.Period)
		series = []qSeries{{name: "rsi", w: r.IdlePeriod(), v: collect1(r.Compute(ch(b.closing)))}}
		consts["buy_at"], consts["sell_at"] = s.BuyAt, s.SellAt

	case *smomentum.StochasticRsiStrategy:
		r := momentum.NewStochasticRsi[float64]()
		r.Rsi.Rma.Period = s.StochasticRsi.Rsi.Rma.Period
		r.Min.Period, r.Max.Period = s.StochasticRsi.Min.Period, s.StochasticRsi.Max.Period
		series = []qSeries{{name: "stochrsi", w: r.IdlePeriod(), v: collect1(r.Compute(ch(b.closing)))}}
		consts["buy_at"], consts["sell_at"] = s.BuyAt, s.SellAt

	case *smomentum.TripleRsiStrategy:
		r := momentum.NewRsiWithPeriod[float64](s.Rsi.Rma.Period)
		sma := trend.NewSmaWithPeriod[float64](s.Sma.Period)
		rs := qSeries{name: "rsi", w: r.IdlePeriod(), v: collect1(r.Compute(ch(b.closing))), prev: true}
		d := s.DownDays
		// rsi_down_run: number of consecutive periods, ending at this one, in which the RSI reading
		// was lower than the reading of the period before.  rsi_ago: the RSI reading DownDays
		// trading periods ago.  Both are defined from snapshot w+DownDays on.
		var run, ago []float64
		for k := d; k < len(rs.v); k++ {
			c := 0
			for j := k; j >= 1 && rs.v[j] < rs.v[j-1]; j-- {
				c++
			}
			run = append(run, float64(c))
			ago = append(ago, rs.v[k-d])
		}
		series = []qSeries{
			rs,
			{name: "rsi_down_run", w: rs.w + d, v: run},
			{name: "rsi_ago", w: rs.w + d, v: ago},
			closeSeries,
			{name: "ma", w: sma.IdlePeriod(), v: collect1(sma.Compute(ch(b.closing)))},
		}
		consts["buy_at"], consts["sell_at"], consts["buy_signal_at"] = s.BuyAt, s.SellAt, s.BuySignalAt
		consts["down_days"] = float64(d)

	// ------------------------------------------------------------------ strategy/volatility
	case *svolatility.BollingerBandsStrategy:
		bb := volatility.NewBollingerBandsWithPeriod[float64](s.BollingerBands.Period)
		o := collect(bb.Compute(ch(b.closing))) // upper, middle, lower
		w := bb.IdlePeriod()
		series = []qSeries{closeSeries, {name: "upper", w: w, v: o[0]}, {name: "lower", w: w, v: o[2]}}

	case *svolatility.SuperTrendStrategy:
		st := volatility.NewSuperTrendWithMa[float64](freshMa(s.SuperTrend.Atr.Ma), s.SuperTrend.Multiplier)
		series = []qSeries{closeSeries,
			{name: "supertrend", w: st.IdlePeriod(), v: collect1(st.Compute(ch(b.high), ch(b.low), ch(b.closing)))}}

	// ------------------------------------------------------------------ strategy/volume
	case *svolume.ChaikinMoneyFlowStrategy:
		c := volume.NewCmfWithPeriod[float64](s.ChaikinMoneyFlow.Sum.Period)
		series = []qSeries{{name: "cmf", w: c.IdlePeriod(), v: collect1(c.Compute(ch(b.high), ch(b.low), ch(b.closing), ch(b.volumeData)))}}

	case *svolume.EaseOfMovementStrategy:
		e := volume.NewEmvWithPeriod[float64](s.EaseOfMovement.Sma.Period)
		series = []qSeries{{name: "emv", w: e.IdlePeriod(), v: collect1(e.Compute(ch(b.high), ch(b.low), ch(b.volumeData)))}}

	case *svolume.ForceIndexStrategy:
		f := volume.NewFiWithPeriod[float64](s.ForceIndex.Ema.Period)
		f.Ema.Smoothing = s.ForceIndex.Ema.Smoothing
		series = []qSeries{{name: "fi", w: f.IdlePeriod(), v: collect1(f.Compute(ch(b.closing), ch(b.volumeData)))}}

	case *svolume.MoneyFlowIndexStrategy:
		m := volume.NewMfi[float64]()
		m.Sum.Period = s.MoneyFlowIndex.Sum.Period
		series = []qSeries{{name: "mfi", w: m.IdlePeriod(), v: collect1(m.Compute(ch(b.high), ch(b.low), ch(b.closing), ch(b.volumeData)))}}
		consts["buy_at"], consts["sell_at"] = s.BuyAt, s.SellAt

	case *svolume.NegativeVolumeIndexStrategy:
		nvi := volume.NewNvi[float64]()
		nvi.Initial = s.NegativeVolumeIndex.Initial
		ema := freshEma(s.NegativeVolumeIndexEma)
		nvis := collect1(nvi.Compute(ch(b.closing), ch(b.volumeData)))
		series = []qSeries{
			{name: "nvi", w: nvi.IdlePeriod(), v: nvis},
			{name: "ema", w: nvi.IdlePeriod() + ema.IdlePeriod(), v: collect1(ema.Compute(ch(nvis)))},
		}

	case *svolume.WeightedAveragePriceStrategy:
		v := volume.NewVwapWithPeriod[float64](s.WeightedAveragePrice.Sum.Period)
		series = []qSeries{closeSeries,
			{name: "vwap", w: v.IdlePeriod(), v: collect1(v.Compute(ch(b.closing), ch(b.volumeData)))}}

	default:
		return nil, nil, fmt.Errorf("no documented quantities for strategy value of type %T", strat)
	}
	return series, consts, nil
}

func rulesTraceOne(req rulesReq) any {
	p := findPipe(req.Strategy)
	if p == nil || p.Class != "strategy" {
		return rulesErr{req.Strategy, "unknown strategy"}
	}
	if len(req.Cfg) != len(p.Params) || !allGE1(req.Cfg) || (p.Valid != nil && !p.Valid(req.Cfg)) {
		return rulesErr{req.Strategy, "inadmissible cfg"}
	}
	if req.N < 0 {
		return rulesErr{req.Strategy, "negative n"}
	}
	inst := p.Make(req.Cfg)
	s, ok := inst.Strat.(strategy.Strategy)
	if !ok {
		return rulesErr{req.Strategy, "catalogue entry holds no strategy value"}
	}

	d := DataSpec{Seed: req.Seed, VolumeScale: req.VolumeScale}
	snaps := make([]*asset.Snapshot, req.N)
	for i := range snaps {
		snaps[i] = d.Snapshot(i)
	}
	b := barsOf(snaps)

	series, consts, err := rulesQuantities(inst.Strat, b)
	if err != nil {
		return rulesErr{req.Strategy, err.Error()}
	}

	actions := helper.ChanToSlice(s.Compute(helper.SliceToChan(snaps)))

	out := rulesOut{Strategy: req.Strategy, Cfg: req.Cfg, Seed: req.Seed, N: req.N, Actions: len(actions),
		Consts: consts, Warmup: map[string]int{}, Rows: []rulesRow{}}
	if out.Cfg == nil {
		out.Cfg = []int{}
	}
	for _, q := range series {
		out.Warmup[q.name] = q.w
		if want := req.N - q.w; len(q.v) != want && !(want < 0 && len(q.v) == 0) {
			out.Warn = append(out.Warn, fmt.Sprintf("%s: %d values for n=%d and warm-up %d (expected %d)", q.name, len(q.v), req.N, q.w, want))
		}
	}
	if len(actions) != req.N {
		out.Warn = append(out.Warn, fmt.Sprintf("actions: %d for n=%d", len(actions), req.N))
	}

	limit := req.N
	if len(actions) < limit {
		limit = len(actions)
	}
rows:
	for i := 0; i < limit; i++ {
		q := map[string]float64{}
		for _, sr := range series {
			v, ok := sr.at(i)
			if !ok {
				continue rows
			}
			q[sr.name] = v
			if sr.prev {
				pv, ok := sr.at(i - 1)
				if !ok {
					continue rows
				}
				q["prev_"+sr.name] = pv
			}
		}
		for _, v := range q {
			if math.IsNaN(v) || math.IsInf(v, 0) {
				out.Skipped++
				continue rows
			}
		}
		out.Rows = append(out.Rows, rulesRow{I: i, Q: q, Action: int(actions[i])})
	}
	return out
}

func rulesTraceMain(args []string) {
	if len(args) < 1 {
		fmt.Fprintln(os.Stderr, "usage: rules-trace <requests.ndjson>")
		os.Exit(3)
	}
	f, err := os.Open(args[0])
	if err != nil {
		fmt.Fprintln(os.Stderr, err)
		os.Exit(3)
	}
	defer f.Close()
	w := bufio.NewWriter(os.Stdout)
	defer w.Flush()
	sc := bufio.NewScanner(f)
	sc.Buffer(make([]byte, 1<<20), 1<<26)
	for sc.Scan() {
		line := strings.TrimSpace(sc.Text())
		if line == "" {
			continue
		}
		var req rulesReq
		var res any
		if err := json.Unmarshal([]byte(line), &req); err != nil {
			res = rulesErr{"", "bad request: " + err.Error()}
		} else {
			res = rulesTraceOne(req)
		}
		bs, err := json.Marshal(res)
		if err != nil {
			bs, _ = json.Marshal(rulesErr{req.Strategy, "marshal: " + err.Error()})
		}
		w.Write(bs)
		w.WriteByte('\n')
		w.Flush()
	}
}
