//go:build verif

package main

import (
	"bufio"
	"encoding/json"
	"fmt"
	"os"

	"github.com/cinar/indicator/v2/asset"
	"github.com/cinar/indicator/v2/helper"
	"github.com/cinar/indicator/v2/strategy"
	"github.com/cinar/indicator/v2/strategy/compound"
	"github.com/cinar/indicator/v2/strategy/decorator"
)

// stub is a scripted strategy: it ignores the content of the snapshots and replays its word.
type stub struct {
	name string
	word []strategy.Action
}

func (s *stub) Name() string { return s.name }
func (s *stub) Compute(c <-chan *asset.Snapshot) <-chan strategy.Action {
	i := 0
	return helper.Map(c, func(*asset.Snapshot) strategy.Action {
		a := strategy.Hold
		if i < len(s.word) {
			a = s.word[i]
		}
		i++
		return a
	})
}
func (s *stub) Report(c <-chan *asset.Snapshot) *helper.Report { return nil }

type combStep struct {
	As    []int `json:"as"`
	C     int   `json:"c"`
	And   int   `json:"and"`
	Or    int   `json:"or"`
	Maj   int   `json:"maj"`
	Split int   `json:"split"`
	Inv   int   `json:"inv"`
	Mr    int   `json:"mr"`
	Nl    int   `json:"nl"`
	Sl    int   `json:"sl"`
	Nlsl  int   `json:"nlsl"`
}

func closesSnaps(cs []int) []*asset.Snapshot {
	out := make([]*asset.Snapshot, len(cs))
	for i, c := range cs {
		f := float64(c)
		out[i] = &asset.Snapshot{Date: day0.AddDate(0, 0, i), Open: f, High: f, Low: f, Close: f, Volume: 1}
	}
	return out
}

func runStrat(s strategy.Strategy, snaps []*asset.Snapshot) []int {
	acts := helper.ChanToSlice(s.Compute(helper.SliceToChan(snaps)))
	out := make([]int, len(acts))
	for i, a := range acts {
		out[i] = int(a)
	}
	return out
}

// realCombinators runs every combinator on scripted sub-strategies and returns one combStep per snapshot.
func realCombinators(words [][]int, closes []int, pct float64) ([]combStep, string) {
	n := len(closes)
	k := len(words)
	subs := func() []strategy.Strategy {
		ss := make([]strategy.Strategy, k)
		for j := range words {
			w := make([]strategy.Action, n)
			for i := range w {
				w[i] = strategy.Action(words[j][i])
			}
			ss[j] = &stub{name: "stub" + itoa(j), word: w}
		}
		return ss
	}
	snaps := closesSnaps(closes)
	and := runStrat(strategy.NewAndStrategy("and", subs()...), snaps)
	or := runStrat(strategy.NewOrStrategy("or", subs()...), snaps)
	maj := runStrat(strategy.NewMajorityStrategyWith("maj", subs()), snaps)
	s2 := subs()
	split := runStrat(strategy.NewSplitStrategy(s2[0], s2[1]), snaps)
	inv := runStrat(decorator.NewInverseStrategy(subs()[0]), snaps)
	nl := runStrat(decorator.NewNoLossStrategy(subs()[0]), snaps)
	sl := runStrat(decorator.NewStopLossStrategy(subs()[0], pct), snaps)
	nlsl := runStrat(decorator.NewNoLossStrategy(decorator.NewStopLossStrategy(subs()[0], pct)), snaps)
	for name, x := range map[string][]int{"And": and, "Or": or, "Majority": maj, "Split": split, "Inverse": inv, "NoLoss": nl, "StopLoss": sl, "NoLoss(StopLoss)": nlsl} {
		if len(x) != n {
			return nil, fmt.Sprintf("%s emits %d actions for %d snapshots", name, len(x), n)
		}
	}
	steps := make([]combStep, n)
	for i := 0; i < n; i++ {
		as := make([]int, k)
		for j := range as {
			as[j] = words[j][i]
		}
		steps[i] = combStep{As: as, C: closes[i], And: and[i], Or: or[i], Maj: maj[i], Split: split[i], Inv: inv[i], Mr: 9,
			Nl: nl[i], Sl: sl[i], Nlsl: nlsl[i]}
	}
	return steps, ""
}

// replay-comb <file> <num> <den>: model -> code
func replayCombMain(args []string) {
	f, err := os.Open(args[0])
	if err != nil {
		fmt.Fprintln(os.Stderr, err)
		os.Exit(3)
	}
	defer f.Close()
	var num, den int
	fmt.Sscan(args[1], &num)
	fmt.Sscan(args[2], &den)
	pct := float64(num) / float64(den)
	sc := bufio.NewScanner(f)
	sc.Buffer(make([]byte, 1<<20), 1<<26)
	type mm struct {
		Hist int    `json:"hist"`
		What string `json:"what"`
	}
	var out []mm
	nh, checks := 0, 0
	for sc.Scan() {
		var steps []combStep
		if err := json.Unmarshal(sc.Bytes(), &steps); err != nil {
			fmt.Fprintln(os.Stderr, "bad history:", err)
			os.Exit(3)
		}
		k := len(steps[0].As)
		words := make([][]int, k)
		closes := make([]int, len(steps))
		for i, s := range steps {
			closes[i] = s.C
			for j := 0; j < k; j++ {
				words[j] = append(words[j], s.As[j])
			}
		}
		real, msg := realCombinators(words, closes, pct)
		if msg != "" {
			out = append(out, mm{nh, msg})
		} else {
			for i, s := range steps {
				r := real[i]
				cmp := func(name string, got, want int) {
					checks++
					if got != want && len(out) < 200 {
						out = append(out, mm{nh, fmt.Sprintf("%s at snapshot %d emits %d, documented function gives %d (sub-actions so far %v, closes %v)", name, i, got, want, words, closes)})
					}
				}
				cmp("And", r.And, s.And)
				cmp("Or", r.Or, s.Or)
				cmp("Majority", r.Maj, s.Maj)
				cmp("Split", r.Split, s.Split)
				cmp("Inverse", r.Inv, s.Inv)
				cmp("NoLoss", r.Nl, s.Nl)
				cmp("StopLoss", r.Sl, s.Sl)
				cmp("NoLoss(StopLoss)", r.Nlsl, s.Nlsl)
			}
		}
		nh++
		if len(out) >= 200 {
			break
		}
	}
	b, _ := json.Marshal(map[string]any{"histories": nh, "checks": checks, "mismatches": out})
	fmt.Println(string(b))
}

// drive-comb <seed> <ntraces> <len> <k> <num> <den>: code -> model.  Random words on the real combinators, plus
// the real MACD-RSI strategy next to its two sub-strategies; prints one JSON trace per line.
func driveCombMain(args []string) {
	var seed uint64
	var nt, ln, k, num, den int
	fmt.Sscan(args[0], &seed)
	fmt.Sscan(args[1], &nt)
	fmt.Sscan(args[2], &ln)
	fmt.Sscan(args[3], &k)
	fmt.Sscan(args[4], &num)
	fmt.Sscan(args[5], &den)
	w := bufio.NewWriter(os.Stdout)
	defer w.Flush()
	for t := 0; t < nt; t++ {
		words := make([][]int, k)
		closes := make([]int, ln)
		for i := 0; i < ln; i++ {
			closes[i] = 1 + int(unit(seed, 1000+t, i)*8)
		}
		for j := range words {
			words[j] = make([]int, ln)
			for i := range words[j] {
				u := unit(seed, 2000+17*t+j, i)
				switch {
				case u < 0.3:
					words[j][i] = -1
				case u < 0.6:
					words[j][i] = 1
				}
			}
		}
		steps, msg := realCombinators(words, closes, float64(num)/float64(den))
		if msg != "" {
			b, _ := json.Marshal(map[string]any{"error": msg, "words": words})
			fmt.Fprintln(w, string(b))
			continue
		}
		b, _ := json.Marshal(map[string]any{"kind": "stubs", "steps": steps})
		fmt.Fprintln(w, string(b))
	}
	// MACD-RSI against its own sub-strategies on seeded snapshot series
	for t := 0; t < nt; t++ {
		d := DataSpec{Seed: seed + uint64(t)*31 + 5}
		n := 60 + ln
		snaps := make([]*asset.Snapshot, n)
		for i := range snaps {
			snaps[i] = d.Snapshot(i)
		}
		m := compound.NewMacdRsiStrategy()
		m.MacdStrategy.Macd.Ema1.Period, m.MacdStrategy.Macd.Ema2.Period, m.MacdStrategy.Macd.Ema3.Period = 3, 6, 2
		m.RsiStrategy.Rsi.Rma.Period = 3
		m.RsiStrategy.BuyAt, m.RsiStrategy.SellAt = 40, 60
		mr := runStrat(m, snaps)
		macd := runStrat(m.MacdStrategy, snaps)
		rsi := runStrat(m.RsiStrategy, snaps)
		if len(mr) != n || len(macd) != n || len(rsi) != n {
			b, _ := json.Marshal(map[string]any{"error": fmt.Sprintf("MACD-RSI lengths %d %d %d for %d snapshots", len(mr), len(macd), len(rsi), n)})
			fmt.Fprintln(w, string(b))
			continue
		}
		steps := make([]combStep, n)
		for i := 0; i < n; i++ {
			as := make([]int, k)
			as[0], as[1] = macd[i], rsi[i]
			steps[i] = combStep{As: as, C: 1, And: 9, Or: 9, Maj: 9, Split: 9, Inv: 9, Mr: mr[i], Nl: 9, Sl: 9, Nlsl: 9}
		}
		b, _ := json.Marshal(map[string]any{"kind": "macdrsi", "steps": steps})
		fmt.Fprintln(w, string(b))
	}
}

func init() {
	extraCmds["replay-comb"] = replayCombMain
	extraCmds["drive-comb"] = driveCombMain
}
