//go:build verif

package main

import (
	"bufio"
	"bytes"
	"encoding/json"
	"fmt"
	"io"
	"math"
	"os"
	"reflect"
	"runtime"
	"strconv"
	"strings"
	"sync"
	"time"
	"unsafe"

	"github.com/cinar/indicator/v2/asset"
	"github.com/cinar/indicator/v2/helper"
)

// Req is one execution request of a real pipeline.
type Req struct {
	ID     string   `json:"id"`
	Pipe   string   `json:"pipe"`
	Cfg    []int    `json:"cfg"`
	Mode   string   `json:"mode"` // "compute" | "report" | "reuse2" (second call on the same instance) | "conc"
	Cap    int      `json:"cap"`
	Lens   []int    `json:"lens"`
	Data   DataSpec `json:"data"`
	Pace   uint64   `json:"pace"`   // 0 = no pacing; otherwise seed of random yields in producers/consumers
	Wiring bool     `json:"wiring"` // include the recorded wiring in the result
	Values bool     `json:"values"` // include the output values (as IEEE bits)
	// Warm: lengths of a first Compute call on the same instance before the measured one (C09)
	Warm []int `json:"warm,omitempty"`
}

// OutRes is what one output delivered.
type OutRes struct {
	Name string   `json:"name"`
	N    int      `json:"n"`
	Bits []string `json:"bits,omitempty"`
	Vals []string `json:"vals,omitempty"` // human readable (only for short outputs)
}

// Leak is a goroutine that is still parked after all outputs were drained.
type Leak struct {
	Func  string `json:"func"`
	State string `json:"state"`
	Lib   bool   `json:"lib"`
	Gid   int    `json:"gid"`
}

// ColRes is the state of a report column channel after rendering.
type ColRes struct {
	Col   int    `json:"col"`
	Left  int    `json:"left"`  // values still receivable after the last row
	State string `json:"state"` // "closed" | "open" (would block) | "values"
}

// Res is the result of one request.
type Res struct {
	ID         string     `json:"id"`
	Idle       int        `json:"idle"`
	Lag        []int      `json:"lag,omitempty"`
	Outs       []OutRes   `json:"outs"`
	Leaks      []Leak     `json:"leaks"`
	LeaksAfter []Leak     `json:"leaks_after,omitempty"`
	Wiring     *Wiring    `json:"wiring,omitempty"`
	Rows       [][]string `json:"rows,omitempty"`
	Labels     []string   `json:"labels,omitempty"`
	Cols       []ColRes   `json:"cols,omitempty"`
	Err        string     `json:"err,omitempty"`
	Unstable   bool       `json:"unstable,omitempty"`
}

func bitsOf(v float64) string { return strconv.FormatUint(math.Float64bits(v), 16) }

type pacer struct{ s uint64 }

func (p *pacer) yield() {
	if p == nil || p.s == 0 {
		return
	}
	p.s = splitmix(p.s)
	for k := p.s % 4; k > 0; k-- {
		runtime.Gosched()
	}
}

func newPacer(seed uint64, k int) *pacer {
	if seed == 0 {
		return nil
	}
	return &pacer{s: splitmix(seed + uint64(k)*7919)}
}

// feedFloats starts the producers of float inputs.
func feedFloats(rec *Recorder, p *Pipe, req *Req, lens []int, data DataSpec) []<-chan float64 {
	inputs := make([]<-chan float64, len(p.Inputs))
	for j, name := range p.Inputs {
		ch := make(chan float64, req.Cap)
		inputs[j] = ch
		n := lens[j]
		vals := make([]float64, n)
		for i := range vals {
			vals[i] = data.Value(name, j, i)
		}
		rec.Add("Source", j+1, name, nil, []any{ch})
		pc := newPacer(req.Pace, j)
		go func() {
			defer close(ch)
			for _, v := range vals {
				pc.yield()
				ch <- v
			}
		}()
	}
	return inputs
}

func feedSnapshots(rec *Recorder, req *Req, n int, data DataSpec) <-chan *asset.Snapshot {
	ch := make(chan *asset.Snapshot, req.Cap)
	snaps := make([]*asset.Snapshot, n)
	for i := range snaps {
		snaps[i] = data.Snapshot(i)
	}
	rec.Add("Source", 1, "snap", nil, []any{ch})
	pc := newPacer(req.Pace, 0)
	go func() {
		defer close(ch)
		for _, s := range snaps {
			pc.yield()
			ch <- s
		}
	}()
	return ch
}

// drainOuts reads every output with its own goroutine and waits for all of them.  The wait is a
// sync.WaitGroup only, so that a real deadlock is reported by the Go runtime.
func drainOuts(rec *Recorder, os []Out, req *Req) []OutRes {
	res := make([]OutRes, len(os))
	var wg sync.WaitGroup
	for k := range os {
		rec.Add("Sink", k+1, os[k].Name, []any{os[k].Chan}, nil)
		wg.Add(1)
		pc := newPacer(req.Pace, 100+k)
		go func(k int) {
			defer wg.Done()
			r := OutRes{Name: os[k].Name}
			for {
				pc.yield()
				v, ok := os[k].Recv()
				if !ok {
					break
				}
				r.N++
				if req.Values {
					r.Bits = append(r.Bits, bitsOf(v))
					if r.N <= 64 {
						r.Vals = append(r.Vals, strconv.FormatFloat(v, 'g', -1, 64))
					}
				}
			}
			res[k] = r
		}(k)
	}
	wg.Wait()
	return res
}

// execute runs one request in this process.
func execute(req *Req) *Res {
	res := &Res{ID: req.ID, Idle: -1}
	p := findPipe(req.Pipe)
	if p == nil {
		res.Err = "unknown pipe " + req.Pipe
		return res
	}
	inst := p.Make(req.Cfg)
	if inst.Idle != nil {
		res.Idle = inst.Idle()
	} else if p.Implied != nil {
		res.Idle = p.Implied(req.Cfg)
	}
	if p.Lag != nil {
		res.Lag = p.Lag(req.Cfg)
	}
	runOnce := func(lens []int, data DataSpec, record bool) ([]OutRes, *Recorder) {
		rec := NewRecorder()
		rec.Install()
		var os []Out
		if inst.Compute != nil {
			os = inst.Compute(feedFloats(rec, p, req, lens, data))
		} else {
			os = inst.ComputeS(feedSnapshots(rec, req, lens[0], data))
		}
		r := drainOuts(rec, os, req)
		// goroutines spawned late (drains started when a stage leaves its loop) still report their wiring
		census()
		Uninstall()
		return r, rec
	}
	switch req.Mode {
	case "", "compute":
		if len(req.Warm) > 0 {
			w := req.Data
			w.Seed = splitmix(w.Seed + 77)
			runOnce(req.Warm, w, false)
			if lk, _ := census(); len(lk) > 0 {
				res.Leaks = lk
				res.Err = "leak in warm call"
				return res
			}
		}
		r, rec := runOnce(req.Lens, req.Data, true)
		res.Outs = r
		if req.Wiring {
			w := rec.Snapshot()
			res.Wiring = &w
		}
	case "conc":
		// two concurrent calls on the same instance with different inputs; result of the first is reported
		var wg sync.WaitGroup
		var r1 []OutRes
		var rec1 *Recorder
		wg.Add(2)
		go func() {
			defer wg.Done()
			rec := NewRecorder()
			var os []Out
			if inst.Compute != nil {
				os = inst.Compute(feedFloats(rec, p, req, req.Lens, req.Data))
			} else {
				os = inst.ComputeS(feedSnapshots(rec, req, req.Lens[0], req.Data))
			}
			r1 = drainOuts(rec, os, req)
			rec1 = rec
		}()
		go func() {
			defer wg.Done()
			rec := NewRecorder()
			d2 := req.Data
			d2.Seed = splitmix(d2.Seed + 99)
			lens2 := make([]int, len(req.Lens))
			for i := range lens2 {
				lens2[i] = req.Lens[i] + 3
			}
			var os []Out
			if inst.Compute != nil {
				os = inst.Compute(feedFloats(rec, p, req, lens2, d2))
			} else {
				os = inst.ComputeS(feedSnapshots(rec, req, lens2[0], d2))
			}
			drainOuts(rec, os, req)
		}()
		wg.Wait()
		_ = rec1
		res.Outs = r1
	case "report":
		if len(req.Warm) > 0 {
			// a first render on the same instance (other data, other length) before the measured one
			w := req.Data
			w.Seed = splitmix(w.Seed + 77)
			wr := inst.Report(feedSnapshots(NewRecorder(), req, req.Warm[0], w))
			var wwg sync.WaitGroup
			wwg.Add(1)
			go func() {
				defer wwg.Done()
				wr.WriteToWriter(io.Discard)
			}()
			wwg.Wait()
			census()
			columnStates(wr)
			census()
		}
		rec := NewRecorder()
		rec.Install()
		report := inst.Report(feedSnapshots(rec, req, req.Lens[0], req.Data))
		var buf bytes.Buffer
		var wg sync.WaitGroup
		var werr error
		wg.Add(1)
		go func() {
			defer wg.Done()
			werr = report.WriteToWriter(&buf)
		}()
		wg.Wait()
		census()
		Uninstall()
		if werr != nil {
			res.Err = "report: " + werr.Error()
		}
		res.Rows = parseRows(buf.String())
		for _, col := range report.Columns {
			res.Labels = append(res.Labels, col.Name())
		}
		// let the pipeline settle: goroutines still parked now are parked because the template stopped reading
		res.Leaks, res.Unstable = census()
		// then look into the column channels (this consumes what was left over)
		res.Cols = columnStates(report)
		if req.Wiring {
			w := rec.Snapshot()
			res.Wiring = &w
		}
	default:
		res.Err = "unknown mode " + req.Mode
		return res
	}
	lk, unstable := census()
	if req.Mode == "report" {
		// goroutines that are still parked after the left-over values were taken out
		res.LeaksAfter = lk
	} else {
		res.Leaks = lk
	}
	res.Unstable = res.Unstable || unstable
	return res
}

// parseRows extracts the data.addRow([...]) blocks of a rendered report.
func parseRows(html string) [][]string {
	var rows [][]string
	lines := strings.Split(html, "\n")
	for i := 0; i < len(lines); i++ {
		if strings.Contains(lines[i], "data.addRow([") {
			var row []string
			for i++; i < len(lines) && !strings.Contains(lines[i], "]);"); i++ {
				t := strings.TrimSpace(lines[i])
				if t == "" {
					continue
				}
				row = append(row, strings.TrimSuffix(t, ","))
			}
			rows = append(rows, row)
		}
	}
	return rows
}

// columnStates looks into the (unexported) channels of the report columns after rendering: a value
// that can still be received is a value the report never printed.
func columnStates(report *helper.Report) []ColRes {
	var out []ColRes
	probe := func(idx int, ch reflect.Value) {
		c := ColRes{Col: idx}
		for {
			v, ok := ch.TryRecv()
			if ok {
				c.Left++
				if c.Left > 1000 {
					c.State = "values"
					break
				}
				// let the writer (which may have been parked on this send) run on before looking again
				census()
				continue
			}
			if v.IsValid() {
				c.State = "closed"
			} else {
				c.State = "open"
			}
			break
		}
		out = append(out, c)
	}
	probe(0, reflect.ValueOf(report.Date))
	for i, col := range report.Columns {
		v := reflect.ValueOf(col)
		if v.Kind() == reflect.Ptr {
			e := v.Elem()
			for f := 0; f < e.NumField(); f++ {
				fv := e.Field(f)
				if fv.Kind() == reflect.Chan {
					ch := reflect.NewAt(fv.Type(), unsafe.Pointer(fv.UnsafeAddr())).Elem()
					probe(i+1, ch)
				}
			}
		}
	}
	return out
}

// census waits until no goroutine other than the caller can make progress and returns the ones that
// are still parked.  It uses no timer, so it does not disturb the runtime's deadlock detection.
func census() ([]Leak, bool) {
	me := goid()
	buf := make([]byte, 1<<20)
	start := time.Now()
	var last []Leak
	prevSig := "-"
	for iter := 0; ; iter++ {
		for k := 0; k < 50; k++ {
			runtime.Gosched()
		}
		n := runtime.Stack(buf, true)
		for n == len(buf) {
			buf = make([]byte, 2*len(buf))
			n = runtime.Stack(buf, true)
		}
		leaks, busy := parseStacks(string(buf[:n]), me)
		if !busy {
			// demand two identical consecutive snapshots: a goroutine that is only transiently in a wait state
			// (runtime semaphores, GC) moves on in between
			sig := fmt.Sprint(leaks)
			if sig == prevSig {
				return leaks, false
			}
			prevSig = sig
		} else {
			prevSig = "-"
		}
		last = leaks
		if iter > 200 && time.Since(start) > 5*time.Second {
			return last, true
		}
	}
}

// parkedStates are the wait reasons of a goroutine that only another goroutine (or nobody) can wake by a
// channel operation.  Semaphore waits (mutexes such as the recorder's, WaitGroups, runtime semaphores) are
// transient here and count as busy.
var parkedStates = map[string]bool{
	"chan receive": true, "chan send": true, "select": true,
	"chan receive (nil chan)": true, "chan send (nil chan)": true, "select (no cases)": true,
}

func parseStacks(dump string, me int) (leaks []Leak, busy bool) {
	for _, blk := range strings.Split(strings.TrimSpace(dump), "\n\n") {
		lines := strings.Split(blk, "\n")
		if len(lines) < 2 || !strings.HasPrefix(lines[0], "goroutine ") {
			continue
		}
		hdr := lines[0]
		f := strings.Fields(hdr)
		id, _ := strconv.Atoi(f[1])
		if id == me {
			continue
		}
		lb := strings.Index(hdr, "[")
		rb := strings.LastIndex(hdr, "]")
		state := ""
		if lb >= 0 && rb > lb {
			state = hdr[lb+1 : rb]
		}
		if i := strings.Index(state, ","); i >= 0 {
			state = state[:i]
		}
		if !parkedStates[state] {
			// running, runnable, syscall, GC assist wait, preempted, ...: not settled yet
			busy = true
			continue
		}
		// first frame that is not in the runtime
		fn := ""
		lib := false
		for i := 1; i < len(lines); i += 2 {
			name := strings.TrimSpace(lines[i])
			if strings.HasPrefix(name, "created by ") {
				cb := strings.TrimPrefix(name, "created by ")
				if strings.Contains(cb, "cinar/indicator") {
					lib = true
				}
				continue
			}
			if j := strings.LastIndex(name, "("); j > 0 {
				name = name[:j]
			}
			if strings.Contains(name, "cinar/indicator") {
				lib = true
			}
			if fn == "" && !strings.HasPrefix(name, "runtime.") {
				fn = name
			}
		}
		leaks = append(leaks, Leak{Func: fn, State: state, Lib: lib, Gid: id})
	}
	return leaks, busy
}

// childMain processes the requests of a file from index start on.  Before each request a BEGIN line
// is printed; if the process dies (runtime deadlock report) the parent knows which request it was.
func childMain(reqFile string, start int) {
	data, err := os.ReadFile(reqFile)
	if err != nil {
		fmt.Fprintln(os.Stderr, err)
		os.Exit(3)
	}
	var reqs []Req
	dec := json.NewDecoder(bytes.NewReader(data))
	for dec.More() {
		var r Req
		if err := dec.Decode(&r); err != nil {
			fmt.Fprintln(os.Stderr, "bad request:", err)
			os.Exit(3)
		}
		reqs = append(reqs, r)
	}
	w := bufio.NewWriter(os.Stdout)
	for i := start; i < len(reqs); i++ {
		fmt.Fprintf(w, "BEGIN %d\n", i)
		w.Flush()
		res := execute(&reqs[i])
		b, _ := json.Marshal(res)
		fmt.Fprintf(w, "RESULT %d %s\n", i, b)
		w.Flush()
		if len(res.Leaks) > 0 || res.Unstable {
			// parked goroutines would pollute later requests: let the parent restart us
			fmt.Fprintf(w, "RESTART %d\n", i+1)
			w.Flush()
			os.Exit(0)
		}
	}
	fmt.Fprintln(w, "END")
	w.Flush()
}
