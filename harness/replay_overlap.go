//go:build verif

package main

import (
	"bufio"
	"encoding/json"
	"fmt"
	"os"
	"runtime"
	"time"

	"github.com/cinar/indicator/v2/asset"
	"github.com/cinar/indicator/v2/helper"
)

// Replays the schedules of spec/RepositoryOverlap.tla (overlapping Appends to one asset) on the real in-memory
// repository.  The harness owns the unbuffered source channel of every Append call: "feed" hands one snapshot over
// (returns when the call has taken it), "return" closes the channel and waits until the call has returned, "read" is
// a Get whose ids are compared with the prescribed ones.  No timing is involved.
//
//	replay-overlap <schedules.ndjson>  ->  {"schedules": n, "reads": r, "mismatches": [...]}

type overlapStep struct {
	Op     string `json:"op"`
	A      int    `json:"a"`
	ID     int    `json:"id"`
	Expect []int  `json:"expect"`
}

func replayOverlapMain(args []string) {
	f, err := os.Open(args[0])
	if err != nil {
		fmt.Fprintln(os.Stderr, err)
		os.Exit(3)
	}
	defer f.Close()
	sc := bufio.NewScanner(f)
	sc.Buffer(make([]byte, 1<<20), 1<<26)
	var mm []string
	n, reads := 0, 0
	day := time.Date(2020, 1, 1, 0, 0, 0, 0, time.UTC)
	for sc.Scan() {
		var steps []overlapStep
		if err := json.Unmarshal(sc.Bytes(), &steps); err != nil {
			fmt.Fprintln(os.Stderr, "bad schedule:", err)
			os.Exit(3)
		}
		n++
		repo := asset.NewInMemoryRepository()
		src := map[int]chan *asset.Snapshot{}
		done := map[int]chan error{}
		for i, st := range steps {
			switch st.Op {
			case "begin":
				c := make(chan *asset.Snapshot)
				d := make(chan error, 1)
				src[st.A], done[st.A] = c, d
				go func() { d <- repo.Append("x", c) }()
				// let the call run up to its first receive (only sharpens detection: whatever the call does on entry
				// then happens at this point of the schedule; the verdict does not depend on it)
				for k := 0; k < 64; k++ {
					runtime.Gosched()
				}
			case "feed":
				src[st.A] <- &asset.Snapshot{Date: day.AddDate(0, 0, st.ID), Close: float64(st.ID)}
			case "return":
				close(src[st.A])
				if err := <-done[st.A]; err != nil && len(mm) < 20 {
					mm = append(mm, fmt.Sprintf("schedule %d step %d: Append returned %v", n, i, err))
				}
			case "read":
				reads++
				var got []int
				if ch, err := repo.Get("x"); err == nil {
					for _, s := range helper.ChanToSlice(ch) {
						got = append(got, int(s.Close))
					}
				}
				if fmt.Sprint(got) != fmt.Sprint(st.Expect) && !(len(got) == 0 && len(st.Expect) == 0) && len(mm) < 20 {
					var sched []string
					for _, s := range steps[:i+1] {
						sched = append(sched, fmt.Sprintf("%s(%d)", s.Op, s.A))
					}
					mm = append(mm, fmt.Sprintf("after %v Get returns the rows %v; the calls that have returned appended %v", sched, got, st.Expect))
				}
			}
		}
	}
	b, _ := json.Marshal(map[string]any{"schedules": n, "reads": reads, "mismatches": mm})
	fmt.Println(string(b))
}

func init() { extraCmds["replay-overlap"] = replayOverlapMain }
