//go:build verif

package main

import (
	"reflect"
	"runtime"
	"strconv"
	"strings"
	"sync"

	"github.com/cinar/indicator/v2/helper"
)

// StageEvent is one wiring event recorded from the real code: a goroutine (stage) with the
// channels it reads and writes.  Channels are identified by a small integer id, assigned in
// order of first appearance, and carry their capacity.
type StageEvent struct {
	Kind  string `json:"kind"`
	Par   int    `json:"par"`
	Par2  int    `json:"par2"`
	Label string `json:"label,omitempty"`
	Ins   []int  `json:"ins"`
	Outs  []int  `json:"outs"`
	Goid  int    `json:"goid"`
	// Stack: the functions that called the hooked function (innermost first)
	Stack []string `json:"stack,omitempty"`
}

// Recorder collects wiring events through helper.VerifStageHook.
type Recorder struct {
	mu      sync.Mutex
	ids     map[uintptr]int
	caps    []int // caps[id-1]
	keep    []any // keeps channels alive so that pointers are not reused
	events  []StageEvent
	pending map[int]string // goid -> label for the next Map on that goroutine
}

func NewRecorder() *Recorder {
	return &Recorder{ids: map[uintptr]int{}, pending: map[int]string{}}
}

func goid() int {
	var buf [64]byte
	n := runtime.Stack(buf[:], false)
	// "goroutine 123 [running]:"
	f := strings.Fields(string(buf[:n]))
	if len(f) < 2 {
		return -1
	}
	id, _ := strconv.Atoi(f[1])
	return id
}

// callers returns the names of the functions above the hooked function.
func callers() []string {
	pcs := make([]uintptr, 8)
	// 0 = Callers, 1 = callers, 2 = hook, 3 = VerifStage, 4 = hooked function, 5.. = its callers
	n := runtime.Callers(5, pcs)
	frames := runtime.CallersFrames(pcs[:n])
	var out []string
	for {
		f, more := frames.Next()
		out = append(out, f.Function)
		if !more || len(out) >= 4 {
			break
		}
	}
	return out
}

// chanID returns the id of a channel value (any direction, any element type).
func (r *Recorder) chanID(v reflect.Value) int {
	p := v.Pointer()
	if id, ok := r.ids[p]; ok {
		return id
	}
	id := len(r.caps) + 1
	r.ids[p] = id
	r.caps = append(r.caps, v.Cap())
	r.keep = append(r.keep, v.Interface())
	return id
}

// ChanID is the exported form used by the harness for its own channels.
func (r *Recorder) ChanID(ch any) int {
	r.mu.Lock()
	defer r.mu.Unlock()
	return r.chanID(reflect.ValueOf(ch))
}

// flatten turns hook arguments (channels, slices of channels, report columns) into channel ids.
func (r *Recorder) flatten(args []any) []int {
	var ids []int
	for _, a := range args {
		if a == nil {
			continue
		}
		v := reflect.ValueOf(a)
		switch v.Kind() {
		case reflect.Chan:
			if v.IsNil() {
				continue
			}
			ids = append(ids, r.chanID(v))
		case reflect.Slice:
			for i := 0; i < v.Len(); i++ {
				e := v.Index(i)
				if e.Kind() == reflect.Interface {
					e = e.Elem()
				}
				if e.Kind() == reflect.Chan && !e.IsNil() {
					ids = append(ids, r.chanID(e))
				}
			}
		case reflect.Ptr:
			// a report column: find its unexported channel field "values"
			e := v.Elem()
			if e.Kind() == reflect.Struct {
				for i := 0; i < e.NumField(); i++ {
					f := e.Field(i)
					if f.Kind() == reflect.Chan && !f.IsNil() {
						p := f.Pointer()
						id, ok := r.ids[p]
						if !ok {
							id = len(r.caps) + 1
							r.ids[p] = id
							r.caps = append(r.caps, f.Cap())
						}
						ids = append(ids, id)
					}
				}
			}
		}
	}
	return ids
}

func (r *Recorder) hook(kind string, par int, ins []any, outs []any, extra []int) {
	g := goid()
	r.mu.Lock()
	defer r.mu.Unlock()
	if strings.HasPrefix(kind, "Label:") {
		r.pending[g] = strings.TrimPrefix(kind, "Label:")
		return
	}
	ev := StageEvent{Kind: kind, Par: par, Goid: g, Ins: r.flatten(ins), Outs: r.flatten(outs)}
	if kind == "Drain" || kind == "Operate" || kind == "Operate3" {
		ev.Stack = callers()
	}
	if len(extra) > 0 {
		ev.Par2 = extra[0]
	}
	if kind == "Map" {
		if l, ok := r.pending[g]; ok {
			ev.Label = l
			delete(r.pending, g)
		}
	}
	if ev.Ins == nil {
		ev.Ins = []int{}
	}
	if ev.Outs == nil {
		ev.Outs = []int{}
	}
	r.events = append(r.events, ev)
}

// Add registers a stage of the harness itself (sources, sinks).
func (r *Recorder) Add(kind string, par int, label string, ins []any, outs []any) {
	r.mu.Lock()
	defer r.mu.Unlock()
	ev := StageEvent{Kind: kind, Par: par, Label: label, Goid: 0, Ins: r.flatten(ins), Outs: r.flatten(outs)}
	if ev.Ins == nil {
		ev.Ins = []int{}
	}
	if ev.Outs == nil {
		ev.Outs = []int{}
	}
	r.events = append(r.events, ev)
}

func (r *Recorder) Install() { helper.SetVerifStageHook(r.hook) }
func Uninstall()             { helper.SetVerifStageHook(nil) }

// Wiring is the recorded network.
type Wiring struct {
	Stages []StageEvent `json:"stages"`
	Caps   []int        `json:"caps"`
}

func (r *Recorder) Snapshot() Wiring {
	r.mu.Lock()
	defer r.mu.Unlock()
	w := Wiring{Stages: append([]StageEvent(nil), r.events...), Caps: append([]int(nil), r.caps...)}
	return w
}
