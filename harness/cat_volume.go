//go:build verif

package main

import (
	"github.com/cinar/indicator/v2/volume"
)

// Catalogue of the volume package: one entry per type with a Compute method (11 types).
// Every type of the package has an IdlePeriod method (Ad, Mfm, Mfv, Obv return 0; Nvi, Vpt return 1),
// so Idle is always set and Implied is never used here.

func init() {
	register(
		Pipe{Name: "volume.Ad", Class: "indicator", Inputs: ins("high", "low", "close", "volume"), Params: ps(), Default: cfgOf(),
			Make: func(cfg []int) Inst {
				x := volume.NewAd[float64]()
				return Inst{Idle: x.IdlePeriod, Compute: func(in []<-chan float64) []Out { return outs(x.Compute(in[0], in[1], in[2], in[3])) }}
			}},
		Pipe{Name: "volume.Cmf", Class: "indicator", Inputs: ins("high", "low", "close", "volume"), Params: ps("period"),
			Default: cfgOf(volume.DefaultCmfPeriod),
			Make: func(cfg []int) Inst {
				x := volume.NewCmfWithPeriod[float64](cfg[0])
				return Inst{Idle: x.IdlePeriod, Compute: func(in []<-chan float64) []Out { return outs(x.Compute(in[0], in[1], in[2], in[3])) }}
			}},
		Pipe{Name: "volume.Emv", Class: "indicator", Inputs: ins("high", "low", "volume"), Params: ps("period"),
			Default: cfgOf(volume.DefaultEmvPeriod),
			Make: func(cfg []int) Inst {
				x := volume.NewEmvWithPeriod[float64](cfg[0])
				return Inst{Idle: x.IdlePeriod, Compute: func(in []<-chan float64) []Out { return outs(x.Compute(in[0], in[1], in[2])) }}
			}},
		Pipe{Name: "volume.Fi", Class: "indicator", Inputs: ins("close", "volume"), Params: ps("period"),
			Default: cfgOf(volume.DefaultFiPeriod),
			Make: func(cfg []int) Inst {
				x := volume.NewFiWithPeriod[float64](cfg[0])
				return Inst{Idle: x.IdlePeriod, Compute: func(in []<-chan float64) []Out { return outs(x.Compute(in[0], in[1])) }}
			}},
		// Mfi: no period constructor; the nested MovingSum period is assigned.
		Pipe{Name: "volume.Mfi", Class: "indicator", Inputs: ins("high", "low", "close", "volume"), Params: ps("period"),
			Default: cfgOf(volume.DefaultMfiPeriod),
			Make: func(cfg []int) Inst {
				x := volume.NewMfi[float64]()
				x.Sum.Period = cfg[0]
				return Inst{Idle: x.IdlePeriod, Compute: func(in []<-chan float64) []Out { return outs(x.Compute(in[0], in[1], in[2], in[3])) }}
			}},
		Pipe{Name: "volume.Mfm", Class: "indicator", Inputs: ins("high", "low", "close"), Params: ps(), Default: cfgOf(),
			Make: func(cfg []int) Inst {
				x := volume.NewMfm[float64]()
				return Inst{Idle: x.IdlePeriod, Compute: func(in []<-chan float64) []Out { return outs(x.Compute(in[0], in[1], in[2])) }}
			}},
		Pipe{Name: "volume.Mfv", Class: "indicator", Inputs: ins("high", "low", "close", "volume"), Params: ps(), Default: cfgOf(),
			Make: func(cfg []int) Inst {
				x := volume.NewMfv[float64]()
				return Inst{Idle: x.IdlePeriod, Compute: func(in []<-chan float64) []Out { return outs(x.Compute(in[0], in[1], in[2], in[3])) }}
			}},
		// Nvi: Initial (1000) is a value, not a period.
		Pipe{Name: "volume.Nvi", Class: "indicator", Inputs: ins("close", "volume"), Params: ps(), Default: cfgOf(),
			Make: func(cfg []int) Inst {
				x := volume.NewNvi[float64]()
				return Inst{Idle: x.IdlePeriod, Compute: func(in []<-chan float64) []Out { return outs(x.Compute(in[0], in[1])) }}
			}},
		Pipe{Name: "volume.Obv", Class: "indicator", Inputs: ins("close", "volume"), Params: ps(), Default: cfgOf(),
			Make: func(cfg []int) Inst {
				x := volume.NewObv[float64]()
				return Inst{Idle: x.IdlePeriod, Compute: func(in []<-chan float64) []Out { return outs(x.Compute(in[0], in[1])) }}
			}},
		Pipe{Name: "volume.Vpt", Class: "indicator", Inputs: ins("close", "volume"), Params: ps(), Default: cfgOf(),
			Make: func(cfg []int) Inst {
				x := volume.NewVpt[float64]()
				return Inst{Idle: x.IdlePeriod, Compute: func(in []<-chan float64) []Out { return outs(x.Compute(in[0], in[1])) }}
			}},
		Pipe{Name: "volume.Vwap", Class: "indicator", Inputs: ins("close", "volume"), Params: ps("period"),
			Default: cfgOf(volume.DefaultVwapPeriod),
			Make: func(cfg []int) Inst {
				x := volume.NewVwapWithPeriod[float64](cfg[0])
				return Inst{Idle: x.IdlePeriod, Compute: func(in []<-chan float64) []Out { return outs(x.Compute(in[0], in[1])) }}
			}},
	)
}
