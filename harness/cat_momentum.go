//go:build verif

package main

import (
	"github.com/cinar/indicator/v2/momentum"
)

// Catalogue of the momentum package: one entry per type with a Compute method (10 types).
// Every type of the package has an IdlePeriod method.

func init() {
	register(
		// AwesomeOscillator: Median = (Low + High) / 2, AO = short SMA - long SMA of the median.
		Pipe{Name: "momentum.AwesomeOscillator", Class: "indicator", Inputs: ins("high", "low"), Params: ps("short", "long"),
			Default: cfgOf(momentum.DefaultAwesomeOscillatorShortPeriod, momentum.DefaultAwesomeOscillatorLongPeriod),
			Valid:   func(c []int) bool { return c[0] <= c[1] },
			Make: func(cfg []int) Inst {
				x := momentum.NewAwesomeOscillator[float64]()
				x.ShortSma.Period, x.LongSma.Period = cfg[0], cfg[1]
				return Inst{Idle: x.IdlePeriod, Compute: func(in []<-chan float64) []Out { return outs(x.Compute(in[0], in[1])) }}
			}},
		// ChaikinOscillator: CO = Ema(short, AD) - Ema(long, AD).  Outputs: co, ad.
		Pipe{Name: "momentum.ChaikinOscillator", Class: "indicator", Inputs: ins("high", "low", "close", "volume"), Params: ps("short", "long"),
			Default: cfgOf(momentum.DefaultChaikinOscillatorShortPeriod, momentum.DefaultChaikinOscillatorLongPeriod),
			Valid:   func(c []int) bool { return c[0] <= c[1] },
			Make: func(cfg []int) Inst {
				x := momentum.NewChaikinOscillator[float64]()
				x.ShortEma.Period, x.LongEma.Period = cfg[0], cfg[1]
				return Inst{Idle: x.IdlePeriod, Compute: func(in []<-chan float64) []Out {
					a, b := x.Compute(in[0], in[1], in[2], in[3])
					return outs(a, b)
				}}
			}},
		// IchimokuCloud: six nested MovingMax/MovingMin instances (exported, separately configurable) and
		// the lagging period.  The documented formulas use one period per line (conversion 9, base 26,
		// leading 52); Valid keeps the documented ordering conversion <= base <= leading for both the
		// Max and the Min instances.
		Pipe{Name: "momentum.IchimokuCloud", Class: "indicator", Inputs: ins("high", "low", "close"),
			Params: ps("conversionMax", "conversionMin", "baseMax", "baseMin", "leadingMax", "leadingMin", "lagging"),
			Default: cfgOf(
				momentum.DefaultIchimokuCloudConversionPeriod, momentum.DefaultIchimokuCloudConversionPeriod,
				momentum.DefaultIchimokuCloudBasePeriod, momentum.DefaultIchimokuCloudBasePeriod,
				momentum.DefaultIchimokuCloudLeadingPeriod, momentum.DefaultIchimokuCloudLeadingPeriod,
				momentum.DefaultIchimokuCloudLaggingPeriod),
			Valid: func(c []int) bool {
				return c[0] == c[1] && c[2] == c[3] && c[4] == c[5] && c[0] <= c[2] && c[2] <= c[4]
			},
			// Documented formulas of the five outputs, in the order Compute returns them
			// ("Returns conversionLine, baseLine, leadingSpanA, leadingSpanB, laggingSpan"):
			//   o0 conversionLine: Tenkan-sen (Conversion Line) = (9-Period High + 9-Period Low) / 2
			//   o1 baseLine:       Kijun-sen (Base Line) = (26-Period High + 26-Period Low) / 2
			//   o2 leadingSpanA:   Senkou Span A (Leading Span A) = (Conversion Line + Base Line) / 2
			//   o3 leadingSpanB:   Senkou Span B (Leading Span B) = (52-Period High + 52-Period Low) / 2
			//   o4 laggingSpan:    Chikou Span (Lagging Span) = Closing plotted 26 days in the past.
			// (9 / 26 / 52 / 26 are the conversion / base / leading / lagging periods.)
			// The lagging span is documented as the closing "plotted LaggingPeriod days in the past": its k-th
			// value refers to input position k + w - LaggingPeriod.
			Lag: func(c []int) []int { return []int{0, 0, 0, 0, -c[6]} },
			Make: func(cfg []int) Inst {
				x := momentum.NewIchimokuCloud[float64]()
				x.ConversionMax.Period, x.ConversionMin.Period = cfg[0], cfg[1]
				x.BaseMax.Period, x.BaseMin.Period = cfg[2], cfg[3]
				x.LeadingMax.Period, x.LeadingMin.Period = cfg[4], cfg[5]
				x.LaggingPeriod = cfg[6]
				return Inst{Idle: x.IdlePeriod, Compute: func(in []<-chan float64) []Out {
					a, b, c, d, e := x.Compute(in[0], in[1], in[2])
					return outs(a, b, c, d, e)
				}}
			}},
		// Ppo: outputs ppo, signal, histogram.
		Pipe{Name: "momentum.Ppo", Class: "indicator", Inputs: in1("close"), Params: ps("short", "long", "signal"),
			Default: cfgOf(momentum.DefaultPpoShortPeriod, momentum.DefaultPpoLongPeriod, momentum.DefaultPpoSignalPeriod),
			Valid:   func(c []int) bool { return c[0] <= c[1] },
			Make: func(cfg []int) Inst {
				x := momentum.NewPpo[float64]()
				x.ShortEma.Period, x.LongEma.Period, x.SignalEma.Period = cfg[0], cfg[1], cfg[2]
				return Inst{Idle: x.IdlePeriod, Compute: func(in []<-chan float64) []Out {
					a, b, c := x.Compute(in[0])
					return outs(a, b, c)
				}}
			}},
		// Pvo: outputs pvo, signal, histogram.
		Pipe{Name: "momentum.Pvo", Class: "indicator", Inputs: in1("volume"), Params: ps("short", "long", "signal"),
			Default: cfgOf(momentum.DefaultPvoShortPeriod, momentum.DefaultPvoLongPeriod, momentum.DefaultPvoSignalPeriod),
			Valid:   func(c []int) bool { return c[0] <= c[1] },
			Make: func(cfg []int) Inst {
				x := momentum.NewPvo[float64]()
				x.ShortEma.Period, x.LongEma.Period, x.SignalEma.Period = cfg[0], cfg[1], cfg[2]
				return Inst{Idle: x.IdlePeriod, Compute: func(in []<-chan float64) []Out {
					a, b, c := x.Compute(in[0])
					return outs(a, b, c)
				}}
			}},
		// Qstick: QS = SMA(Closings - Openings).  Compute(openings, closings).
		Pipe{Name: "momentum.Qstick", Class: "indicator", Inputs: ins("open", "close"), Params: ps("period"),
			Default: cfgOf(momentum.DefaultQstickPeriod),
			Make: func(cfg []int) Inst {
				x := momentum.NewQstick[float64]()
				x.Sma.Period = cfg[0]
				return Inst{Idle: x.IdlePeriod, Compute: func(in []<-chan float64) []Out { return outs(x.Compute(in[0], in[1])) }}
			}},
		Pipe{Name: "momentum.Rsi", Class: "indicator", Inputs: in1("close"), Params: ps("period"),
			Default: cfgOf(momentum.DefaultRsiPeriod),
			Make: func(cfg []int) Inst {
				x := momentum.NewRsiWithPeriod[float64](cfg[0])
				return Inst{Idle: x.IdlePeriod, Compute: func(in []<-chan float64) []Out { return outs(x.Compute(in[0])) }}
			}},
		// StochasticOscillator: outputs k, d.  Max and Min are separate exported knobs; the documented
		// default is one "max and min period".
		Pipe{Name: "momentum.StochasticOscillator", Class: "indicator", Inputs: ins("high", "low", "close"), Params: ps("max", "min", "sma"),
			Default: cfgOf(momentum.DefaultStochasticOscillatorMaxAndMinPeriod, momentum.DefaultStochasticOscillatorMaxAndMinPeriod,
				momentum.DefaultStochasticOscillatorPeriod),
			// the documented formula has ONE look-back period for the highest high and the lowest low
			Valid: func(c []int) bool { return c[0] == c[1] },
			Make: func(cfg []int) Inst {
				x := momentum.NewStochasticOscillator[float64]()
				x.Max.Period, x.Min.Period, x.Sma.Period = cfg[0], cfg[1], cfg[2]
				return Inst{Idle: x.IdlePeriod, Compute: func(in []<-chan float64) []Out {
					a, b := x.Compute(in[0], in[1], in[2])
					return outs(a, b)
				}}
			}},
		// StochasticRsi: NewStochasticRsiWithPeriod sets the RSI, Min and Max periods from one period.
		Pipe{Name: "momentum.StochasticRsi", Class: "indicator", Inputs: in1("close"), Params: ps("period"),
			Default: cfgOf(momentum.DefaultStochasticRsiPeriod),
			Make: func(cfg []int) Inst {
				x := momentum.NewStochasticRsiWithPeriod[float64](cfg[0])
				return Inst{Idle: x.IdlePeriod, Compute: func(in []<-chan float64) []Out { return outs(x.Compute(in[0])) }}
			}},
		// WilliamsR: Max and Min are separate exported knobs; the documented default is one period.
		Pipe{Name: "momentum.WilliamsR", Class: "indicator", Inputs: ins("high", "low", "close"), Params: ps("max", "min"),
			Default: cfgOf(momentum.DefaultWilliamsRPeriod, momentum.DefaultWilliamsRPeriod),
			Valid:   func(c []int) bool { return c[0] == c[1] },
			Make: func(cfg []int) Inst {
				x := momentum.NewWilliamsR[float64]()
				x.Max.Period, x.Min.Period = cfg[0], cfg[1]
				return Inst{Idle: x.IdlePeriod, Compute: func(in []<-chan float64) []Out { return outs(x.Compute(in[0], in[1], in[2])) }}
			}},
	)
}
