//go:build verif

package main

import (
	"math"
	"time"

	"github.com/cinar/indicator/v2/asset"
	"github.com/cinar/indicator/v2/helper"
)

// Out is one output channel of a pipeline, adapted to float64 values so that every pipeline can
// be driven and compared uniformly.
type Out struct {
	Name string
	Chan any                    // the raw channel (for the recorder)
	Recv func() (float64, bool) // blocking receive, converted
}

// OutOf adapts a channel of any element type.
func OutOf[T any](name string, c <-chan T, conv func(T) float64) Out {
	return Out{Name: name, Chan: c, Recv: func() (float64, bool) {
		v, ok := <-c
		if !ok {
			return 0, false
		}
		return conv(v), true
	}}
}

func ident(v float64) float64 { return v }

// outs adapts float64 channels, naming them o0, o1, ...
func outs(cs ...<-chan float64) []Out {
	r := make([]Out, len(cs))
	for i, c := range cs {
		r[i] = OutOf("o"+itoa(i), c, ident)
	}
	return r
}

func itoa(i int) string {
	if i == 0 {
		return "0"
	}
	neg := i < 0
	if neg {
		i = -i
	}
	s := ""
	for i > 0 {
		s = string(rune('0'+i%10)) + s
		i /= 10
	}
	if neg {
		s = "-" + s
	}
	return s
}

// Inst is a configured instance (an indicator or strategy value) of the library.
type Inst struct {
	// Idle is the warm-up the instance declares (IdlePeriod()); nil when the type has no such method.
	Idle func() int
	// Compute wires the pipeline on float64 inputs (indicators, helpers).
	Compute func(in []<-chan float64) []Out
	// ComputeS wires the pipeline on a snapshot stream (strategies).
	ComputeS func(in <-chan *asset.Snapshot) []Out
	// Report builds the strategy report on a snapshot stream.
	Report func(in <-chan *asset.Snapshot) *helper.Report
	// Strat is the strategy value itself (strategies only), so that compounds can wrap it.
	Strat any
}

// Pipe is one catalogue entry.
type Pipe struct {
	Name    string   // e.g. "trend.Sma"
	Class   string   // "indicator" | "strategy" | "helper" | "compound"
	Inputs  []string // input names; "open","high","low","close","volume" get OHLCV-consistent data
	Params  []string // names of the integer configuration parameters
	Default []int    // the default configuration
	// Valid says whether a configuration is admissible (documented ordering constraints); nil = all >= 1.
	Valid func(cfg []int) bool
	// Implied is the warm-up the documented formula implies, for types without IdlePeriod(); nil otherwise.
	Implied func(cfg []int) int
	// Lag is the documented extra lag of each output relative to the warm-up (nil = all zero).
	Lag func(cfg []int) []int
	// MaxPeriod caps grid values for this entry (0 = default cap).
	Make func(cfg []int) Inst
	// Fields is the documented set of snapshot fields a strategy depends on.
	Fields []string
}

var catalogue []Pipe

func register(ps ...Pipe) { catalogue = append(catalogue, ps...) }

func findPipe(name string) *Pipe {
	for i := range catalogue {
		if catalogue[i].Name == name {
			return &catalogue[i]
		}
	}
	return nil
}

func in1(a string) []string    { return []string{a} }
func ins(a ...string) []string { return a }
func ps(a ...string) []string  { return a }
func cfgOf(a ...int) []int     { return a }
func allGE1(cfg []int) bool {
	for _, c := range cfg {
		if c < 1 {
			return false
		}
	}
	return true
}

// ---------------------------------------------------------------------------------------------
// Deterministic data.  value(seed, input, position) - perturbing position h replaces the seed for
// all positions >= h, so everything before h is bit-identical.

func splitmix(x uint64) uint64 {
	x += 0x9e3779b97f4a7c15
	x = (x ^ (x >> 30)) * 0xbf58476d1ce4e5b9
	x = (x ^ (x >> 27)) * 0x94d049bb133111eb
	return x ^ (x >> 31)
}

func unit(seed uint64, a, b int) float64 {
	h := splitmix(seed ^ splitmix(uint64(a)*0x100000001b3+uint64(b)+1))
	return float64(h>>11) / float64(1<<53)
}

// Bar is one OHLCV bar.
type Bar struct{ O, H, L, C, V float64 }

// DataSpec describes the data of a run.
type DataSpec struct {
	Seed      uint64 `json:"seed"`
	Perturbed bool   `json:"perturbed"` // positions >= PerturbAt use Seed2
	PerturbAt int    `json:"perturb_at"`
	Seed2     uint64 `json:"seed2"`
	Round     int    `json:"round"` // digits to round to (0 = none)
	// PriceScale / VolumeScale multiply every price / every volume after rounding (0 = 1); powers of two keep
	// IEEE arithmetic exactly scale-covariant (property C18)
	PriceScale  float64 `json:"price_scale,omitempty"`
	VolumeScale float64 `json:"volume_scale,omitempty"`
}

func (d DataSpec) seedAt(i int) uint64 {
	if d.Perturbed && i >= d.PerturbAt {
		return d.Seed2
	}
	return d.Seed
}

func rnd(v float64, digits int) float64 {
	if digits <= 0 {
		return v
	}
	p := math.Pow(10, float64(digits))
	return math.Round(v*p) / p
}

// BarAt builds a valid bar (low <= open, close <= high, positive prices, non-negative volume).
func (d DataSpec) BarAt(i int) Bar {
	s := d.seedAt(i)
	base := 20 + 60*unit(s, 1, i)
	o := base + 6*(unit(s, 2, i)-0.5)
	c := base + 6*(unit(s, 3, i)-0.5)
	h := math.Max(o, c) + 3*unit(s, 4, i)
	l := math.Min(o, c) - 3*unit(s, 5, i)
	v := math.Floor(1000 + 9000*unit(s, 6, i))
	ps, vs := d.PriceScale, d.VolumeScale
	if ps == 0 {
		ps = 1
	}
	if vs == 0 {
		vs = 1
	}
	return Bar{rnd(o, d.Round) * ps, rnd(h, d.Round) * ps, rnd(l, d.Round) * ps, rnd(c, d.Round) * ps, v * vs}
}

// Value gives the value of a named input at position i.
func (d DataSpec) Value(name string, j, i int) float64 {
	b := d.BarAt(i)
	switch name {
	case "open":
		return b.O
	case "high":
		return b.H
	case "low":
		return b.L
	case "close":
		return b.C
	case "volume":
		return b.V
	}
	return rnd(1+99*unit(d.seedAt(i), 10+j, i), d.Round)
}

var day0 = time.Date(2020, 1, 1, 0, 0, 0, 0, time.UTC)

// Snapshot gives the snapshot at position i.
func (d DataSpec) Snapshot(i int) *asset.Snapshot {
	b := d.BarAt(i)
	return &asset.Snapshot{Date: day0.AddDate(0, 0, i), Open: b.O, High: b.H, Low: b.L, Close: b.C, Volume: b.V}
}
