//go:build verif

package main

import (
	"encoding/json"
	"fmt"
	"os"
	"reflect"
	"time"

	"github.com/cinar/indicator/v2/asset"
	"github.com/cinar/indicator/v2/backtest"
)

// Replays ONE history of spec/Tools.tla (Register / New) on both real registries - the maps are process-wide, so
// every history gets a process of its own:   replay-registry '<history json>'   -> {"mismatches": [...]}

type markerRepo struct {
	asset.Repository
	builder, config string
}

type markerReport struct {
	backtest.Report
	builder, config string
}

type regStep struct {
	Op      string   `json:"op"`
	Name    string   `json:"name"`
	Builder []string `json:"builder"`
	Config  string   `json:"config"`
	Out     struct {
		Ok      bool     `json:"ok"`
		Builder []string `json:"builder"`
		Config  string   `json:"config"`
	} `json:"out"`
}

func replayRegistryMain(args []string) {
	var h []regStep
	if err := json.Unmarshal([]byte(args[0]), &h); err != nil {
		fmt.Fprintln(os.Stderr, "bad history:", err)
		os.Exit(3)
	}
	var mm []string
	add := func(f string, a ...any) { mm = append(mm, fmt.Sprintf(f, a...)) }
	for i, st := range h {
		switch st.Op {
		case "register":
			b := st.Builder[1]
			asset.RegisterRepositoryBuilder(st.Name, func(config string) (asset.Repository, error) {
				return &markerRepo{builder: b, config: config}, nil
			})
			backtest.RegisterReportBuilder(st.Name, func(config string) (backtest.Report, error) {
				return &markerReport{builder: b, config: config}, nil
			})
		case "new":
			// repositories: built-ins memory / filesystem / tiingo
			r, err := asset.NewRepository(st.Name, st.Config)
			wantOK := st.Out.Ok || st.Name == "tiingo"
			if st.Name == "html" && !(len(st.Out.Builder) > 0 && st.Out.Builder[0] == "custom") {
				wantOK = false // html is a built-in of the report registry only
			}
			switch {
			case (err == nil) != wantOK:
				add("step %d: asset.NewRepository(%q): error=%v, prescribed ok=%v", i, st.Name, err, wantOK)
			case err == nil && len(st.Out.Builder) > 0 && st.Out.Builder[0] == "custom":
				m, ok := r.(*markerRepo)
				if !ok || m.builder != st.Out.Builder[1] || m.config != st.Config {
					add("step %d: asset.NewRepository(%q, %q) is not what the last registered builder %v makes of the config: %v", i, st.Name, st.Config, st.Out.Builder, reflect.TypeOf(r))
				}
			case err == nil:
				want := map[string]string{"memory": "*asset.InMemoryRepository", "filesystem": "*asset.FileSystemRepository", "tiingo": "*asset.TiingoRepository"}[st.Name]
				if reflect.TypeOf(r).String() != want {
					add("step %d: asset.NewRepository(%q) built a %v, the built-in builder makes a %s", i, st.Name, reflect.TypeOf(r), want)
				}
			}
			// reports: built-in html
			rp, err := backtest.NewReport(st.Name, st.Config)
			custom := len(st.Out.Builder) > 0 && st.Out.Builder[0] == "custom"
			wantOK = custom || st.Name == "html"
			switch {
			case (err == nil) != wantOK:
				add("step %d: backtest.NewReport(%q): error=%v, prescribed ok=%v", i, st.Name, err, wantOK)
			case err == nil && custom:
				m, ok := rp.(*markerReport)
				if !ok || m.builder != st.Out.Builder[1] || m.config != st.Config {
					add("step %d: backtest.NewReport(%q, %q) is not what the last registered builder %v makes of the config", i, st.Name, st.Config, st.Out.Builder)
				}
			case err == nil:
				if reflect.TypeOf(rp).String() != "*backtest.HTMLReport" {
					add("step %d: backtest.NewReport(%q) built a %v", i, st.Name, reflect.TypeOf(rp))
				}
			}
		}
	}
	_ = time.Now
	b, _ := json.Marshal(map[string]any{"mismatches": mm, "steps": len(h)})
	fmt.Println(string(b))
}

func init() { extraCmds["replay-registry"] = replayRegistryMain }
