//go:build verif

package main

import (
	"bufio"
	"context"
	"encoding/json"
	"fmt"
	"log/slog"
	"os"
	"path/filepath"
	"regexp"
	"runtime"
	"sort"
	"strconv"
	"strings"
	"sync"
	"sync/atomic"
	"time"

	"github.com/cinar/indicator/v2/asset"
	"github.com/cinar/indicator/v2/backtest"
	"github.com/cinar/indicator/v2/helper"
	"github.com/cinar/indicator/v2/strategy"
)

// Runs backtest.Backtest.Run on scenarios (assets with scripted closing prices, stub strategies that buy on
// the first snapshot and sell on a given one, worker counts) with a recording Report, DataReport or
// HTMLReport, and evaluates every (asset, strategy) pair directly for comparison.

type btScenario struct {
	ID       int                  `json:"id"`
	Names    []string             `json:"names"`  // the job list
	Assets   map[string][]float64 `json:"assets"` // closing prices inside the look-back window, oldest first
	Old      int                  `json:"old"`    // additional snapshots older than the window (must be ignored)
	Sells    []int                `json:"sells"`  // one stub strategy per entry: buy at 0, sell at that index (0 = never sell)
	Workers  int                  `json:"workers"`
	Report   string               `json:"report"` // rec | data | html
	LastDays int                  `json:"lastDays"`
	Runs     int                  `json:"runs"` // 2: Run is called twice with the SAME report object; the second run is judged
}

type btCall struct {
	Seq int     `json:"seq"`
	Op  string  `json:"op"`
	A   string  `json:"a,omitempty"`
	S   string  `json:"s,omitempty"`
	N   int     `json:"n,omitempty"`
	Out float64 `json:"out,omitempty"`
}

type recReport struct {
	mu    sync.Mutex
	seq   int
	calls []btCall
	bar   *barrier
}

func (r *recReport) add(c btCall) {
	r.mu.Lock()
	r.seq++
	c.Seq = r.seq
	r.calls = append(r.calls, c)
	r.mu.Unlock()
}
func (r *recReport) Begin(names []string, _ []strategy.Strategy) error {
	r.add(btCall{Op: "begin", N: len(names)})
	return nil
}
func (r *recReport) AssetBegin(name string, _ []strategy.Strategy) error {
	r.add(btCall{Op: "assetbegin", A: name})
	r.bar.wait()
	return nil
}
func (r *recReport) Write(name string, s strategy.Strategy, snapshots <-chan *asset.Snapshot, actions <-chan strategy.Action, outcomes <-chan float64) error {
	go helper.Drain(snapshots)
	var last float64
	var wg sync.WaitGroup
	wg.Add(1)
	go func() {
		defer wg.Done()
		for o := range outcomes {
			last = o
		}
	}()
	n := 0
	for range actions {
		n++
	}
	wg.Wait()
	r.add(btCall{Op: "write", A: name, S: s.Name(), N: n, Out: last})
	return nil
}
func (r *recReport) AssetEnd(name string) error {
	r.add(btCall{Op: "assetend", A: name})
	return nil
}
func (r *recReport) End() error {
	r.add(btCall{Op: "end"})
	return nil
}

func stubFor(sell int, n int) *stub {
	w := make([]strategy.Action, n)
	if n > 0 {
		w[0] = strategy.Buy
	}
	if sell > 0 && sell < n {
		w[sell] = strategy.Sell
	}
	return &stub{name: "S" + itoa(sell), word: w}
}

var tdRe = regexp.MustCompile(`(?s)<tr>(.*?)</tr>`)
var outRe = regexp.MustCompile(`(-?[0-9]+\.[0-9]+)%`)
var linkRe = regexp.MustCompile(`<a href="[^"]*">([^<]*)</a>`)

// parseHTMLRows extracts (link texts..., outcome) per table row
func parseHTMLRows(html string) [][]string {
	var rows [][]string
	for _, m := range tdRe.FindAllStringSubmatch(html, -1) {
		o := outRe.FindStringSubmatch(m[1])
		if o == nil {
			continue
		}
		var row []string
		for _, l := range linkRe.FindAllStringSubmatch(m[1], -1) {
			row = append(row, l[1])
		}
		// second cell of index.html: plain strategy name
		cells := regexp.MustCompile(`(?s)<td>(.*?)</td>`).FindAllStringSubmatch(m[1], -1)
		if len(cells) > 1 && !strings.Contains(cells[1][1], "<") {
			row = append(row, strings.TrimSpace(cells[1][1]))
		}
		row = append(row, o[1])
		rows = append(rows, row)
	}
	return rows
}

func runBacktestScenario(sc *btScenario, tmp string) map[string]any {
	res := map[string]any{"id": sc.ID}
	repo := asset.NewInMemoryRepository()
	today := time.Now().UTC().Truncate(24 * time.Hour)
	names := make([]string, 0, len(sc.Assets))
	for n := range sc.Assets {
		names = append(names, n)
	}
	sort.Strings(names)
	maxLen := 0
	window := map[string][]*asset.Snapshot{}
	for _, n := range names {
		closes := sc.Assets[n]
		var snaps []*asset.Snapshot
		// old snapshots, outside the look-back window, with prices that would change every outcome
		for k := sc.Old; k >= 1; k-- {
			d := today.AddDate(0, 0, -(sc.LastDays + k))
			snaps = append(snaps, &asset.Snapshot{Date: d, Open: 1, High: 1, Low: 1, Close: 1, Volume: 1})
		}
		for i, c := range closes {
			d := today.AddDate(0, 0, -(len(closes) - 1 - i))
			s := &asset.Snapshot{Date: d, Open: c, High: c, Low: c, Close: c, Volume: 1}
			snaps = append(snaps, s)
			window[n] = append(window[n], s)
		}
		if len(closes) > maxLen {
			maxLen = len(closes)
		}
		repo.Append(n, helper.SliceToChan(snaps))
	}
	mk := func() []strategy.Strategy {
		ss := make([]strategy.Strategy, len(sc.Sells))
		for i, k := range sc.Sells {
			ss[i] = stubFor(k, maxLen+sc.Old+2)
		}
		return ss
	}
	// direct evaluation
	direct := map[string]map[string][]float64{}
	for _, n := range names {
		direct[n] = map[string][]float64{}
		for _, s := range mk() {
			acts, outs := strategy.ComputeWithOutcome(s, helper.SliceToChan(window[n]))
			var la strategy.Action
			cnt := 0
			var wg sync.WaitGroup
			wg.Add(1)
			go func() {
				defer wg.Done()
				for a := range acts {
					la = a
					cnt++
				}
			}()
			var lo float64
			for o := range outs {
				lo = o
			}
			wg.Wait()
			direct[n][s.Name()] = []float64{lo, float64(la), float64(cnt)}
		}
	}
	res["direct"] = direct
	var rep backtest.Report
	var rec *recReport
	var data *backtest.DataReport
	var html *backtest.HTMLReport
	gateNeed := 0
	dir := filepath.Join(tmp, fmt.Sprintf("bt%d", sc.ID))
	switch sc.Report {
	case "rec":
		rec = &recReport{}
		need := sc.Workers
		if len(sc.Assets) < need {
			need = len(sc.Assets)
		}
		if need > 1 {
			rec.bar = newBarrier(need)
		}
		rep = rec
	case "data":
		data = backtest.NewDataReport()
		rep = data
	case "html":
		h := backtest.NewHTMLReport(dir)
		h.WriteStrategyReports = false
		// schedule gate through the report's own Logger field: AssetEnd logs "Best outcome" between taking the asset's
		// results and recording its best one; holding the workers there (yielding, no timer, never blocking for good)
		// makes the AssetEnd calls of min(workers, assets) workers overlap
		need := sc.Workers
		if len(sc.Assets) < need {
			need = len(sc.Assets)
		}
		h.Logger = slog.New(&gateHandler{need: int32(need)})
		html, gateNeed = h, need
		rep = h
		defer os.RemoveAll(dir)
	}
	bt := backtest.NewBacktest(repo, rep)
	bt.Names = append([]string(nil), sc.Names...)
	bt.Strategies = mk()
	bt.Workers = sc.Workers
	bt.LastDays = sc.LastDays
	err := bt.Run()
	if err != nil {
		res["err"] = err.Error()
	}
	if sc.Runs == 2 && err == nil {
		// a report object serves one run after another: what it holds / writes after the second run is that run's results
		if html != nil {
			html.Logger = slog.New(&gateHandler{need: int32(gateNeed)})
		}
		if rec != nil {
			rec.calls = nil
		}
		if err = bt.Run(); err != nil {
			res["err"] = "second run: " + err.Error()
		}
	}
	if rec != nil {
		res["log"] = rec.calls
	}
	if data != nil {
		out := map[string][][]any{}
		for a, rs := range data.Results {
			for _, r := range rs {
				out[a] = append(out[a], []any{r.Strategy.Name(), r.Outcome, int(r.Action), len(r.Transactions)})
			}
		}
		res["data"] = out
	}
	if sc.Report == "html" {
		pages := map[string][][]string{}
		for _, n := range names {
			b, err := os.ReadFile(filepath.Join(dir, n+".html"))
			if err == nil {
				pages[n] = parseHTMLRows(string(b))
			}
		}
		b, err := os.ReadFile(filepath.Join(dir, "index.html"))
		if err == nil {
			pages["index"] = parseHTMLRows(string(b))
		} else {
			res["err"] = "no index.html: " + err.Error()
		}
		res["html"] = pages
	}
	_ = strconv.Itoa
	return res
}

func backtestChildMain(args []string) {
	data, err := os.ReadFile(args[0])
	if err != nil {
		fmt.Fprintln(os.Stderr, err)
		os.Exit(3)
	}
	start := 0
	fmt.Sscan(args[1], &start)
	var scs []btScenario
	sc := bufio.NewScanner(bytesReader(data))
	sc.Buffer(make([]byte, 1<<20), 1<<26)
	for sc.Scan() {
		var s btScenario
		if err := json.Unmarshal(sc.Bytes(), &s); err != nil {
			fmt.Fprintln(os.Stderr, "bad scenario:", err)
			os.Exit(3)
		}
		scs = append(scs, s)
	}
	tmp, _ := os.MkdirTemp("", "verif-bt-")
	defer os.RemoveAll(tmp)
	w := bufio.NewWriter(os.Stdout)
	for i := start; i < len(scs); i++ {
		fmt.Fprintf(w, "BEGIN %d\n", i)
		w.Flush()
		res := runBacktestScenario(&scs[i], tmp)
		b, _ := json.Marshal(res)
		fmt.Fprintf(w, "RESULT %d %s\n", i, b)
		w.Flush()
	}
	fmt.Fprintln(w, "END")
	w.Flush()
}

func init() { extraCmds["backtest-child"] = backtestChildMain }

// gateHandler is a slog.Handler that discards every record and, on "Best outcome", waits (yielding) until `need` workers
// have arrived or a bounded number of yields has passed.
type gateHandler struct {
	need    int32
	arrived atomic.Int32
}

func (g *gateHandler) Enabled(context.Context, slog.Level) bool { return true }
func (g *gateHandler) Handle(_ context.Context, r slog.Record) error {
	if r.Message == "Best outcome" {
		g.arrived.Add(1)
		for i := 0; i < 200000 && g.arrived.Load() < g.need; i++ {
			runtime.Gosched()
		}
	}
	return nil
}
func (g *gateHandler) WithAttrs([]slog.Attr) slog.Handler { return g }
func (g *gateHandler) WithGroup(string) slog.Handler      { return g }
