//go:build verif

package main

import "bytes"

// extraMain dispatches the subcommands of the sequential-component harnesses.
func extraMain(cmd string, args []string) bool {
	if f, ok := extraCmds[cmd]; ok {
		f(args)
		return true
	}
	return false
}

var extraCmds = map[string]func(args []string){}

func bytesReader(b []byte) *bytes.Reader { return bytes.NewReader(b) }
