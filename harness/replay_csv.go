//go:build verif

package main

import (
	"bufio"
	"bytes"
	"encoding/json"
	"fmt"
	"math"
	"os"
	"path/filepath"
	"reflect"
	"strings"
	"time"

	"github.com/cinar/indicator/v2/helper"
)

// Replays the file histories and header arrangements TLC generates from spec/CsvFile.tla on the real
// helper.Csv[T]; plus the value-pool round trips (every supported kind) for the CSV and JSON codecs.

type lineRow struct {
	Id  int    `header:"Id"`
	Pad string `header:"Pad"`
}

// every line, header included ("Id,Pad\n"), is 7 bytes long
func mkLineRow(id int) *lineRow {
	s := fmt.Sprint(id)
	return &lineRow{Id: id, Pad: strings.Repeat("x", 5-len(s))}
}

type csvStep struct {
	Op     string `json:"op"`
	K      int    `json:"k"`
	Ok     bool   `json:"ok"`
	Expect []int  `json:"expect"`
	Lines  int    `json:"lines"`
	Start  struct {
		Ex bool  `json:"ex"`
		F  []int `json:"f"`
	} `json:"start"`
}

type abc struct {
	A int `header:"A"`
	B int `header:"B"`
	C int `header:"C"`
}

type allKinds struct {
	S   string
	B   bool
	I   int
	I8  int8
	I16 int16
	I32 int32
	I64 int64
	U   uint
	U8  uint8
	U16 uint16
	U32 uint32
	U64 uint64
	F32 float32
	F64 float64
	T   time.Time `format:"2006-01-02"`
	T2  time.Time
}

var stringPool = []string{"", "plain", "with,comma", "with \"quotes\"", "line\nbreak", " leading and trailing ", "tab\tinside", "ünïcödé ✓", "\"", ",", "a\r\nb", "'single'", "#hash", "=1+1"}
var f64Pool = []float64{0, math.Copysign(0, -1), 1, -1, 0.1, 1.0 / 3.0, math.MaxFloat64, -math.MaxFloat64, math.SmallestNonzeroFloat64, 2.2250738585072014e-308, 1e21, 1e-7, 123456789.12345678, math.Inf(1), math.Inf(-1), math.Pi}
var f32Pool = []float32{0, 1, -1, 0.1, math.MaxFloat32, math.SmallestNonzeroFloat32, 1.17549435e-38, 16777217, float32(math.Inf(1)), 3.4028235e+38}

func poolRow(i int, finiteOnly bool) *allKinds {
	f64 := f64Pool[i%len(f64Pool)]
	f32 := f32Pool[i%len(f32Pool)]
	if finiteOnly {
		if math.IsInf(f64, 0) {
			f64 = 42.5
		}
		if math.IsInf(float64(f32), 0) {
			f32 = 42.5
		}
	}
	r := &allKinds{
		S: stringPool[i%len(stringPool)], B: i%2 == 0,
		I: []int{0, math.MaxInt64, math.MinInt64, -1}[i%4], I8: []int8{0, 127, -128, -1}[i%4], I16: []int16{0, 32767, -32768}[i%3],
		I32: []int32{0, math.MaxInt32, math.MinInt32}[i%3], I64: []int64{0, math.MaxInt64, math.MinInt64, 42}[i%4],
		U: []uint{0, math.MaxUint64, 7}[i%3], U8: []uint8{0, 255, 9}[i%3], U16: []uint16{0, 65535}[i%2], U32: []uint32{0, math.MaxUint32}[i%2],
		U64: []uint64{0, math.MaxUint64, 1 << 63}[i%3], F32: f32, F64: f64,
		// a whole day in the declared format "2006-01-02" - also given in zones east and west of UTC (the day is the
		// one of the value's own calendar)
		T:  time.Date(1970+i%80, time.Month(1+i%12), 1+i%28, 0, 0, 0, 0, []*time.Location{time.UTC, time.FixedZone("east", 5*3600+1800), time.FixedZone("west", -8*3600)}[i%3]),
		T2: time.Date(2001+i%30, time.Month(1+i%12), 1+i%28, i%24, i%60, (i*7)%60, 0, time.UTC),
	}
	return r
}

func sameAllKinds(a, b *allKinds) string {
	va, vb := reflect.ValueOf(*a), reflect.ValueOf(*b)
	for i := 0; i < va.NumField(); i++ {
		name := va.Type().Field(i).Name
		fa, fb := va.Field(i), vb.Field(i)
		switch fa.Kind() {
		case reflect.Float32, reflect.Float64:
			if math.Float64bits(fa.Float()) != math.Float64bits(fb.Float()) {
				return fmt.Sprintf("field %s: wrote %v (bits %x) read %v (bits %x)", name, fa.Float(), math.Float64bits(fa.Float()), fb.Float(), math.Float64bits(fb.Float()))
			}
		case reflect.Struct:
			ta, tb := fa.Interface().(time.Time), fb.Interface().(time.Time)
			if format := va.Type().Field(i).Tag.Get("format"); format != "" {
				// a date in a declared format: what the format shows must come back
				if ta.Format(format) != tb.Format(format) {
					return fmt.Sprintf("field %s: wrote %v (%s in the declared format) read %v (%s)", name, ta, ta.Format(format), tb, tb.Format(format))
				}
			} else if !ta.Equal(tb) {
				return fmt.Sprintf("field %s: wrote %v read %v", name, fa.Interface(), fb.Interface())
			}
		default:
			if !reflect.DeepEqual(fa.Interface(), fb.Interface()) {
				return fmt.Sprintf("field %s: wrote %#v read %#v", name, fa.Interface(), fb.Interface())
			}
		}
	}
	return ""
}

var sharedCsv *helper.Csv[abc]

func replayCsvMain(args []string) {
	f, err := os.Open(args[0])
	if err != nil {
		fmt.Fprintln(os.Stderr, err)
		os.Exit(3)
	}
	defer f.Close()
	tmp, err := os.MkdirTemp("", "verif-csv-")
	if err != nil {
		fmt.Fprintln(os.Stderr, err)
		os.Exit(3)
	}
	defer os.RemoveAll(tmp)
	type mm struct {
		Kind string `json:"kind"`
		Case int    `json:"case"`
		Step int    `json:"step"`
		What string `json:"what"`
	}
	var out []mm
	add := func(kind string, c, s int, w string) {
		if len(out) < 200 {
			out = append(out, mm{kind, c, s, w})
		}
	}
	sc := bufio.NewScanner(f)
	sc.Buffer(make([]byte, 1<<20), 1<<26)
	nh, nhdr, checks := 0, 0, 0
	for sc.Scan() {
		var rec struct {
			Kind   string         `json:"kind"`
			Hist   []csvStep      `json:"hist"`
			Header []string       `json:"header"`
			Map    map[string]int `json:"map"`
		}
		if err := json.Unmarshal(sc.Bytes(), &rec); err != nil {
			fmt.Fprintln(os.Stderr, "bad line:", err)
			os.Exit(3)
		}
		switch rec.Kind {
		case "hist":
			name := filepath.Join(tmp, fmt.Sprintf("h%d.csv", nh))
			st := rec.Hist[0].Start
			if st.Ex {
				content := ""
				if len(st.F) == 1 {
					content = "Id,Pad\n"
				}
				os.WriteFile(name, []byte(content), 0o600)
			}
			ex := st.Ex
			for si, s := range rec.Hist {
				rows := make([]*lineRow, s.K)
				base := 0
				for _, e := range s.Expect {
					if e > base {
						base = e
					}
				}
				// the new rows are the last K ids of expect (ids are consecutive)
				for i := range rows {
					rows[i] = mkLineRow(base - s.K + 1 + i)
				}
				c, _ := helper.NewCsv[lineRow](true)
				var err error
				switch s.Op {
				case "write":
					err = c.WriteToFile(name, helper.SliceToChan(rows))
				case "append":
					err = c.AppendToFile(name, helper.SliceToChan(rows))
				case "appendorwrite":
					err = helper.AppendOrWriteToCsvFile(name, true, helper.SliceToChan(rows))
				}
				checks++
				if (err == nil) != s.Ok {
					add("file", nh, si, fmt.Sprintf("%s of %d rows: error = %v, model ok = %v", s.Op, s.K, err, s.Ok))
					if err != nil {
						// a failed call does not consume its input: release the producer
						continue
					}
				}
				if err == nil && s.Op != "append" {
					ex = true
				}
				ch, err := helper.ReadFromCsvFile[lineRow](name, true)
				checks++
				if err != nil {
					if ex {
						add("file", nh, si, fmt.Sprintf("reading back after %s fails: %v", s.Op, err))
					}
					continue
				}
				var got []int
				for r := range ch {
					got = append(got, r.Id)
				}
				if fmt.Sprint(got) != fmt.Sprint(s.Expect) && !(len(got) == 0 && len(s.Expect) == 0) {
					add("file", nh, si, fmt.Sprintf("after %s of %d rows the file reads back rows %v, it should hold %v", s.Op, s.K, got, s.Expect))
				}
			}
			os.Remove(name)
			nh++
		case "hdr":
			// two data rows; cell value = 10*row + column
			var sb strings.Builder
			sb.WriteString(strings.Join(rec.Header, ",") + "\n")
			for r := 1; r <= 2; r++ {
				cells := make([]string, len(rec.Header))
				for ci := range cells {
					cells[ci] = fmt.Sprint(10*r + ci + 1)
				}
				sb.WriteString(strings.Join(cells, ",") + "\n")
			}
			// once with a codec of its own, once with ONE codec that reads every arrangement in turn (the mapping belongs to
			// the input, not to the codec value)
			if sharedCsv == nil {
				sharedCsv, _ = helper.NewCsv[abc](true)
			}
			fresh, _ := helper.NewCsv[abc](true)
			for ci, c := range []*helper.Csv[abc]{fresh, sharedCsv} {
				how := []string{"", " (codec value reused from the previous input)"}[ci]
				var got []*abc
				for r := range c.ReadFromReader(strings.NewReader(sb.String())) {
					got = append(got, r)
				}
				checks++
				if len(got) != 2 {
					add("header", nhdr, 0, fmt.Sprintf("header %v%s: %d rows read instead of 2", rec.Header, how, len(got)))
				} else {
					for r := 1; r <= 2; r++ {
						want := func(f string) int {
							if rec.Map[f] == 0 {
								return 0
							}
							return 10*r + rec.Map[f]
						}
						g := got[r-1]
						if g.A != want("A") || g.B != want("B") || g.C != want("C") {
							add("header", nhdr, r, fmt.Sprintf("header %v%s row %d read as %+v, mapping by name gives A=%d B=%d C=%d", rec.Header, how, r, *g, want("A"), want("B"), want("C")))
						}
					}
				}
			}
			nhdr++
		}
	}
	// value pool round trips
	pool := 0
	for _, hasHeader := range []bool{true, false} {
		var rows []*allKinds
		for i := 0; i < 96; i++ {
			rows = append(rows, poolRow(i, false))
		}
		name := filepath.Join(tmp, "pool.csv")
		os.Remove(name)
		c, _ := helper.NewCsv[allKinds](hasHeader)
		var err error
		if hasHeader {
			err = c.WriteToFile(name, helper.SliceToChan(rows))
		} else {
			os.WriteFile(name, nil, 0o600)
			err = c.AppendToFile(name, helper.SliceToChan(rows))
		}
		if err != nil {
			add("pool", 0, 0, "writing the value pool fails: "+err.Error())
			continue
		}
		ch, err := helper.ReadFromCsvFile[allKinds](name, hasHeader)
		if err != nil {
			add("pool", 0, 0, "reading the value pool fails: "+err.Error())
			continue
		}
		var got []*allKinds
		for r := range ch {
			got = append(got, r)
		}
		checks++
		if len(got) != len(rows) {
			add("pool", 0, 0, fmt.Sprintf("hasHeader=%v: wrote %d rows, read %d", hasHeader, len(rows), len(got)))
		}
		for i := 0; i < len(got) && i < len(rows); i++ {
			pool++
			if d := sameAllKinds(rows[i], got[i]); d != "" {
				add("pool", i, 0, fmt.Sprintf("CSV round trip (hasHeader=%v) row %d: %s", hasHeader, i, d))
			}
		}
	}
	// JSON round trip (finite floats: JSON has no encoding for Inf)
	{
		var rows []*allKinds
		for i := 0; i < 96; i++ {
			rows = append(rows, poolRow(i, true))
		}
		var buf bytes.Buffer
		if err := helper.ChanToJSON(helper.SliceToChan(rows), &buf); err != nil {
			add("json", 0, 0, "ChanToJSON fails: "+err.Error())
		} else {
			var got []*allKinds
			for r := range helper.JSONToChan[*allKinds](&buf) {
				got = append(got, r)
			}
			checks++
			if len(got) != len(rows) {
				add("json", 0, 0, fmt.Sprintf("JSON: wrote %d values, read %d", len(rows), len(got)))
			}
			for i := 0; i < len(got) && i < len(rows); i++ {
				pool++
				if d := sameAllKinds(rows[i], got[i]); d != "" {
					add("json", i, 0, fmt.Sprintf("JSON round trip value %d: %s", i, d))
				}
			}
		}
		// scalars
		var b2 bytes.Buffer
		helper.ChanToJSON(helper.SliceToChan(f64Pool[:12]), &b2)
		gotf := helper.ChanToSlice(helper.JSONToChan[float64](&b2))
		for i := range gotf {
			pool++
			if math.Float64bits(gotf[i]) != math.Float64bits(f64Pool[i]) {
				add("json", i, 0, fmt.Sprintf("JSON float %v read back as %v", f64Pool[i], gotf[i]))
			}
		}
		var b3 bytes.Buffer
		helper.ChanToJSON(helper.SliceToChan(stringPool), &b3)
		gots := helper.ChanToSlice(helper.JSONToChan[string](&b3))
		if fmt.Sprint(gots) != fmt.Sprint(stringPool) {
			add("json", 0, 0, "JSON string pool does not round trip")
		}
	}
	b, _ := json.Marshal(map[string]any{"histories": nh, "headers": nhdr, "pool_rows": pool, "checks": checks, "mismatches": out})
	fmt.Println(string(b))
}

func init() { extraCmds["replay-csv"] = replayCsvMain }
