//go:build verif

package main

import (
	"bufio"
	"encoding/json"
	"fmt"
	"math"
	"os"
	"runtime"
	"strconv"
	"sync"

	"github.com/cinar/indicator/v2/helper"
)

// Runs catalogue indicators on the explicit input words TLC enumerates from spec/Formulas.tla and reports the
// values of every output (the comparison with the exact rational values of the model is done by the check).
//
//	replay-formula <cases.ndjson> <results.ndjson>
//	case:   {"id": k, "pipe": name, "cfg": [...], "in": [[v, ...] per input, in catalogue order]}
//	result: {"id": k, "idle": w, "outs": [["v", ...] per output]}   (values as shortest round-trip decimal strings)

type formulaCase struct {
	ID   int         `json:"id"`
	Pipe string      `json:"pipe"`
	Cfg  []int       `json:"cfg"`
	In   [][]float64 `json:"in"`
}

type formulaRes struct {
	ID   int        `json:"id"`
	Idle int        `json:"idle"`
	Outs [][]string `json:"outs"`
	Err  string     `json:"err,omitempty"`
}

func fstr(v float64) string {
	switch {
	case math.IsNaN(v):
		return "NaN"
	case math.IsInf(v, 1):
		return "+Inf"
	case math.IsInf(v, -1):
		return "-Inf"
	}
	return strconv.FormatFloat(v, 'g', -1, 64)
}

func runFormulaCase(c formulaCase) (res formulaRes) {
	res.ID = c.ID
	defer func() {
		if r := recover(); r != nil {
			res.Err = fmt.Sprint("panic: ", r)
		}
	}()
	p := findPipe(c.Pipe)
	if p == nil || p.Make == nil {
		res.Err = "unknown pipe " + c.Pipe
		return
	}
	if len(c.In) != len(p.Inputs) {
		res.Err = fmt.Sprintf("pipe %s takes %d inputs, case has %d", c.Pipe, len(p.Inputs), len(c.In))
		return
	}
	inst := p.Make(c.Cfg)
	if inst.Compute == nil {
		res.Err = "pipe " + c.Pipe + " has no float pipeline"
		return
	}
	res.Idle = -1
	if inst.Idle != nil {
		res.Idle = inst.Idle()
	} else if p.Implied != nil {
		res.Idle = p.Implied(c.Cfg)
	}
	ins := make([]<-chan float64, len(c.In))
	for i, vs := range c.In {
		ins[i] = helper.SliceToChan(vs)
	}
	outs := inst.Compute(ins)
	res.Outs = make([][]string, len(outs))
	var wg sync.WaitGroup
	for i := range outs {
		wg.Add(1)
		go func(i int) {
			defer wg.Done()
			vals := []string{}
			for {
				v, ok := outs[i].Recv()
				if !ok {
					break
				}
				vals = append(vals, fstr(v))
			}
			res.Outs[i] = vals
		}(i)
	}
	wg.Wait()
	return
}

func replayFormulaMain(args []string) {
	f, err := os.Open(args[0])
	if err != nil {
		fmt.Fprintln(os.Stderr, err)
		os.Exit(3)
	}
	defer f.Close()
	of, err := os.Create(args[1])
	if err != nil {
		fmt.Fprintln(os.Stderr, err)
		os.Exit(3)
	}
	defer of.Close()
	w := bufio.NewWriterSize(of, 1<<20)
	defer w.Flush()
	sc := bufio.NewScanner(f)
	sc.Buffer(make([]byte, 1<<20), 1<<26)
	jobs := make(chan formulaCase, 256)
	results := make(chan formulaRes, 256)
	var wg sync.WaitGroup
	for i := 0; i < runtime.GOMAXPROCS(0); i++ {
		wg.Add(1)
		go func() {
			defer wg.Done()
			for c := range jobs {
				results <- runFormulaCase(c)
			}
		}()
	}
	done := make(chan struct{})
	go func() {
		enc := json.NewEncoder(w)
		for r := range results {
			enc.Encode(r)
		}
		close(done)
	}()
	n := 0
	for sc.Scan() {
		var c formulaCase
		if err := json.Unmarshal(sc.Bytes(), &c); err != nil {
			fmt.Fprintln(os.Stderr, "bad case:", err)
			os.Exit(3)
		}
		jobs <- c
		n++
	}
	close(jobs)
	wg.Wait()
	close(results)
	<-done
	fmt.Printf("{\"cases\": %d}\n", n)
}

func init() { extraCmds["replay-formula"] = replayFormulaMain }
