//go:build verif

package main

import (
	"github.com/cinar/indicator/v2/asset"
	"github.com/cinar/indicator/v2/momentum"
	"github.com/cinar/indicator/v2/strategy"
	"github.com/cinar/indicator/v2/strategy/compound"
	smomentum "github.com/cinar/indicator/v2/strategy/momentum"
	strend "github.com/cinar/indicator/v2/strategy/trend"
	svolatility "github.com/cinar/indicator/v2/strategy/volatility"
	svolume "github.com/cinar/indicator/v2/strategy/volume"
	"github.com/cinar/indicator/v2/trend"
	"github.com/cinar/indicator/v2/volatility"
	"github.com/cinar/indicator/v2/volume"
)

// Catalogue of the strategies (33 entries): strategy.BuyAndHoldStrategy, the 19 strategies of
// strategy/trend, 4 of strategy/momentum, 2 of strategy/volatility, 6 of strategy/volume and
// compound.MacdRsiStrategy.  And/Or/Majority/Split and the decorators are registered elsewhere.
//
// Documented decision rule of each strategy, as written in the doc comment of the strategy type
// (near-verbatim; "(type doc: no rule)" = the type's doc comment states no Buy/Sell rule, the text
// after it is what the doc comments inside Compute or of the wrapped indicator say):
//
// strategy
//   BuyAndHoldStrategy: defines an investment approach of acquiring and indefinitely retaining an asset (benchmark for other strategies).
// strategy/trend
//   AlligatorStrategy: (type doc: no rule) "It is a technical indicator to help identify the presence and the direction of the trend. It uses three Smooted Moving Averges (SMMAs)." Jaw = slowest, Teeth = medium, Lip = fastest moving average. Compute comment: "Alligator strategy starts only after a full period."
//   ApoStrategy: An APO value crossing above zero suggests a bullish trend, while crossing below zero indicates a bearish trend. Positive APO values signify an upward trend, while negative values signify a downward trend.
//   AroonStrategy: When Aroon Up exceeds Aroon Down, it suggests a bullish trend; when Aroon Down surpasses Aroon Up, it indicates a bearish trend.
//   BopStrategy: A positive BoP value suggests an upward trend, while a negative value indicates a downward trend. A BoP value of zero implies equilibrium between the two forces.
//   CciStrategy: A CCI value crossing above the 100+ suggests a bullish trend, while crossing below the 100- indicates a bearish trend.
//   DemaStrategy: A bullish cross occurs when DEMA with 5 days period moves above DEMA with 35 days period. A bearish cross occurs when DEMA with 35 days period moves above DEMA With 5 days period.
//   EnvelopeStrategy: When the closing is above the upper band suggests a Sell recommendation, and when the closing is below the lower band suggests a buy recommendation.
//   GoldenCrossStrategy: A buy signal is generated when the fastest EMA crosses above the slowest EMAs. A sell signal is generated when the fastest EMA crosses below the slowest EMAs. Otherwise, the strategy recommends holding the asset.
//   KamaStrategy: A closing price crossing above the KAMA suggests a bullish trend, while crossing below the KAMA indicates a bearish trend.
//   KdjStrategy: Generates BUY action when j value crosses above both k and d values. Generates SELL action when j value crosses below both k and d values.
//   MacdStrategy: A MACD value crossing above the signal line suggests a bullish trend, while crossing below the signal line indicates a bearish trend.
//   QstickStrategy: A Qstick above zero indicates increasing buying pressure, while a Qstick below zero indicates increasing selling pressure.
//   SmmaStrategy: A short-term SMMA crossing above the long-term SMMA suggests a bullish trend, while crossing below the long-term SMMA indicates a bearish trend.
//   TrimaStrategy: A bullish cross occurs when the short TRIMA moves above the long TRIMA. A bearish cross occurs when the short TRIMA moves below the long TRIME.
//   TripleMovingAverageCrossoverStrategy: A buy signal is generated when the fastest EMA crosses above both the medium and slowest EMAs. A sell signal is generated when the fastest EMA crosses below both the medium and slowest EMAs. Otherwise, the strategy recommends holding the asset.
//   TrixStrategy: A TRIX value crossing above the zero line suggests a bullish trend, while crossing below the zero line indicates a bearish trend.
//   TsiStrategy: When the TSI is above zero and crossing above the signal line suggests a bullish trend, while TSI being below zero and crossing below the signal line indicates a bearish trend. Signal Line = Ema(12, TSI). When TSI > 0, TSI > Signal Line, Buy. When TSI < 0, TSI < Signal Line, Sell.
//   VwmaStrategy: uses SMA and VWMA indicators to provide a BUY action when VWMA is above SMA, and a SELL signal when VWMA is below SMA, a HOLD otherwse.
//   WeightedCloseStrategy: A weighted close crossing above the moving average suggests a bullish trend, while crossing below the moving average indicates a bearish trend.
// strategy/momentum
//   AwesomeOscillatorStrategy: (type doc: no rule) Indicator doc: "Its value around a zero line reflects bullishness above and bearishness below. Crossings of the zero line can signal potential trend reversals." Compute comment: "Awesome Oscillator starts only after the idle period."
//   RsiStrategy: (type doc: no rule) Field docs: "BuyAt defines the RSI level at which a Buy action is generated" (default 30); "SellAt defines the RSI level at which a Sell action is generated" (default 70). Compute comment: "RSI starts only after the idle period."
//   StochasticRsiStrategy: (type doc: no rule) Field docs: "BuyAt defines the level at which a Buy action is generated" (default 0.8); "SellAt defines the level at which a Sell action is generated" (default 0.2). Compute comment: "Stochastic RSI starts only after the idle period."
//   TripleRsiStrategy: It assumes that the moving average period is longer than the RSI period. Recommend Buy: the 5-period RSI is below 30; the 5-period RSI reading is down for the 3rd period in a row; the 5-period RSI reading was below 60 three trading periods ago; the close is higher than the 200-period moving average. Recommend Sell: sell at the close when the 5-period RSI crosses above 50.
// strategy/volatility
//   BollingerBandsStrategy: A closing value crossing above the upper band suggets a Buy signal, while crossing below the lower band indivates a Sell signal.
//   SuperTrendStrategy: A closing value crossing above the Super Trend suggets a Buy signal, while crossing below the Super Trend indivates a Sell signal.
// strategy/volume
//   ChaikinMoneyFlowStrategy: Recommends a Buy action when it crosses above 0, and recommends a Sell action when it crosses below 0.
//   EaseOfMovementStrategy: Recommends a Buy action when it crosses above 0, and recommends a Sell action when it crosses below 0.
//   ForceIndexStrategy: It recommends a Buy action when it crosses above zero, and a Sell action when it crosses below zero.
//   MoneyFlowIndexStrategy: Recommends a Sell action when it crosses over 80, and recommends a Buy action when it crosses below 20.
//   NegativeVolumeIndexStrategy: Recommends a Buy action when it crosses below its EMA, recommends a Sell action when it crosses above its EMA, and recommends a Hold action otherwise.
//   WeightedAveragePriceStrategy: Recommends a Buy action when the closing crosses below the VWAP, recommends a Sell action when the closing crosses above the VWAP, and recommends a Hold action otherwise.
// strategy/compound
//   MacdRsiStrategy: (type doc: no rule) "represents the configuration parameters for calculating the MACD-RSI strategy"; wraps a MacdStrategy and an RsiStrategy (BuyAt 30, SellAt 70).

// actF converts an action to the float the harness compares.
var actF = func(a strategy.Action) float64 { return float64(a) }

// stratInst wraps a strategy value; idle is the strategy's own IdlePeriod method value or nil.
func stratInst(s strategy.Strategy, idle func() int) Inst {
	return Inst{
		Idle: idle,
		ComputeS: func(in <-chan *asset.Snapshot) []Out {
			return []Out{OutOf("actions", s.Compute(in), actF)}
		},
		Report: s.Report,
		Strat:  s,
	}
}

var snapIn = []string{"snapshots"}

func init() {
	register(
		// ---- strategy
		Pipe{Name: "strategy.BuyAndHoldStrategy", Class: "strategy", Inputs: snapIn, Params: ps(), Default: cfgOf(),
			Fields: []string{"Close"},
			Make: func(cfg []int) Inst {
				s := strategy.NewBuyAndHoldStrategy()
				return stratInst(s, nil)
			}},

		// ---- strategy/trend
		Pipe{Name: "strategy/trend.AlligatorStrategy", Class: "strategy", Inputs: snapIn, Params: ps("jaw", "teeth", "lip"),
			Default: cfgOf(strend.DefaultAlligatorStrategyJawPeriod, strend.DefaultAlligatorStrategyTeethPeriod, strend.DefaultAlligatorStrategyLipPeriod),
			// Jaw is documented as the slowest, Teeth the medium, Lip the fastest moving average, but Compute synchronises
			// all three to CommonPeriod, whichever is the longest: no ordering constraint
			Fields: []string{"Close"},
			Make: func(cfg []int) Inst {
				s := strend.NewAlligatorStrategyWith(cfg[0], cfg[1], cfg[2])
				return stratInst(s, nil)
			}},
		Pipe{Name: "strategy/trend.ApoStrategy", Class: "strategy", Inputs: snapIn, Params: ps("fast", "slow"),
			Default: cfgOf(trend.DefaultApoFastPeriod, trend.DefaultApoSlowPeriod),
			Valid:   func(c []int) bool { return c[0] <= c[1] },
			Fields:  []string{"Close"},
			Make: func(cfg []int) Inst {
				s := strend.NewApoStrategy()
				s.Apo.FastPeriod, s.Apo.SlowPeriod = cfg[0], cfg[1]
				return stratInst(s, nil)
			}},
		Pipe{Name: "strategy/trend.AroonStrategy", Class: "strategy", Inputs: snapIn, Params: ps("period"),
			Default: cfgOf(trend.DefaultAroonPeriod),
			Fields:  []string{"High", "Low"},
			Make: func(cfg []int) Inst {
				s := strend.NewAroonStrategy()
				s.Aroon.Period = cfg[0]
				return stratInst(s, nil)
			}},
		Pipe{Name: "strategy/trend.BopStrategy", Class: "strategy", Inputs: snapIn, Params: ps(), Default: cfgOf(),
			Fields: []string{"Close", "High", "Low", "Open"},
			Make: func(cfg []int) Inst {
				s := strend.NewBopStrategy()
				return stratInst(s, nil)
			}},
		Pipe{Name: "strategy/trend.CciStrategy", Class: "strategy", Inputs: snapIn, Params: ps("period"),
			Default: cfgOf(trend.DefaultCciPeriod),
			Fields:  []string{"Close", "High", "Low"},
			Make: func(cfg []int) Inst {
				s := strend.NewCciStrategy()
				s.Cci.Period = cfg[0]
				return stratInst(s, nil)
			}},
		// DemaStrategy: Dema1 is the short (5 days) DEMA, Dema2 the long (35 days) DEMA; each has two EMA periods.
		Pipe{Name: "strategy/trend.DemaStrategy", Class: "strategy", Inputs: snapIn,
			Params: ps("dema1ema1", "dema1ema2", "dema2ema1", "dema2ema2"),
			Default: cfgOf(strend.DefaultDemaStrategyPeriod1, strend.DefaultDemaStrategyPeriod1,
				strend.DefaultDemaStrategyPeriod2, strend.DefaultDemaStrategyPeriod2),
			Valid:  func(c []int) bool { return c[0] <= c[2] && c[1] <= c[3] },
			Fields: []string{"Close"},
			Make: func(cfg []int) Inst {
				s := strend.NewDemaStrategy()
				s.Dema1.Ema1.Period, s.Dema1.Ema2.Period = cfg[0], cfg[1]
				s.Dema2.Ema1.Period, s.Dema2.Ema2.Period = cfg[2], cfg[3]
				return stratInst(s, nil)
			}},
		// EnvelopeStrategy: the default strategy uses NewEnvelopeWithSma; the period of its moving average is assigned.
		Pipe{Name: "strategy/trend.EnvelopeStrategy", Class: "strategy", Inputs: snapIn, Params: ps("period"),
			Default: cfgOf(trend.DefaultEnvelopePeriod),
			Fields:  []string{"Close"},
			Make: func(cfg []int) Inst {
				env := trend.NewEnvelopeWithSma[float64]()
				env.Ma.(*trend.Sma[float64]).Period = cfg[0]
				s := strend.NewEnvelopeStrategyWith(env)
				return stratInst(s, nil)
			}},
		Pipe{Name: "strategy/trend.GoldenCrossStrategy", Class: "strategy", Inputs: snapIn, Params: ps("fast", "slow"),
			Default: cfgOf(strend.DefaultGoldenCrossStrategyFastPeriod, strend.DefaultGoldenCrossStrategySlowPeriod),
			Valid:   func(c []int) bool { return c[0] <= c[1] },
			Fields:  []string{"Close"},
			Make: func(cfg []int) Inst {
				s := strend.NewGoldenCrossStrategyWith(cfg[0], cfg[1])
				return stratInst(s, nil)
			}},
		Pipe{Name: "strategy/trend.KamaStrategy", Class: "strategy", Inputs: snapIn, Params: ps("er", "fastSc", "slowSc"),
			Default: cfgOf(trend.DefaultKamaErPeriod, trend.DefaultKamaFastScPeriod, trend.DefaultKamaSlowScPeriod),
			Valid:   func(c []int) bool { return c[1] <= c[2] },
			Fields:  []string{"Close"},
			Make: func(cfg []int) Inst {
				s := strend.NewKamaStrategyWith(cfg[0], cfg[1], cfg[2])
				return stratInst(s, nil)
			}},
		Pipe{Name: "strategy/trend.KdjStrategy", Class: "strategy", Inputs: snapIn, Params: ps("rmax", "rmin", "sma1", "sma2"),
			Valid:   func(c []int) bool { return c[0] == c[1] },
			Default: cfgOf(trend.DefaultKdjMinMaxPeriod, trend.DefaultKdjMinMaxPeriod, trend.DefaultKdjSma1Period, trend.DefaultKdjSma2Period),
			Fields:  []string{"Close", "High", "Low"},
			Make: func(cfg []int) Inst {
				s := strend.NewKdjStrategy()
				s.Kdj.MovingMax.Period, s.Kdj.MovingMin.Period, s.Kdj.Sma1.Period, s.Kdj.Sma2.Period = cfg[0], cfg[1], cfg[2], cfg[3]
				return stratInst(s, nil)
			}},
		Pipe{Name: "strategy/trend.MacdStrategy", Class: "strategy", Inputs: snapIn, Params: ps("period1", "period2", "period3"),
			Default: cfgOf(trend.DefaultMacdPeriod1, trend.DefaultMacdPeriod2, trend.DefaultMacdPeriod3),
			Valid:   func(c []int) bool { return c[0] <= c[1] },
			Fields:  []string{"Close"},
			Make: func(cfg []int) Inst {
				s := strend.NewMacdStrategyWith(cfg[0], cfg[1], cfg[2])
				return stratInst(s, nil)
			}},
		Pipe{Name: "strategy/trend.QstickStrategy", Class: "strategy", Inputs: snapIn, Params: ps("period"),
			Default: cfgOf(momentum.DefaultQstickPeriod),
			Fields:  []string{"Close", "Open"},
			Make: func(cfg []int) Inst {
				s := strend.NewQstickStrategy()
				s.Qstick.Sma.Period = cfg[0]
				return stratInst(s, nil)
			}},
		Pipe{Name: "strategy/trend.SmmaStrategy", Class: "strategy", Inputs: snapIn, Params: ps("short", "long"),
			Default: cfgOf(strend.DefaultSmmaStrategyShortPeriod, strend.DefaultSmmaStrategyLongPeriod),
			// no ordering constraint: Compute synchronises both averages to CommonPeriod, whichever is longer
			Fields: []string{"Close"},
			Make: func(cfg []int) Inst {
				s := strend.NewSmmaStrategyWith(cfg[0], cfg[1])
				return stratInst(s, nil)
			}},
		Pipe{Name: "strategy/trend.TrimaStrategy", Class: "strategy", Inputs: snapIn, Params: ps("short", "long"),
			Default: cfgOf(strend.DefaultTrimaStrategyShortPeriod, strend.DefaultTrimaStrategyLongPeriod),
			Valid:   func(c []int) bool { return c[0] <= c[1] },
			Fields:  []string{"Close"},
			Make: func(cfg []int) Inst {
				s := strend.NewTrimaStrategy()
				s.Short.Period, s.Long.Period = cfg[0], cfg[1]
				return stratInst(s, nil)
			}},
		Pipe{Name: "strategy/trend.TripleMovingAverageCrossoverStrategy", Class: "strategy", Inputs: snapIn, Params: ps("fast", "medium", "slow"),
			Default: cfgOf(strend.DefaultTripleMovingAverageCrossoverStrategyFastPeriod,
				strend.DefaultTripleMovingAverageCrossoverStrategyMediumPeriod,
				strend.DefaultTripleMovingAverageCrossoverStrategySlowPeriod),
			Valid:  func(c []int) bool { return c[0] <= c[1] && c[1] <= c[2] },
			Fields: []string{"Close"},
			Make: func(cfg []int) Inst {
				s := strend.NewTripleMovingAverageCrossoverStrategyWith(cfg[0], cfg[1], cfg[2])
				return stratInst(s, nil)
			}},
		Pipe{Name: "strategy/trend.TrixStrategy", Class: "strategy", Inputs: snapIn, Params: ps("period"),
			Default: cfgOf(trend.DefaultTrixPeriod),
			Fields:  []string{"Close"},
			Make: func(cfg []int) Inst {
				s := strend.NewTrixStrategy()
				s.Trix.Period = cfg[0]
				return stratInst(s, nil)
			}},
		// TsiStrategy has an IdlePeriod method.
		Pipe{Name: "strategy/trend.TsiStrategy", Class: "strategy", Inputs: snapIn, Params: ps("first", "second", "signal"),
			Default: cfgOf(trend.DefaultTsiFirstSmoothingPeriod, trend.DefaultTsiSecondSmoothingPeriod, strend.DefaultTsiStrategySignalPeriod),
			Fields:  []string{"Close"},
			Make: func(cfg []int) Inst {
				s := strend.NewTsiStrategyWith(cfg[0], cfg[1], cfg[2])
				return stratInst(s, s.IdlePeriod)
			}},
		// the same strategy configured through its exported fields after construction (Tsi and Signal are exported knobs)
		Pipe{Name: "strategy/trend.TsiStrategy/fields", Class: "strategy", Inputs: snapIn, Params: ps("first", "second", "signal"),
			Default: cfgOf(trend.DefaultTsiFirstSmoothingPeriod, trend.DefaultTsiSecondSmoothingPeriod, strend.DefaultTsiStrategySignalPeriod),
			Fields:  []string{"Close"},
			Make: func(cfg []int) Inst {
				s := strend.NewTsiStrategy()
				s.Tsi = trend.NewTsiWith[float64](cfg[0], cfg[1])
				s.Signal = trend.NewEmaWithPeriod[float64](cfg[2])
				return stratInst(s, s.IdlePeriod)
			}},
		// VwmaStrategy: the VWMA and the SMA periods are separate exported knobs; the library default is one period for both.
		Pipe{Name: "strategy/trend.VwmaStrategy", Class: "strategy", Inputs: snapIn, Params: ps("vwma", "sma"),
			// one period for both averages (NewVwmaStrategy sets both from DefaultVwmaStrategyPeriod; there is no With constructor)
			Valid:   func(c []int) bool { return c[0] == c[1] },
			Default: cfgOf(strend.DefaultVwmaStrategyPeriod, strend.DefaultVwmaStrategyPeriod),
			Fields:  []string{"Close", "Volume"},
			Make: func(cfg []int) Inst {
				s := strend.NewVwmaStrategy()
				s.Vwma.Period, s.Sma.Period = cfg[0], cfg[1]
				return stratInst(s, nil)
			}},
		Pipe{Name: "strategy/trend.WeightedCloseStrategy", Class: "strategy", Inputs: snapIn, Params: ps("ma"),
			Default: cfgOf(strend.DefaultWeightedCloseStrategyMaPeriod),
			Fields:  []string{"Close", "High", "Low"},
			Make: func(cfg []int) Inst {
				s := strend.NewWeightedCloseStrategyWith(cfg[0])
				return stratInst(s, nil)
			}},

		// ---- strategy/momentum
		Pipe{Name: "strategy/momentum.AwesomeOscillatorStrategy", Class: "strategy", Inputs: snapIn, Params: ps("short", "long"),
			Default: cfgOf(momentum.DefaultAwesomeOscillatorShortPeriod, momentum.DefaultAwesomeOscillatorLongPeriod),
			Valid:   func(c []int) bool { return c[0] <= c[1] },
			Fields:  []string{"High", "Low"},
			Make: func(cfg []int) Inst {
				s := smomentum.NewAwesomeOscillatorStrategy()
				s.AwesomeOscillator.ShortSma.Period, s.AwesomeOscillator.LongSma.Period = cfg[0], cfg[1]
				return stratInst(s, nil)
			}},
		// RsiStrategy: BuyAt / SellAt are levels, not periods (defaults 30 / 70 kept).
		Pipe{Name: "strategy/momentum.RsiStrategy", Class: "strategy", Inputs: snapIn, Params: ps("period"),
			Default: cfgOf(momentum.DefaultRsiPeriod),
			Fields:  []string{"Close"},
			Make: func(cfg []int) Inst {
				s := smomentum.NewRsiStrategy()
				s.Rsi.Rma.Period = cfg[0]
				return stratInst(s, nil)
			}},
		// StochasticRsiStrategy: BuyAt / SellAt are levels (defaults 0.8 / 0.2 kept); the nested indicator is
		// rebuilt with NewStochasticRsiWithPeriod (RSI, Min and Max periods from one period).
		Pipe{Name: "strategy/momentum.StochasticRsiStrategy", Class: "strategy", Inputs: snapIn, Params: ps("period"),
			Default: cfgOf(momentum.DefaultStochasticRsiPeriod),
			Fields:  []string{"Close"},
			Make: func(cfg []int) Inst {
				s := smomentum.NewStochasticRsiStrategy()
				s.StochasticRsi = momentum.NewStochasticRsiWithPeriod[float64](cfg[0])
				return stratInst(s, nil)
			}},
		// TripleRsiStrategy has an IdlePeriod method.  "It assumes that the moving average period is longer than
		// the RSI period."  DownDays is a window length (number of periods in a row), so it is a Param; the
		// BuySignalAt / BuyAt / SellAt levels keep their defaults.
		Pipe{Name: "strategy/momentum.TripleRsiStrategy", Class: "strategy", Inputs: snapIn, Params: ps("rsi", "sma", "downDays"),
			Default: cfgOf(smomentum.DefaultTripleRsiStrategyPeriod, smomentum.DefaultTripleRsiStrategyMovingAveragePeriod,
				smomentum.DefaultTripleRsiStrategyDownDays),
			Valid:  func(c []int) bool { return c[0] < c[1] },
			Fields: []string{"Close"},
			Make: func(cfg []int) Inst {
				s := smomentum.NewTripleRsiStrategyWith(cfg[0], cfg[1], cfg[2],
					smomentum.DefaultTripleRsiStrategyBuySignalAt, smomentum.DefaultTripleRsiStrategyBuyAt, smomentum.DefaultTripleRsiStrategySellAt)
				return stratInst(s, s.IdlePeriod)
			}},

		// ---- strategy/volatility
		Pipe{Name: "strategy/volatility.BollingerBandsStrategy", Class: "strategy", Inputs: snapIn, Params: ps("period"),
			Default: cfgOf(volatility.DefaultBollingerBandsPeriod),
			Fields:  []string{"Close"},
			Make: func(cfg []int) Inst {
				s := svolatility.NewBollingerBandsStrategy()
				s.BollingerBands.Period = cfg[0]
				return stratInst(s, nil)
			}},
		// SuperTrendStrategy: default Super Trend (ATR over HMA(period), multiplier 2.5).
		Pipe{Name: "strategy/volatility.SuperTrendStrategy", Class: "strategy", Inputs: snapIn, Params: ps("period"),
			Default: cfgOf(volatility.DefaultSuperTrendPeriod),
			Fields:  []string{"Close", "High", "Low"},
			Make: func(cfg []int) Inst {
				s := svolatility.NewSuperTrendStrategyWith(
					volatility.NewSuperTrendWithPeriod[float64](cfg[0], volatility.DefaultSuperTrendMultiplier))
				return stratInst(s, nil)
			}},

		// ---- strategy/volume
		Pipe{Name: "strategy/volume.ChaikinMoneyFlowStrategy", Class: "strategy", Inputs: snapIn, Params: ps("period"),
			Default: cfgOf(volume.DefaultCmfPeriod),
			Fields:  []string{"Close", "High", "Low", "Volume"},
			Make: func(cfg []int) Inst {
				s := svolume.NewChaikinMoneyFlowStrategyWith(cfg[0])
				return stratInst(s, nil)
			}},
		Pipe{Name: "strategy/volume.EaseOfMovementStrategy", Class: "strategy", Inputs: snapIn, Params: ps("period"),
			Default: cfgOf(volume.DefaultEmvPeriod),
			Fields:  []string{"High", "Low", "Volume"},
			Make: func(cfg []int) Inst {
				s := svolume.NewEaseOfMovementStrategyWith(cfg[0])
				return stratInst(s, nil)
			}},
		Pipe{Name: "strategy/volume.ForceIndexStrategy", Class: "strategy", Inputs: snapIn, Params: ps("period"),
			Default: cfgOf(volume.DefaultFiPeriod),
			Fields:  []string{"Close", "Volume"},
			Make: func(cfg []int) Inst {
				s := svolume.NewForceIndexStrategyWith(cfg[0])
				return stratInst(s, nil)
			}},
		// MoneyFlowIndexStrategy: SellAt / BuyAt are levels (defaults 80 / 20 kept); the nested MovingSum period is assigned.
		Pipe{Name: "strategy/volume.MoneyFlowIndexStrategy", Class: "strategy", Inputs: snapIn, Params: ps("period"),
			Default: cfgOf(volume.DefaultMfiPeriod),
			Fields:  []string{"Close", "High", "Low", "Volume"},
			Make: func(cfg []int) Inst {
				s := svolume.NewMoneyFlowIndexStrategy()
				s.MoneyFlowIndex.Sum.Period = cfg[0]
				return stratInst(s, nil)
			}},
		Pipe{Name: "strategy/volume.NegativeVolumeIndexStrategy", Class: "strategy", Inputs: snapIn, Params: ps("ema"),
			Default: cfgOf(svolume.DefaultNegativeVolumeIndexStrategyEmaPeriod),
			Fields:  []string{"Close", "Volume"},
			Make: func(cfg []int) Inst {
				s := svolume.NewNegativeVolumeIndexStrategyWith(cfg[0])
				return stratInst(s, nil)
			}},
		Pipe{Name: "strategy/volume.WeightedAveragePriceStrategy", Class: "strategy", Inputs: snapIn, Params: ps("period"),
			Default: cfgOf(volume.DefaultVwapPeriod),
			Fields:  []string{"Close", "Volume"},
			Make: func(cfg []int) Inst {
				s := svolume.NewWeightedAveragePriceStrategyWith(cfg[0])
				return stratInst(s, nil)
			}},

		// ---- strategy/compound
		// MacdRsiStrategy: the three MACD periods and the RSI period; the RSI levels keep their defaults (30 / 70).
		Pipe{Name: "strategy/compound.MacdRsiStrategy", Class: "strategy", Inputs: snapIn, Params: ps("period1", "period2", "period3", "rsi"),
			Default: cfgOf(trend.DefaultMacdPeriod1, trend.DefaultMacdPeriod2, trend.DefaultMacdPeriod3, momentum.DefaultRsiPeriod),
			Valid:   func(c []int) bool { return c[0] <= c[1] },
			Fields:  []string{"Close"},
			Make: func(cfg []int) Inst {
				s := compound.NewMacdRsiStrategy()
				s.MacdStrategy = strend.NewMacdStrategyWith(cfg[0], cfg[1], cfg[2])
				s.RsiStrategy.Rsi.Rma.Period = cfg[3]
				return stratInst(s, nil)
			}},
	)
}
