//go:build verif

package main

import (
	"bufio"
	"encoding/json"
	"fmt"
	"math"
	"os"
	"path/filepath"
	"sort"
	"time"

	"github.com/cinar/indicator/v2/asset"
	"github.com/cinar/indicator/v2/helper"
)

// Replays the Append histories TLC generates from spec/Repository.tla on the real in-memory, file-system
// and SQL repositories; after every Append ALL reads are performed and compared with the read table the
// model prescribes.

type repoSnap struct {
	D  int `json:"d"`
	ID int `json:"id"`
}

type repoReads struct {
	Get    map[string]json.RawMessage   `json:"get"`
	Since  map[string][]json.RawMessage `json:"since"`
	Last   map[string]json.RawMessage   `json:"last"`
	Must   []string                     `json:"must"`
	May    []string                     `json:"may"`
	Hollow []string                     `json:"hollow"`
}

type repoStep struct {
	Op    string     `json:"op"`
	N     string     `json:"n"`
	Rows  []repoSnap `json:"rows"`
	Reads repoReads  `json:"reads"`
}

// awkward but CSV/SQL representable prices, one per snapshot id
var pricePool = []float64{0.1, -1.2345678901234567e-300, -9.8765432109876543e+299, 1e-7, 123456789.123456789, 3.0000000000000004, 2.5e-300, 1.7976931348623157e308, 5e-324,
	0.30000000000000004, 1234.5678, 99.99, 1e21, 7, 1.0 / 3.0, math.Pi, 2.2250738585072014e-308, 100} // the second and third: 24 characters in every price field

func snapOf(s repoSnap) *asset.Snapshot {
	p := pricePool[s.ID%len(pricePool)] + float64(s.ID/len(pricePool))
	v := float64(s.ID)
	if s.ID%3 != 0 {
		v = (v + 1) * -1.2345678901234567e-290 // a volume that needs 24 characters, too: rows of more than 128 bytes
	}
	return &asset.Snapshot{Date: day0.AddDate(0, 0, s.D), Open: p, High: p * 2, Low: p / 2, Close: p, Volume: v}
}

func sameSnap(a *asset.Snapshot, w repoSnap) bool {
	e := snapOf(w)
	return a != nil && a.Date.Equal(e.Date) && a.Open == e.Open && a.High == e.High && a.Low == e.Low && a.Close == e.Close && a.Volume == e.Volume
}

type repoUnderTest struct {
	kind   string
	repo   asset.Repository
	db     *fakeDB
	closer interface{ Close() error }
}

func parseRowsOrErr(raw json.RawMessage) ([]repoSnap, bool) {
	var r struct {
		Err  bool       `json:"err"`
		Rows []repoSnap `json:"rows"`
	}
	json.Unmarshal(raw, &r)
	return r.Rows, r.Err
}

func describeSnaps(xs []*asset.Snapshot) string {
	s := "["
	for i, x := range xs {
		if i > 0 {
			s += " "
		}
		s += fmt.Sprintf("%s/%g", x.Date.Format("01-02"), x.Volume)
	}
	return s + "]"
}

func checkReads(u *repoUnderTest, rd *repoReads, names []string, bad func(string)) int {
	checks := 0
	for _, n := range names {
		// Get
		want, wantErr := parseRowsOrErr(rd.Get[n])
		hollow := false
		for _, x := range rd.Hollow {
			if x == n {
				hollow = true
			}
		}
		ch, err := u.repo.Get(n)
		checks++
		var got []*asset.Snapshot
		if err == nil {
			got = helper.ChanToSlice(ch)
		}
		if wantErr {
			if err == nil {
				bad(fmt.Sprintf("Get(%q) of a never-appended asset returns no error (%d rows)", n, len(got)))
			}
		} else if !hollow || err == nil {
			if err != nil {
				bad(fmt.Sprintf("Get(%q) fails (%v), the asset holds %d snapshots", n, err, len(want)))
			} else if len(got) != len(want) {
				bad(fmt.Sprintf("Get(%q) returns %d snapshots %s, appended so far: %d %v", n, len(got), describeSnaps(got), len(want), want))
			} else {
				for i := range want {
					if !sameSnap(got[i], want[i]) {
						bad(fmt.Sprintf("Get(%q)[%d] = %v, appended snapshot is %v (order or value differs)", n, i, *got[i], *snapOf(want[i])))
						break
					}
				}
			}
		}
		// GetSince for every bound
		for di, raw := range rd.Since[n] {
			d := di + 1
			want, wantErr := parseRowsOrErr(raw)
			ch, err := u.repo.GetSince(n, day0.AddDate(0, 0, d))
			checks++
			var got []*asset.Snapshot
			if err == nil {
				got = helper.ChanToSlice(ch)
			}
			if wantErr {
				if err == nil {
					bad(fmt.Sprintf("GetSince(%q, day %d) of a never-appended asset returns no error", n, d))
				}
				continue
			}
			if hollow && err != nil {
				continue
			}
			if err != nil {
				bad(fmt.Sprintf("GetSince(%q, day %d) fails: %v", n, d, err))
				continue
			}
			if len(got) != len(want) {
				bad(fmt.Sprintf("GetSince(%q, day %d) returns %d snapshots %s, those dated on or after the bound: %v", n, d, len(got), describeSnaps(got), want))
				continue
			}
			for i := range want {
				if !sameSnap(got[i], want[i]) {
					bad(fmt.Sprintf("GetSince(%q, day %d)[%d] differs from the appended snapshot %v", n, d, i, want[i]))
					break
				}
			}
		}
		// LastDate
		var lr struct {
			Err bool `json:"err"`
			D   int  `json:"d"`
		}
		json.Unmarshal(rd.Last[n], &lr)
		ld, lastErr := lr.D, lr.Err
		t, err := u.repo.LastDate(n)
		checks++
		if lastErr {
			if err == nil {
				bad(fmt.Sprintf("LastDate(%q) of an asset without snapshots returns %v and no error", n, t))
			}
		} else if err != nil {
			bad(fmt.Sprintf("LastDate(%q) fails (%v), last snapshot is dated day %d", n, err, ld))
		} else if !t.Equal(day0.AddDate(0, 0, ld)) {
			bad(fmt.Sprintf("LastDate(%q) = %s, the last appended snapshot is dated %s", n, t.Format("2006-01-02"), day0.AddDate(0, 0, ld).Format("2006-01-02")))
		}
	}
	// Assets
	as, err := u.repo.Assets()
	checks++
	if err != nil {
		bad(fmt.Sprintf("Assets() fails: %v", err))
	} else {
		set := map[string]bool{}
		for _, a := range as {
			set[a] = true
		}
		for _, m := range rd.Must {
			if !set[m] {
				bad(fmt.Sprintf("Assets() = %v does not list %q, which holds snapshots", as, m))
			}
		}
		may := map[string]bool{}
		for _, m := range rd.May {
			may[m] = true
		}
		for _, a := range as {
			if !may[a] {
				bad(fmt.Sprintf("Assets() lists %q, which was never appended", a))
			}
		}
	}
	return checks
}

// The abstract names of the model are instantiated with awkward concrete asset names, rotating per history: names made
// of the characters of the ".csv" suffix, with dots, spaces, upper case, non-ASCII letters, a name that itself ends in .csv.
var namePoolA = []string{"a", "cvs", "BRK.B", "x y", "abcs", "aapl.csv", "ünï", "v"}
var namePoolB = []string{"b", "vs", "brk-b", "s", "c.s.v", "MSFT", "csv", "b_2"}
var namePoolG = []string{"ghost", "svc", "never.appended", "vv", "g h", "cs", "GHOST", "a.csv.csv"}

// renRepo presents a repository under the model's abstract names.
type renRepo struct {
	inner asset.Repository
	to    map[string]string // abstract -> concrete
}

func (r *renRepo) c(n string) string {
	if x, ok := r.to[n]; ok {
		return x
	}
	return n
}
func (r *renRepo) Assets() ([]string, error) {
	as, err := r.inner.Assets()
	if err != nil {
		return nil, err
	}
	back := map[string]string{}
	for a, c := range r.to {
		back[c] = a
	}
	out := make([]string, len(as))
	for i, x := range as {
		if a, ok := back[x]; ok {
			out[i] = a
		} else {
			out[i] = "<" + x + ">" // a name the repository was never given
		}
	}
	return out, nil
}
func (r *renRepo) Get(n string) (<-chan *asset.Snapshot, error) { return r.inner.Get(r.c(n)) }
func (r *renRepo) GetSince(n string, d time.Time) (<-chan *asset.Snapshot, error) {
	return r.inner.GetSince(r.c(n), d)
}
func (r *renRepo) LastDate(n string) (time.Time, error) { return r.inner.LastDate(r.c(n)) }
func (r *renRepo) Append(n string, s <-chan *asset.Snapshot) error {
	return r.inner.Append(r.c(n), s)
}

func replayRepoMain(args []string) {
	f, err := os.Open(args[0])
	if err != nil {
		fmt.Fprintln(os.Stderr, err)
		os.Exit(3)
	}
	defer f.Close()
	tmp, err := os.MkdirTemp("", "verif-repo-")
	if err != nil {
		fmt.Fprintln(os.Stderr, err)
		os.Exit(3)
	}
	defer os.RemoveAll(tmp)
	sc := bufio.NewScanner(f)
	sc.Buffer(make([]byte, 1<<20), 1<<26)
	type mm struct {
		Hist int    `json:"hist"`
		Step int    `json:"step"`
		Repo string `json:"repo"`
		What string `json:"what"`
	}
	var out []mm
	nh, checks := 0, 0
	for sc.Scan() {
		k := nh % len(namePoolA)
		concrete := map[string]string{"a": namePoolA[k], "b": namePoolB[k], "ghost": namePoolG[k]}
		names := []string{"a", "b", "ghost"}
		var steps []repoStep
		if err := json.Unmarshal(sc.Bytes(), &steps); err != nil {
			fmt.Fprintln(os.Stderr, "bad history:", err)
			os.Exit(3)
		}
		// SQL: only histories whose dates increase strictly per asset (append order = date order for any database)
		sqlOK := true
		lastD := map[string]int{}
		for _, s := range steps {
			for _, r := range s.Rows {
				if prev, ok := lastD[s.N]; ok && r.D <= prev {
					sqlOK = false
				}
				lastD[s.N] = r.D
			}
		}
		dir := filepath.Join(tmp, fmt.Sprintf("h%d", nh))
		os.MkdirAll(dir, 0o755)
		under := []*repoUnderTest{
			{kind: "memory", repo: &renRepo{asset.NewInMemoryRepository(), concrete}},
			{kind: "filesystem", repo: &renRepo{asset.NewFileSystemRepository(dir), concrete}},
		}
		dbName := fmt.Sprintf("db%d", nh)
		if sqlOK {
			r, err := asset.NewSQLRepository("veriffake", dbName, fakeDialect{})
			if err != nil {
				fmt.Fprintln(os.Stderr, "sql repository:", err)
				os.Exit(3)
			}
			under = append(under, &repoUnderTest{kind: "sql", repo: &renRepo{r, concrete}, db: getFakeDB(dbName), closer: r})
		}
		for _, u := range under {
			for si, s := range steps {
				snaps := make([]*asset.Snapshot, len(s.Rows))
				for i, r := range s.Rows {
					snaps[i] = snapOf(r)
				}
				bad := func(w string) {
					if len(out) < 300 {
						out = append(out, mm{nh, si, u.kind, w})
					}
				}
				if u.db != nil {
					// hold row insertion back: does Append return before its rows are written?
					gate := make(chan struct{})
					u.db.mu.Lock()
					u.db.gate = gate
					u.db.mu.Unlock()
					done := make(chan error, 1)
					go func() { done <- u.repo.Append(s.N, helper.SliceToChan(snaps)) }()
					census()
					returned := false
					select {
					case err := <-done:
						returned = true
						if err != nil {
							bad(fmt.Sprintf("Append(%q) fails: %v", s.N, err))
						}
					default:
					}
					if returned && len(snaps) > 0 {
						u.db.mu.Lock()
						held := u.db.waiting
						u.db.mu.Unlock()
						if held > 0 {
							bad(fmt.Sprintf("Append(%q, %d snapshots) returned while its rows were not yet written: a read that follows misses them", s.N, len(snaps)))
						}
					}
					u.db.mu.Lock()
					u.db.gate = nil
					u.db.mu.Unlock()
					close(gate)
					if !returned {
						if err := <-done; err != nil {
							bad(fmt.Sprintf("Append(%q) fails: %v", s.N, err))
						}
					}
					census()
				} else {
					if err := u.repo.Append(s.N, helper.SliceToChan(snaps)); err != nil {
						bad(fmt.Sprintf("Append(%q) fails: %v", s.N, err))
					}
				}
				checks += checkReads(u, &s.Reads, names, bad)
			}
			if u.closer != nil {
				u.closer.Close()
			}
		}
		dropFakeDB(dbName)
		os.RemoveAll(dir)
		nh++
		if len(out) >= 300 {
			break
		}
	}
	sort.SliceStable(out, func(i, j int) bool { return out[i].Repo < out[j].Repo })
	b, _ := json.Marshal(map[string]any{"histories": nh, "checks": checks, "mismatches": out})
	fmt.Println(string(b))
	_ = time.Now
}

func init() { extraCmds["replay-repo"] = replayRepoMain }
