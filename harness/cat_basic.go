//go:build verif

package main

import (
	"github.com/cinar/indicator/v2/momentum"
	"github.com/cinar/indicator/v2/trend"
	"github.com/cinar/indicator/v2/volume"
)

func init() {
	register(
		Pipe{Name: "trend.Sma", Class: "indicator", Inputs: in1("c"), Params: ps("period"), Default: cfgOf(trend.DefaultSmaPeriod),
			Make: func(cfg []int) Inst {
				x := trend.NewSmaWithPeriod[float64](cfg[0])
				return Inst{Idle: x.IdlePeriod, Compute: func(in []<-chan float64) []Out { return outs(x.Compute(in[0])) }}
			}},
		Pipe{Name: "trend.Ema", Class: "indicator", Inputs: in1("c"), Params: ps("period"), Default: cfgOf(trend.DefaultEmaPeriod),
			Make: func(cfg []int) Inst {
				x := trend.NewEmaWithPeriod[float64](cfg[0])
				return Inst{Idle: x.IdlePeriod, Compute: func(in []<-chan float64) []Out { return outs(x.Compute(in[0])) }}
			}},
		Pipe{Name: "momentum.Ppo", Class: "indicator", Inputs: in1("close"), Params: ps("short", "long", "signal"),
			Default: cfgOf(momentum.DefaultPpoShortPeriod, momentum.DefaultPpoLongPeriod, momentum.DefaultPpoSignalPeriod),
			Valid:   func(c []int) bool { return c[0] <= c[1] },
			Make: func(cfg []int) Inst {
				x := momentum.NewPpo[float64]()
				x.ShortEma.Period, x.LongEma.Period, x.SignalEma.Period = cfg[0], cfg[1], cfg[2]
				return Inst{Idle: x.IdlePeriod, Compute: func(in []<-chan float64) []Out {
					a, b, c := x.Compute(in[0])
					return outs(a, b, c)
				}}
			}},
		Pipe{Name: "volume.Mfm", Class: "indicator", Inputs: ins("high", "low", "close"), Params: ps(), Default: cfgOf(),
			Implied: func([]int) int { return 0 },
			Make: func(cfg []int) Inst {
				x := volume.NewMfm[float64]()
				return Inst{Compute: func(in []<-chan float64) []Out { return outs(x.Compute(in[0], in[1], in[2])) }}
			}},
	)
}
