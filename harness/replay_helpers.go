//go:build verif

package main

import (
	"bufio"
	"bytes"
	"encoding/json"
	"fmt"
	"math"
	"os"
	"strconv"
	"sync"

	"github.com/cinar/indicator/v2/helper"
)

// Replays the cases emitted by TLC from spec/Helpers.tla (slice models of the stream helpers) on the
// real helpers.  Same child protocol as run.go (BEGIN / RESULT / END) so that a helper that hangs is
// reported by the Go runtime's deadlock detector and not by a timeout.

type helperCase struct {
	H    string              `json:"h"`
	P    []int               `json:"p"`
	Ins  [][]float64         `json:"ins"`
	Outs [][]json.RawMessage `json:"outs"`
	// CAP cases
	N     int  `json:"n"`
	CapIn int  `json:"capIn"`
	Cap   int  `json:"cap"`
	IsCap bool `json:"iscap"`
}

func expectVal(raw json.RawMessage, pct bool) float64 {
	var v float64
	if err := json.Unmarshal(raw, &v); err == nil {
		return v
	}
	var pair []float64
	json.Unmarshal(raw, &pair)
	q := pair[0] / pair[1]
	if pct {
		q = q * 100
	}
	return q
}

func srcCap(vals []float64, capacity int) <-chan float64 {
	c := make(chan float64, capacity)
	go func() {
		defer close(c)
		for _, v := range vals {
			c <- v
		}
	}()
	return c
}

func collectAll(cs []<-chan float64) [][]float64 {
	res := make([][]float64, len(cs))
	var wg sync.WaitGroup
	for i := range cs {
		wg.Add(1)
		go func(i int) {
			defer wg.Done()
			for v := range cs[i] {
				res[i] = append(res[i], v)
			}
		}(i)
	}
	wg.Wait()
	return res
}

// buildHelper wires the real helper of a case on inputs of the given capacity.
func buildHelper(h string, p []int, in []<-chan float64) []<-chan float64 {
	one := func(c <-chan float64) []<-chan float64 { return []<-chan float64{c} }
	par := func(i int) int {
		if i < len(p) {
			return p[i]
		}
		return 0
	}
	switch h {
	case "Skip":
		return one(helper.Skip(in[0], par(0)))
	case "First":
		return one(helper.First(in[0], par(0)))
	case "Head":
		return one(helper.Head(in[0], par(0)))
	case "Last":
		return one(helper.Last(in[0], par(0)))
	case "Shift":
		return one(helper.Shift(in[0], par(0), float64(7)))
	case "Buffered":
		return one(helper.Buffered(in[0], par(0)))
	case "Duplicate":
		return helper.Duplicate(in[0], par(0))
	case "Count":
		return one(helper.Count(float64(par(0)), in[0]))
	case "Change":
		return one(helper.Change(in[0], par(0)))
	case "ChangeRatio":
		return one(helper.ChangeRatio(in[0], par(0)))
	case "ChangePercent":
		return one(helper.ChangePercent(in[0], par(0)))
	case "IncrementBy":
		return one(helper.IncrementBy(in[0], float64(par(0))))
	case "DecrementBy":
		return one(helper.DecrementBy(in[0], float64(par(0))))
	case "MultiplyBy":
		return one(helper.MultiplyBy(in[0], float64(par(0))))
	case "DivideBy":
		return one(helper.DivideBy(in[0], float64(par(0))))
	case "MapWithPrevious":
		return one(helper.MapWithPrevious(in[0], func(prev, n float64) float64 { return prev + 2*n }, float64(par(0))))
	case "Echo":
		return one(helper.Echo(in[0], par(0), par(1)))
	case "Since":
		return one(helper.Since[float64, float64](in[0]))
	case "Map":
		return one(helper.Map(in[0], func(v float64) float64 { return 3*v + 1 }))
	case "Apply":
		return one(helper.Apply(in[0], func(v float64) float64 { return 3*v + 1 }))
	case "Filter":
		return one(helper.Filter(in[0], func(v float64) bool { return math.Mod(v, 2) == 0 }))
	case "Abs":
		return one(helper.Abs(in[0]))
	case "Sign":
		return one(helper.Sign(in[0]))
	case "KeepPositives":
		return one(helper.KeepPositives(in[0]))
	case "KeepNegatives":
		return one(helper.KeepNegatives(in[0]))
	case "Pow2":
		return one(helper.Pow(in[0], 2))
	case "ChanToSlice":
		s := helper.ChanToSlice(in[0])
		return one(helper.SliceToChan(s))
	case "Add":
		return one(helper.Add(in[0], in[1]))
	case "Subtract":
		return one(helper.Subtract(in[0], in[1]))
	case "Multiply":
		return one(helper.Multiply(in[0], in[1]))
	case "Divide":
		return one(helper.Divide(in[0], in[1]))
	case "Operate":
		return one(helper.Operate(in[0], in[1], func(a, b float64) float64 { return 10*a + b }))
	case "Operate3":
		return one(helper.Operate3(in[0], in[1], in[2], func(a, b, c float64) float64 { return 100*a + 10*b + c }))
	case "Seq":
		return one(helper.Seq(float64(par(0)), float64(par(1)), float64(par(2))))
	case "SyncPeriod":
		return one(helper.SyncPeriod(par(0), par(1), in[0]))
	case "Gcd":
		return one(helper.SliceToChan([]float64{float64(helper.Gcd(p...))}))
	case "Lcm":
		return one(helper.SliceToChan([]float64{float64(helper.Lcm(p...))}))
	case "CommonPeriod":
		return one(helper.SliceToChan([]float64{float64(helper.CommonPeriod(p...))}))
	}
	return nil
}

func sameFloat(a, b float64) bool {
	if math.IsNaN(a) && math.IsNaN(b) {
		return true
	}
	return a == b
}

func runHelperCase(c *helperCase) string {
	for _, capacity := range []int{0, 2} {
		in := make([]<-chan float64, len(c.Ins))
		for i := range c.Ins {
			in[i] = srcCap(c.Ins[i], capacity)
		}
		outs := buildHelper(c.H, c.P, in)
		if outs == nil {
			return "unknown helper " + c.H
		}
		got := collectAll(outs)
		if c.H == "Head" {
			// Head takes the first n values and deliberately leaves the rest to another reader
			helper.Drain(in[0])
		}
		if len(got) != len(c.Outs) {
			return fmt.Sprintf("cap=%d: %d outputs, model %d", capacity, len(got), len(c.Outs))
		}
		for k := range got {
			if len(got[k]) != len(c.Outs[k]) {
				return fmt.Sprintf("cap=%d: output %d has %d values %v, slice model has %d", capacity, k, len(got[k]), got[k], len(c.Outs[k]))
			}
			for i := range got[k] {
				want := expectVal(c.Outs[k][i], c.H == "ChangePercent")
				if !sameFloat(got[k][i], want) {
					return fmt.Sprintf("cap=%d: output %d value %d is %v, slice model says %v (got %v)", capacity, k, i, got[k][i], want, got[k])
				}
			}
		}
	}
	return ""
}

// capCase runs a capacity case with inputs that are already closed.
func capCase(c *helperCase) string {
	in := make([]<-chan float64, 3)
	for i := range in {
		ch := make(chan float64, c.CapIn)
		close(ch)
		in[i] = ch
	}
	outs := buildHelper(c.H, []int{c.N, 1}, in)
	if outs == nil {
		return "unknown helper " + c.H
	}
	got := cap(outs[0])
	collectAll(outs)
	if got != c.Cap {
		return fmt.Sprintf("returned channel has capacity %d for an input of capacity %d, rule says %d", got, c.CapIn, c.Cap)
	}
	return ""
}

func helpersChildMain(args []string) {
	data, err := os.ReadFile(args[0])
	if err != nil {
		fmt.Fprintln(os.Stderr, err)
		os.Exit(3)
	}
	start, _ := strconv.Atoi(args[1])
	var cases []helperCase
	sc := bufio.NewScanner(bytes.NewReader(data))
	sc.Buffer(make([]byte, 1<<20), 1<<26)
	for sc.Scan() {
		var c helperCase
		if err := json.Unmarshal(sc.Bytes(), &c); err != nil {
			fmt.Fprintln(os.Stderr, "bad case:", err, string(sc.Bytes()))
			os.Exit(3)
		}
		cases = append(cases, c)
	}
	w := bufio.NewWriter(os.Stdout)
	for i := start; i < len(cases); i++ {
		fmt.Fprintf(w, "BEGIN %d\n", i)
		w.Flush()
		var msg string
		if cases[i].IsCap {
			msg = capCase(&cases[i])
		} else {
			msg = runHelperCase(&cases[i])
		}
		if msg != "" {
			b, _ := json.Marshal(map[string]any{"id": i, "mismatch": msg})
			fmt.Fprintf(w, "RESULT %d %s\n", i, b)
			w.Flush()
		}
		if i%500 == 499 {
			if lk, _ := census(); len(lk) > 0 {
				b, _ := json.Marshal(map[string]any{"id": i, "leaks": lk})
				fmt.Fprintf(w, "RESULT %d %s\n", i, b)
				fmt.Fprintf(w, "RESTART %d\n", i+1)
				w.Flush()
				os.Exit(0)
			}
		}
	}
	lk, _ := census()
	if len(lk) > 0 {
		b, _ := json.Marshal(map[string]any{"id": len(cases) - 1, "leaks": lk})
		fmt.Fprintf(w, "RESULT %d %s\n", len(cases)-1, b)
	}
	fmt.Fprintln(w, "END")
	w.Flush()
}

func init() { extraCmds["helpers-child"] = helpersChildMain }
