//go:build verif

package main

import (
	"bufio"
	"encoding/json"
	"fmt"
	"os"
	"reflect"
	"time"

	"github.com/cinar/indicator/v2/helper"
)

// Replays the AddChart / AddColumn histories of spec/ReportViews.tla on the real helper.Report and compares the returned
// ids and the final Views:   replay-views <histories.ndjson>  -> {"histories": n, "mismatches": [...]}

func replayViewsMain(args []string) {
	f, err := os.Open(args[0])
	if err != nil {
		fmt.Fprintln(os.Stderr, err)
		os.Exit(3)
	}
	defer f.Close()
	sc := bufio.NewScanner(f)
	sc.Buffer(make([]byte, 1<<20), 1<<26)
	var mm []string
	n := 0
	for sc.Scan() {
		var c struct {
			H []struct {
				Op     string `json:"op"`
				Charts []int  `json:"charts"`
				Ret    int    `json:"ret"`
			} `json:"h"`
			Views [][]int `json:"views"`
			NCols int     `json:"ncols"`
		}
		if err := json.Unmarshal(sc.Bytes(), &c); err != nil {
			fmt.Fprintln(os.Stderr, "bad history:", err)
			os.Exit(3)
		}
		n++
		dates := make(chan time.Time)
		close(dates)
		r := helper.NewReport("t", dates)
		for i, st := range c.H {
			switch st.Op {
			case "chart":
				if id := r.AddChart(); id != st.Ret && len(mm) < 20 {
					mm = append(mm, fmt.Sprintf("history %d step %d: AddChart returned %d, prescribed %d", n, i, id, st.Ret))
				}
			case "column":
				vals := make(chan float64)
				close(vals)
				r.AddColumn(helper.NewNumericReportColumn("c", vals), st.Charts...)
				if len(r.Columns) != st.Ret && len(mm) < 20 {
					mm = append(mm, fmt.Sprintf("history %d step %d: %d columns after AddColumn, prescribed id %d", n, i, len(r.Columns), st.Ret))
				}
			}
		}
		got := make([][]int, len(r.Views))
		for i, v := range r.Views {
			got[i] = append([]int{}, v...)
		}
		want := make([][]int, len(c.Views))
		for i, v := range c.Views {
			want[i] = append([]int{}, v...)
		}
		if !reflect.DeepEqual(got, want) && len(mm) < 20 {
			mm = append(mm, fmt.Sprintf("history %d (%v): Views = %v, prescribed %v", n, c.H, got, want))
		}
	}
	b, _ := json.Marshal(map[string]any{"histories": n, "mismatches": mm})
	fmt.Println(string(b))
}

func init() { extraCmds["replay-views"] = replayViewsMain }
