//go:build verif

package main

import (
	"bufio"
	"encoding/json"
	"fmt"
	"os"
	"bytes"
	"reflect"
	"regexp"
	"strconv"
	"strings"
	"time"

	"github.com/cinar/indicator/v2/helper"
)

// Replays the AddChart / AddColumn histories of spec/ReportViews.tla on the real helper.Report and compares the returned
// ids and the final Views:   replay-views <histories.ndjson>  -> {"histories": n, "mismatches": [...]}

func replayViewsMain(args []string) {
	f, err := os.Open(args[0])
	if err != nil {
		fmt.Fprintln(os.Stderr, err)
		os.Exit(3)
	}
	defer f.Close()
	sc := bufio.NewScanner(f)
	sc.Buffer(make([]byte, 1<<20), 1<<26)
	var mm []string
	n := 0
	rendered := 0
	for sc.Scan() {
		var c struct {
			H []struct {
				Op     string `json:"op"`
				Charts []int  `json:"charts"`
				Kind   string `json:"kind"`
				Ret    int    `json:"ret"`
			} `json:"h"`
			Views [][]int `json:"views"`
			NCols int     `json:"ncols"`
			Doc   *struct {
				Containers []int `json:"containers"`
				Wrappers   []struct {
					Container int   `json:"container"`
					Height    int   `json:"height"`
					Columns   []int `json:"columns"`
				} `json:"wrappers"`
				Declared []struct {
					Type string `json:"type"`
					Role string `json:"role"`
				} `json:"declared"`
				Rows  [][][]int `json:"rows"`
				Bound []int     `json:"bound"`
			} `json:"doc"`
		}
		if err := json.Unmarshal(sc.Bytes(), &c); err != nil {
			fmt.Fprintln(os.Stderr, "bad history:", err)
			os.Exit(3)
		}
		n++
		nd := 0
		if c.Doc != nil {
			nd = len(c.Doc.Rows)
		}
		dates := make(chan time.Time, nd)
		for i := 0; i < nd; i++ {
			dates <- viewsDate(i)
		}
		close(dates)
		r := helper.NewReport("t", dates)
		for i, st := range c.H {
			switch st.Op {
			case "chart":
				if id := r.AddChart(); id != st.Ret && len(mm) < 20 {
					mm = append(mm, fmt.Sprintf("history %d step %d: AddChart returned %d, prescribed %d", n, i, id, st.Ret))
				}
			case "column":
				col := st.Ret
				if st.Kind == "ann" {
					vals := make(chan string, nd)
					for k := 1; k <= nd; k++ {
						vals <- viewsAnn(col, k)
					}
					close(vals)
					r.AddColumn(helper.NewAnnotationReportColumn(vals), st.Charts...)
				} else {
					vals := make(chan float64, nd)
					for k := 1; k <= nd; k++ {
						vals <- float64(col*100 + k)
					}
					close(vals)
					r.AddColumn(helper.NewNumericReportColumn("c"+strconv.Itoa(col), vals), st.Charts...)
				}
				if len(r.Columns) != st.Ret && len(mm) < 20 {
					mm = append(mm, fmt.Sprintf("history %d step %d: %d columns after AddColumn, prescribed id %d", n, i, len(r.Columns), st.Ret))
				}
			}
		}
		got := make([][]int, len(r.Views))
		for i, v := range r.Views {
			got[i] = append([]int{}, v...)
		}
		want := make([][]int, len(c.Views))
		for i, v := range c.Views {
			want[i] = append([]int{}, v...)
		}
		if !reflect.DeepEqual(got, want) && len(mm) < 20 {
			mm = append(mm, fmt.Sprintf("history %d (%v): Views = %v, prescribed %v", n, c.H, got, want))
		}
		if c.Doc != nil {
			rendered++
			var buf bytes.Buffer
			if err := r.WriteToWriter(&buf); err != nil {
				if len(mm) < 20 {
					mm = append(mm, fmt.Sprintf("history %d (%v): WriteToWriter: %v", n, c.H, err))
				}
				continue
			}
			gd := viewsParse(buf.String())
			kinds := []string{}
			for _, st := range c.H {
				if st.Op == "column" {
					kinds = append(kinds, st.Kind)
				}
			}
			wd := viewsDoc{}
			wd.Containers = append([]int{}, c.Doc.Containers...)
			wd.Bound = append([]int{}, c.Doc.Bound...)
			for _, w := range c.Doc.Wrappers {
				wd.Wrappers = append(wd.Wrappers, fmt.Sprintf("chart%d h=%d cols=%v", w.Container, w.Height, w.Columns))
			}
			for i, d := range c.Doc.Declared {
				label := ""
				if kinds[i] != "ann" {
					label = "c" + strconv.Itoa(i+1)
				}
				wd.Declared = append(wd.Declared, d.Type+"/"+label+"/"+d.Role)
			}
			for ri, row := range c.Doc.Rows {
				cells := []string{viewsDate(ri).Format(r.DateFormat)}
				for _, cell := range row {
					col, k := cell[0], cell[1]
					if kinds[col-1] == "ann" {
						if a := viewsAnn(col, k); a == "" {
							cells = append(cells, "null")
						} else {
							cells = append(cells, strconv.Quote(a))
						}
					} else {
						cells = append(cells, strconv.Itoa(col*100+k))
					}
				}
				wd.Rows = append(wd.Rows, strings.Join(cells, "|"))
			}
			if !reflect.DeepEqual(gd, wd) && len(mm) < 20 {
				mm = append(mm, fmt.Sprintf("history %d (%v): rendered document %+v, prescribed %+v", n, c.H, gd, wd))
			}
		}
	}
	b, _ := json.Marshal(map[string]any{"histories": n, "rendered": rendered, "mismatches": mm})
	fmt.Println(string(b))
}

// the date of row i; the second one is the zero time (a date like any other: it, too, gets its row)
func viewsDate(i int) time.Time {
	if i == 1 {
		return time.Time{}
	}
	return time.Date(2021, 3, 1+i, 0, 0, 0, 0, time.UTC)
}

// the annotation of column col at position k: every second one is empty (rendered as null)
func viewsAnn(col, k int) string {
	if k%2 == 0 {
		return ""
	}
	return fmt.Sprintf("a%d_%d", col, k)
}

// what the rendered HTML / JS says, in the vocabulary of ReportViews.tla's Doc
type viewsDoc struct {
	Containers []int
	Wrappers   []string
	Declared   []string
	Rows       []string
	Bound      []int
}

var (
	reViewDiv   = regexp.MustCompile(`<div id="chart(\d+)"></div>`)
	reViewWrap  = regexp.MustCompile(`(?s)var chart(\d+) = new google\.visualization\.ChartWrapper\(\{.*?"containerId": "chart(\d+)".*?"height":\s*(\d+),.*?"columns": \[(.*?)\]`)
	reViewDecl  = regexp.MustCompile(`(?s)data\.addColumn\(\{\s*"type": "([^"]*)",\s*"label": "([^"]*)",\s*"role": "([^"]*)",\s*\}\);`)
	reViewRow   = regexp.MustCompile(`(?s)data\.addRow\(\[\s*new Date\("([^"]*)"\),(.*?)\]\);`)
	reViewBind  = regexp.MustCompile(`(?s)dashboard\.bind\(rangeFilter, \[(.*?)\]\);`)
	reViewChart = regexp.MustCompile(`chart(\d+),`)
)

func viewsParse(html string) viewsDoc {
	d := viewsDoc{}
	for _, m := range reViewDiv.FindAllStringSubmatch(html, -1) {
		i, _ := strconv.Atoi(m[1])
		d.Containers = append(d.Containers, i)
	}
	for _, m := range reViewWrap.FindAllStringSubmatch(html, -1) {
		cols := []int{}
		for _, f := range strings.Split(m[4], ",") {
			if f = strings.TrimSpace(f); f != "" {
				v, err := strconv.Atoi(f)
				if err != nil {
					v = -999
				}
				cols = append(cols, v)
			}
		}
		name := "chart" + m[2]
		if m[1] != m[2] {
			name = "var chart" + m[1] + " in container chart" + m[2]
		}
		d.Wrappers = append(d.Wrappers, fmt.Sprintf("%s h=%s cols=%v", name, m[3], cols))
	}
	for _, m := range reViewDecl.FindAllStringSubmatch(html, -1) {
		d.Declared = append(d.Declared, m[1]+"/"+m[2]+"/"+m[3])
	}
	for _, m := range reViewRow.FindAllStringSubmatch(html, -1) {
		cells := []string{m[1]}
		for _, f := range strings.Split(m[2], ",\n") {
			if f = strings.TrimSpace(f); f != "" {
				cells = append(cells, strings.TrimSuffix(f, ","))
			}
		}
		d.Rows = append(d.Rows, strings.Join(cells, "|"))
	}
	if m := reViewBind.FindStringSubmatch(html); m != nil {
		for _, c := range reViewChart.FindAllStringSubmatch(m[1], -1) {
			i, _ := strconv.Atoi(c[1])
			d.Bound = append(d.Bound, i)
		}
	}
	return d
}

func init() { extraCmds["replay-views"] = replayViewsMain }
