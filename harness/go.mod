module verifharness

go 1.22

require github.com/cinar/indicator/v2 v2.0.0

replace github.com/cinar/indicator/v2 => /repo
