//go:build verif

package main

import (
	"bufio"
	"encoding/json"
	"fmt"
	"os"

	"github.com/cinar/indicator/v2/helper"
	"github.com/cinar/indicator/v2/trend"
	"github.com/cinar/indicator/v2/volume"
)

// Replays the sequences TLC enumerates from spec/Window.tla on the real MovingSum / MovingMax / MovingMin /
// SMA (power-of-two periods) / OBV and compares exactly (integer lattice: no rounding involved).

func toF(xs []int) []float64 {
	out := make([]float64, len(xs))
	for i, x := range xs {
		out[i] = float64(x)
	}
	return out
}

func eqF(got []float64, want []int, div float64) (int, bool) {
	if len(got) != len(want) {
		return -1, false
	}
	for i := range got {
		if got[i] != float64(want[i])/div {
			return i, false
		}
	}
	return 0, true
}

func replayWindowMain(args []string) {
	f, err := os.Open(args[0])
	if err != nil {
		fmt.Fprintln(os.Stderr, err)
		os.Exit(3)
	}
	defer f.Close()
	sc := bufio.NewScanner(f)
	sc.Buffer(make([]byte, 1<<20), 1<<26)
	type mm struct {
		Ind  string `json:"ind"`
		What string `json:"what"`
	}
	var out []mm
	n, checks := 0, 0
	per := map[string]int{}
	add := func(ind, w string) {
		if per[ind] < 40 {
			per[ind]++
			out = append(out, mm{ind, w})
		}
	}
	for sc.Scan() {
		var c struct {
			Kind string          `json:"kind"`
			S    []int           `json:"s"`
			P    int             `json:"p"`
			Sum  []int           `json:"sum"`
			Max  []int           `json:"max"`
			Min  []int           `json:"min"`
			C    []int           `json:"c"`
			V    []int           `json:"v"`
			Inc  json.RawMessage `json:"inc"`
		}
		if err := json.Unmarshal(sc.Bytes(), &c); err != nil {
			fmt.Fprintln(os.Stderr, "bad case:", err)
			os.Exit(3)
		}
		n++
		switch c.Kind {
		case "win":
			in := toF(c.S)
			ms := trend.NewMovingSumWithPeriod[float64](c.P)
			got := helper.ChanToSlice(ms.Compute(helper.SliceToChan(in)))
			checks++
			if i, ok := eqF(got, c.Sum, 1); !ok {
				add("MovingSum", fmt.Sprintf("MovingSum(%d) of %v = %v, documented sums %v (index %d)", c.P, c.S, got, c.Sum, i))
			}
			mx := trend.NewMovingMaxWithPeriod[float64](c.P)
			got = helper.ChanToSlice(mx.Compute(helper.SliceToChan(in)))
			checks++
			if i, ok := eqF(got, c.Max, 1); !ok {
				add("MovingMax", fmt.Sprintf("MovingMax(%d) of %v = %v, window maxima are %v (index %d)", c.P, c.S, got, c.Max, i))
			}
			mn := trend.NewMovingMinWithPeriod[float64](c.P)
			got = helper.ChanToSlice(mn.Compute(helper.SliceToChan(in)))
			checks++
			if i, ok := eqF(got, c.Min, 1); !ok {
				add("MovingMin", fmt.Sprintf("MovingMin(%d) of %v = %v, window minima are %v (index %d)", c.P, c.S, got, c.Min, i))
			}
			if c.P == 1 || c.P == 2 || c.P == 4 {
				sma := trend.NewSmaWithPeriod[float64](c.P)
				got = helper.ChanToSlice(sma.Compute(helper.SliceToChan(in)))
				checks++
				if i, ok := eqF(got, c.Sum, float64(c.P)); !ok {
					add("Sma", fmt.Sprintf("SMA(%d) of %v = %v, window sums / period are %v / %d (index %d)", c.P, c.S, got, c.Sum, c.P, i))
				}
			}
		case "obv":
			o := volume.NewObv[float64]()
			got := helper.ChanToSlice(o.Compute(helper.SliceToChan(toF(c.C)), helper.SliceToChan(toF(c.V))))
			checks++
			// inc is a function over 2..k: TLC prints it as an object {"2": .., "3": ..} (or an empty array)
			inc := map[string]int{}
			json.Unmarshal(c.Inc, &inc)
			if len(got) != len(c.C) {
				add("Obv/other", fmt.Sprintf("OBV of %d closes has %d values", len(c.C), len(got)))
			} else {
				for i := 1; i < len(got); i++ {
					want := float64(inc[fmt.Sprint(i+1)])
					if got[i]-got[i-1] != want {
						// the recorded deviation: the close is compared with the previous OBV value instead of the previous close;
						// anything else is reported under another name, which no finding matches
						recorded := 0.0
						if float64(c.C[i]) > got[i-1] {
							recorded = float64(c.V[i])
						} else if float64(c.C[i]) < got[i-1] {
							recorded = -float64(c.V[i])
						}
						name := "Obv"
						if got[i]-got[i-1] != recorded {
							name = "Obv/other"
						}
						add(name, fmt.Sprintf("OBV of closes %v volumes %v = %v: step %d is %v, the documented recurrence (close vs previous close) gives %v", c.C, c.V, got, i, got[i]-got[i-1], want))
						break
					}
				}
			}
		}
	}
	b, _ := json.Marshal(map[string]any{"cases": n, "checks": checks, "mismatches": out})
	fmt.Println(string(b))
}

func init() { extraCmds["replay-window"] = replayWindowMain }
