//go:build verif

package main

import (
	"strconv"
	"strings"

	"github.com/cinar/indicator/v2/asset"
	"github.com/cinar/indicator/v2/momentum"
	"github.com/cinar/indicator/v2/strategy"
	"github.com/cinar/indicator/v2/strategy/compound"
	"github.com/cinar/indicator/v2/strategy/decorator"
	smomentum "github.com/cinar/indicator/v2/strategy/momentum"
	strend "github.com/cinar/indicator/v2/strategy/trend"
	svolume "github.com/cinar/indicator/v2/strategy/volume"
	"github.com/cinar/indicator/v2/volume"
)

// Compound and decorator strategies over catalogued base strategies.  The configuration vector of a
// compound is the concatenation of the configuration vectors of its parts.

type wrapFn func(subs []strategy.Strategy) strategy.Strategy

func mkCompound(name string, wrap wrapFn, subNames ...string) Pipe {
	var params []string
	var def []int
	var offs []int
	fields := map[string]bool{}
	for i, sn := range subNames {
		sp := findPipe(sn)
		if sp == nil {
			panic("compound: unknown part " + sn)
		}
		offs = append(offs, len(params))
		for _, p := range sp.Params {
			params = append(params, p+itoa(i))
		}
		def = append(def, sp.Default...)
		for _, f := range sp.Fields {
			fields[f] = true
		}
	}
	var fl []string
	for _, f := range []string{"Close", "High", "Low", "Open", "Volume"} {
		if fields[f] {
			fl = append(fl, f)
		}
	}
	short := make([]string, len(subNames))
	for i, sn := range subNames {
		short[i] = strings.TrimSuffix(sn[strings.LastIndex(sn, ".")+1:], "Strategy")
	}
	return Pipe{
		Name: name + "(" + strings.Join(short, ",") + ")", Class: "compound", Inputs: snapIn, Params: params, Default: def,
		Fields: fl,
		Valid: func(cfg []int) bool {
			for i, sn := range subNames {
				sp := findPipe(sn)
				c := cfg[offs[i] : offs[i]+len(sp.Params)]
				if sp.Valid != nil && !sp.Valid(c) {
					return false
				}
			}
			return true
		},
		Make: func(cfg []int) Inst {
			subs := make([]strategy.Strategy, len(subNames))
			for i, sn := range subNames {
				sp := findPipe(sn)
				subs[i] = sp.Make(cfg[offs[i] : offs[i]+len(sp.Params)]).Strat.(strategy.Strategy)
			}
			return stratInst(wrap(subs), nil)
		},
	}
}

func registerCompounds() {
	registerLevelVariants()
	registerLevelInfluence()
	// auxiliary pipelines used as oracles by the checks (not library pipelines under test)
	register(Pipe{Name: "aux.Closings", Class: "aux", Inputs: snapIn, Params: ps(), Default: cfgOf(),
		Make: func(cfg []int) Inst {
			return Inst{ComputeS: func(in <-chan *asset.Snapshot) []Out {
				return []Out{OutOf("close", asset.SnapshotsAsClosings(in), ident)}
			}}
		}})
	// strategy.ComputeWithOutcome over catalogued strategies: outputs actions and the outcome stream (property C18: the
	// relative gain does not depend on the currency unit)
	for _, sn := range []string{"strategy.BuyAndHoldStrategy", "strategy/momentum.RsiStrategy", "strategy/compound.MacdRsiStrategy", "strategy/trend.AroonStrategy"} {
		sp := findPipe(sn)
		register(Pipe{Name: "aux.Outcome(" + sn[strings.LastIndex(sn, ".")+1:] + ")", Class: "aux", Inputs: snapIn, Params: sp.Params, Default: sp.Default,
			Valid: sp.Valid,
			Make: func(cfg []int) Inst {
				st := sp.Make(cfg).Strat.(strategy.Strategy)
				return Inst{ComputeS: func(in <-chan *asset.Snapshot) []Out {
					a, o := strategy.ComputeWithOutcome(st, in)
					return []Out{OutOf("actions", a, actF), OutOf("outcome", o, ident)}
				}}
			}})
	}
	and := func(s []strategy.Strategy) strategy.Strategy { return strategy.NewAndStrategy("and", s...) }
	or := func(s []strategy.Strategy) strategy.Strategy { return strategy.NewOrStrategy("or", s...) }
	maj := func(s []strategy.Strategy) strategy.Strategy { return strategy.NewMajorityStrategyWith("majority", s) }
	split := func(s []strategy.Strategy) strategy.Strategy { return strategy.NewSplitStrategy(s[0], s[1]) }
	inv := func(s []strategy.Strategy) strategy.Strategy { return decorator.NewInverseStrategy(s[0]) }
	noloss := func(s []strategy.Strategy) strategy.Strategy { return decorator.NewNoLossStrategy(s[0]) }
	stop := func(s []strategy.Strategy) strategy.Strategy { return decorator.NewStopLossStrategy(s[0], 0.1) }
	// a stop-loss of 100 %: the stop level is 0, which the decorator also uses for "no position" - its Compute then repeats
	// Buy for as long as the inner strategy does, and everything downstream has to cope with a denormalised stream
	stopAll := func(s []strategy.Strategy) strategy.Strategy { return decorator.NewStopLossStrategy(s[0], 1.0) }
	nested := func(s []strategy.Strategy) strategy.Strategy {
		return decorator.NewNoLossStrategy(decorator.NewStopLossStrategy(s[0], 0.05))
	}
	invAnd := func(s []strategy.Strategy) strategy.Strategy {
		return decorator.NewInverseStrategy(strategy.NewAndStrategy("and", s...))
	}
	const (
		macd  = "strategy/trend.MacdStrategy"
		rsi   = "strategy/momentum.RsiStrategy"
		bop   = "strategy/trend.BopStrategy"
		bah   = "strategy.BuyAndHoldStrategy"
		trix  = "strategy/trend.TrixStrategy"
		aroon = "strategy/trend.AroonStrategy"
		alli  = "strategy/trend.AlligatorStrategy"
		cmf   = "strategy/volume.ChaikinMoneyFlowStrategy"
	)
	register(
		mkCompound("strategy.And", and, macd, rsi),
		mkCompound("strategy.And", and, bah, trix),
		mkCompound("strategy.And", and, alli, rsi),
		mkCompound("strategy.Or", or, macd, rsi),
		mkCompound("strategy.Or", or, aroon, cmf),
		mkCompound("strategy.Majority", maj, macd, rsi, bop),
		mkCompound("strategy.Majority", maj, bah, aroon, trix),
		mkCompound("strategy.Split", split, macd, rsi),
		mkCompound("strategy.Split", split, bah, aroon),
		mkCompound("decorator.Inverse", inv, macd),
		mkCompound("decorator.NoLoss", noloss, rsi),
		mkCompound("decorator.StopLoss", stop, macd),
		mkCompound("decorator.NoLoss.StopLoss", nested, bah),
		mkCompound("decorator.StopLoss@100%", stopAll, macd),
		mkCompound("decorator.StopLoss@100%", stopAll, rsi),
		mkCompound("decorator.Inverse.And", invAnd, aroon, bop),
	)
	// second level: parts that are themselves decorators / compounds hand their actions over unbuffered channels
	// (a plain indicator strategy parks its warm-up in the buffer of helper.Shift), so the voting loops' drains matter
	register(
		mkCompound("strategy.Split", split, "decorator.Inverse(Macd)", bah),
		mkCompound("strategy.Split", split, bah, "decorator.NoLoss(Rsi)"),
		mkCompound("strategy.Split", split, "strategy/compound.MacdRsiStrategy", bah),
		mkCompound("strategy.And", and, "decorator.NoLoss(Rsi)", "strategy.Or(Aroon,ChaikinMoneyFlow)"),
		mkCompound("strategy.Or", or, bah, "decorator.Inverse(Macd)"),
		mkCompound("strategy.Majority", maj, "decorator.StopLoss(Macd)", bah, "strategy.Split(BuyAndHold,Aroon)"),
	)
}

// Level variants: strategies whose With-constructor takes Buy/Sell levels, at levels that differ from the defaults
// the pinned tests use - in particular levels at the indicator's neutral value (50 for RSI / MFI, 0.5 for the stochastic
// RSI), where a numeric fill value would be mistaken for a signal.
func registerLevelVariants() {
	// the Alligator strategy with the lines in rising order (the jaw the FASTEST line, all three distinct): Compute
	// synchronises the three to CommonPeriod, so no line may be taken for the slowest one
	register(Pipe{Name: "strategy/trend.AlligatorStrategy@rising", Class: "strategy", Inputs: snapIn, Params: ps("jaw", "teeth", "lip"),
		Default: cfgOf(5, 8, 13), Fields: []string{"Close"},
		Make: func(cfg []int) Inst {
			return stratInst(strend.NewAlligatorStrategyWith(cfg[0], cfg[1], cfg[2]), nil)
		}})
	type lv struct{ a, b float64 }
	for _, l := range []lv{{30, 50}, {50, 70}, {10, 90}} {
		l := l
		register(Pipe{Name: "strategy/momentum.RsiStrategy@" + ftoa(l.a) + "-" + ftoa(l.b), Class: "strategy", Inputs: snapIn, Params: ps("period"),
			Default: cfgOf(momentum.DefaultRsiPeriod), Fields: []string{"Close"},
			Make: func(cfg []int) Inst {
				s := smomentum.NewRsiStrategyWith(l.a, l.b)
				s.Rsi.Rma.Period = cfg[0]
				return stratInst(s, nil)
			}})
	}
	for _, l := range []lv{{80, 50}, {50, 20}} { // (sellAt, buyAt)
		l := l
		register(Pipe{Name: "strategy/volume.MoneyFlowIndexStrategy@" + ftoa(l.a) + "-" + ftoa(l.b), Class: "strategy", Inputs: snapIn, Params: ps("period"),
			Default: cfgOf(volume.DefaultMfiPeriod), Fields: []string{"Close", "High", "Low", "Volume"},
			Make: func(cfg []int) Inst {
				s := svolume.NewMoneyFlowIndexStrategyWith(l.a, l.b)
				s.MoneyFlowIndex.Sum.Period = cfg[0]
				return stratInst(s, nil)
			}})
	}
	for _, l := range []lv{{0.5, 0.2}, {0.8, 0.5}} {
		l := l
		register(Pipe{Name: "strategy/momentum.StochasticRsiStrategy@" + ftoa(l.a) + "-" + ftoa(l.b), Class: "strategy", Inputs: snapIn, Params: ps("period"),
			Default: cfgOf(momentum.DefaultStochasticRsiPeriod), Fields: []string{"Close"},
			Make: func(cfg []int) Inst {
				s := smomentum.NewStochasticRsiStrategyWith(l.a, l.b)
				s.StochasticRsi = momentum.NewStochasticRsiWithPeriod[float64](cfg[0])
				return stratInst(s, nil)
			}})
	}
	for _, l := range []lv{{30, 50}, {50, 70}} {
		l := l
		register(Pipe{Name: "strategy/compound.MacdRsiStrategy@" + ftoa(l.a) + "-" + ftoa(l.b), Class: "strategy", Inputs: snapIn,
			Params: ps("period1", "period2", "period3", "rsi"), Default: cfgOf(12, 26, 9, 14), Fields: []string{"Close"},
			Valid: func(c []int) bool { return c[0] <= c[1] },
			Make: func(cfg []int) Inst {
				s := compound.NewMacdRsiStrategyWith(l.a, l.b)
				s.MacdStrategy.Macd.Ema1.Period, s.MacdStrategy.Macd.Ema2.Period, s.MacdStrategy.Macd.Ema3.Period = cfg[0], cfg[1], cfg[2]
				s.RsiStrategy.Rsi.Rma.Period = cfg[3]
				return stratInst(s, nil)
			}})
	}
}

// registerLevelInfluence: triples of entries (class aux) that differ in ONE documented level only - the base levels, the same
// with another Sell level, the same with another Buy level - for the check that a documented level has an influence on the
// recommendations it is documented for (property C06).
func registerLevelInfluence() {
	type lv struct {
		tag       string
		buy, sell float64
	}
	reg := func(name string, params []string, def []int, fields []string, levels []lv, mk func(buy, sell float64, cfg []int) strategy.Strategy) {
		for _, l := range levels {
			l := l
			register(Pipe{Name: "levels." + name + "/" + l.tag, Class: "aux", Inputs: snapIn, Params: params, Default: def, Fields: fields,
				Make: func(cfg []int) Inst { return stratInst(mk(l.buy, l.sell, cfg), nil) }})
		}
	}
	reg("RsiStrategy", ps("period"), cfgOf(momentum.DefaultRsiPeriod), []string{"Close"},
		[]lv{{"base", 30, 70}, {"sell", 30, 55}, {"buy", 45, 70}},
		func(b, s float64, cfg []int) strategy.Strategy {
			x := smomentum.NewRsiStrategyWith(b, s)
			x.Rsi.Rma.Period = cfg[0]
			return x
		})
	reg("StochasticRsiStrategy", ps("period"), cfgOf(momentum.DefaultStochasticRsiPeriod), []string{"Close"},
		[]lv{{"base", 0.1, 0.7}, {"sell", 0.1, 0.3}, {"buy", 0.25, 0.7}},
		func(b, s float64, cfg []int) strategy.Strategy {
			x := smomentum.NewStochasticRsiStrategyWith(b, s)
			x.StochasticRsi = momentum.NewStochasticRsiWithPeriod[float64](cfg[0])
			return x
		})
	reg("MoneyFlowIndexStrategy", ps("period"), cfgOf(volume.DefaultMfiPeriod), []string{"Close", "High", "Low", "Volume"},
		[]lv{{"base", 20, 80}, {"sell", 20, 60}, {"buy", 40, 80}},
		func(b, s float64, cfg []int) strategy.Strategy {
			x := svolume.NewMoneyFlowIndexStrategyWith(s, b)
			x.MoneyFlowIndex.Sum.Period = cfg[0]
			return x
		})
}

func ftoa(f float64) string { return strconv.FormatFloat(f, 'g', -1, 64) }
