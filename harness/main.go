//go:build verif

// Command verifharness binds the TLA+ specifications under /verif/spec to the real code of
// cinar/indicator: it records pipeline wirings, runs real pipelines in timer-free child processes,
// replays model-generated histories on the real sequential components and records traces.
package main

import (
	"encoding/json"
	"fmt"
	"os"
	"strconv"
)

func main() {
	if len(os.Args) < 2 {
		fmt.Fprintln(os.Stderr, "usage: verifharness <subcommand> ...")
		os.Exit(3)
	}
	registerCompounds()
	switch os.Args[1] {
	case "child":
		start, _ := strconv.Atoi(os.Args[3])
		childMain(os.Args[2], start)
	case "catalogue":
		type entry struct {
			Name    string   `json:"name"`
			Class   string   `json:"class"`
			Inputs  []string `json:"inputs"`
			Params  []string `json:"params"`
			Default []int    `json:"default"`
			Fields  []string `json:"fields,omitempty"`
		}
		var es []entry
		for _, p := range catalogue {
			es = append(es, entry{p.Name, p.Class, p.Inputs, p.Params, p.Default, p.Fields})
		}
		b, _ := json.MarshalIndent(es, "", " ")
		fmt.Println(string(b))
	case "valid":
		// valid <pipe> <cfg json>: exit 0 and print idle/lag when admissible
		p := findPipe(os.Args[2])
		var cfg []int
		json.Unmarshal([]byte(os.Args[3]), &cfg)
		ok := p != nil && allGE1(cfg) && (p.Valid == nil || p.Valid(cfg))
		fmt.Println(ok)
	case "validmany":
		var qs []struct {
			Pipe string `json:"pipe"`
			Cfg  []int  `json:"cfg"`
		}
		if err := json.NewDecoder(os.Stdin).Decode(&qs); err != nil {
			fmt.Fprintln(os.Stderr, err)
			os.Exit(3)
		}
		oks := make([]bool, len(qs))
		for i, q := range qs {
			p := findPipe(q.Pipe)
			oks[i] = p != nil && len(q.Cfg) == len(p.Params) && allGE1(q.Cfg) && (p.Valid == nil || p.Valid(q.Cfg))
		}
		b, _ := json.Marshal(oks)
		fmt.Println(string(b))
	default:
		if !extraMain(os.Args[1], os.Args[2:]) {
			fmt.Fprintln(os.Stderr, "unknown subcommand", os.Args[1])
			os.Exit(3)
		}
	}
}
