//go:build verif

package main

import (
	"bufio"
	"encoding/json"
	"errors"
	"fmt"
	"os"
	"sort"
	"sync"
	"time"

	"github.com/cinar/indicator/v2/asset"
	"github.com/cinar/indicator/v2/helper"
)

// Runs asset.Sync.Run on the scenarios TLC enumerates from spec/Sync.tla, with recording, fault-injecting
// wrappers around the repositories, and reports the target's contents after each of two consecutive runs,
// the returned errors and the call log (one global sequence number taken under a mutex).

type syncScenario struct {
	ID      int              `json:"id"`
	Assets  []string         `json:"assets"`
	Src     map[string][]int `json:"src"`
	Tgt0    map[string][]int `json:"tgt0"`
	FailGet []string         `json:"failGet"`
	FailApp []string         `json:"failApp"`
	Start   int              `json:"start"`
	Workers int              `json:"workers"`
	Target  string           `json:"target"`     // memory | fs
	FromTgt bool             `json:"fromTarget"` // leave Sync.Assets empty: taken from target.Assets()
}

type syncCall struct {
	Seq   int    `json:"seq"`
	Op    string `json:"op"`    // last | get | append
	Phase string `json:"phase"` // call | ret
	Asset string `json:"a"`
	Arg   int    `json:"arg"` // get: the since date (day number)
	N     int    `json:"n"`   // ret of get/append: number of snapshots
	Err   bool   `json:"err"`
}

type syncLog struct {
	mu    sync.Mutex
	seq   int
	calls []syncCall
}

func (l *syncLog) add(c syncCall) {
	l.mu.Lock()
	l.seq++
	c.Seq = l.seq
	l.calls = append(l.calls, c)
	l.mu.Unlock()
}

func dayNo(t time.Time) int { return int(t.Sub(day0).Hours()/24 + 0.5) }

// barrier makes the first `need` callers wait for each other, so that as many workers as possible are
// inside the job body at the same time (no timers).
type barrier struct {
	mu      sync.Mutex
	cond    *sync.Cond
	need    int
	arrived int
	open    bool
}

func newBarrier(need int) *barrier {
	b := &barrier{need: need}
	b.cond = sync.NewCond(&b.mu)
	return b
}

func (b *barrier) wait() {
	if b == nil {
		return
	}
	b.mu.Lock()
	defer b.mu.Unlock()
	if b.open {
		return
	}
	b.arrived++
	if b.arrived >= b.need {
		b.open = true
		b.cond.Broadcast()
		return
	}
	for !b.open {
		b.cond.Wait()
	}
}

type recRepo struct {
	bar     *barrier
	inner   asset.Repository
	log     *syncLog
	failGet map[string]bool
	failApp map[string]bool
	isTgt   bool
}

func (r *recRepo) Assets() ([]string, error) { return r.inner.Assets() }
func (r *recRepo) Get(name string) (<-chan *asset.Snapshot, error) {
	return r.inner.Get(name)
}
func (r *recRepo) GetSince(name string, date time.Time) (<-chan *asset.Snapshot, error) {
	r.log.add(syncCall{Op: "get", Phase: "call", Asset: name, Arg: dayNo(date)})
	if r.failGet[name] {
		r.log.add(syncCall{Op: "get", Phase: "ret", Asset: name, Err: true})
		return nil, errors.New("injected: source read fails")
	}
	c, err := r.inner.GetSince(name, date)
	if err != nil {
		r.log.add(syncCall{Op: "get", Phase: "ret", Asset: name, Err: true})
		return nil, err
	}
	// materialise so that the count can be logged
	rows := helper.ChanToSlice(c)
	r.log.add(syncCall{Op: "get", Phase: "ret", Asset: name, N: len(rows)})
	return helper.SliceToChan(rows), nil
}
func (r *recRepo) LastDate(name string) (time.Time, error) {
	r.log.add(syncCall{Op: "last", Phase: "call", Asset: name})
	r.bar.wait()
	t, err := r.inner.LastDate(name)
	if err != nil {
		r.log.add(syncCall{Op: "last", Phase: "ret", Asset: name, Err: true})
	} else {
		r.log.add(syncCall{Op: "last", Phase: "ret", Asset: name, Arg: dayNo(t)})
	}
	return t, err
}
func (r *recRepo) Append(name string, snapshots <-chan *asset.Snapshot) error {
	r.log.add(syncCall{Op: "append", Phase: "call", Asset: name})
	if r.failApp[name] {
		go helper.Drain(snapshots)
		r.log.add(syncCall{Op: "append", Phase: "ret", Asset: name, Err: true})
		return errors.New("injected: target append fails")
	}
	rows := helper.ChanToSlice(snapshots)
	err := r.inner.Append(name, helper.SliceToChan(rows))
	r.log.add(syncCall{Op: "append", Phase: "ret", Asset: name, N: len(rows), Err: err != nil})
	return err
}

func fillRepo(r asset.Repository, content map[string][]int) error {
	names := make([]string, 0, len(content))
	for n := range content {
		names = append(names, n)
	}
	sort.Strings(names)
	for _, n := range names {
		snaps := make([]*asset.Snapshot, len(content[n]))
		for i, d := range content[n] {
			snaps[i] = &asset.Snapshot{Date: day0.AddDate(0, 0, d), Open: float64(d), High: float64(d), Low: float64(d), Close: float64(d), Volume: 1}
		}
		if err := r.Append(n, helper.SliceToChan(snaps)); err != nil {
			return err
		}
	}
	return nil
}

func dumpRepo(r asset.Repository, names []string) map[string][]int {
	out := map[string][]int{}
	for _, n := range names {
		c, err := r.Get(n)
		if err != nil {
			continue
		}
		ds := []int{}
		for s := range c {
			ds = append(ds, dayNo(s.Date))
		}
		out[n] = ds
	}
	return out
}

func toSet(xs []string) map[string]bool {
	m := map[string]bool{}
	for _, x := range xs {
		m[x] = true
	}
	return m
}

func runSyncScenario(sc *syncScenario, tmp string) map[string]any {
	res := map[string]any{"id": sc.ID}
	source := asset.NewInMemoryRepository()
	if err := fillRepo(source, sc.Src); err != nil {
		res["err"] = "fill source: " + err.Error()
		return res
	}
	var target asset.Repository
	if sc.Target == "fs" {
		dir := fmt.Sprintf("%s/s%d", tmp, sc.ID)
		os.MkdirAll(dir, 0o755)
		target = asset.NewFileSystemRepository(dir)
		defer os.RemoveAll(dir)
	} else {
		target = asset.NewInMemoryRepository()
	}
	if err := fillRepo(target, sc.Tgt0); err != nil {
		res["err"] = "fill target: " + err.Error()
		return res
	}
	log := &syncLog{}
	src := &recRepo{inner: source, log: log, failGet: toSet(sc.FailGet)}
	tgt := &recRepo{inner: target, log: log, failApp: toSet(sc.FailApp), isTgt: true}
	names := map[string]bool{}
	for n := range sc.Tgt0 {
		names[n] = true
	}
	for _, n := range sc.Assets {
		names[n] = true
	}
	var all []string
	for n := range names {
		all = append(all, n)
	}
	sort.Strings(all)
	rets := []bool{}
	var afters []map[string][]int
	marks := []int{}
	for run := 0; run < 2; run++ {
		s := asset.NewSync()
		s.Workers = sc.Workers
		s.Delay = 0
		if !sc.FromTgt {
			s.Assets = append([]string(nil), sc.Assets...)
		}
		njobs := len(sc.Assets)
		if sc.FromTgt {
			njobs = len(sc.Tgt0)
		}
		if sc.Workers > 1 && njobs > 1 {
			need := sc.Workers
			if njobs < need {
				need = njobs
			}
			tgt.bar = newBarrier(need)
		}
		err := s.Run(src, tgt, day0.AddDate(0, 0, sc.Start))
		rets = append(rets, err != nil)
		afters = append(afters, dumpRepo(target, all))
		marks = append(marks, log.seq)
	}
	res["ret"] = rets
	res["after"] = afters
	res["log"] = log.calls
	res["marks"] = marks
	return res
}

func syncChildMain(args []string) {
	data, err := os.ReadFile(args[0])
	if err != nil {
		fmt.Fprintln(os.Stderr, err)
		os.Exit(3)
	}
	start := 0
	fmt.Sscan(args[1], &start)
	var scs []syncScenario
	sc := bufio.NewScanner(bytesReader(data))
	sc.Buffer(make([]byte, 1<<20), 1<<26)
	for sc.Scan() {
		var s syncScenario
		if err := json.Unmarshal(sc.Bytes(), &s); err != nil {
			fmt.Fprintln(os.Stderr, "bad scenario:", err)
			os.Exit(3)
		}
		scs = append(scs, s)
	}
	tmp, _ := os.MkdirTemp("", "verif-sync-")
	defer os.RemoveAll(tmp)
	w := bufio.NewWriter(os.Stdout)
	for i := start; i < len(scs); i++ {
		fmt.Fprintf(w, "BEGIN %d\n", i)
		w.Flush()
		res := runSyncScenario(&scs[i], tmp)
		b, _ := json.Marshal(res)
		fmt.Fprintf(w, "RESULT %d %s\n", i, b)
		w.Flush()
	}
	fmt.Fprintln(w, "END")
	w.Flush()
}

func init() { extraCmds["sync-child"] = syncChildMain }
