//go:build verif

package main

import (
	"github.com/cinar/indicator/v2/trend"
)

// Catalogue of the trend package: one entry per type with a Compute method (28 types, plus one
// extra entry for the second constructor variant of Envelope).
//
// Types without a library default period (no New...() constructor and no Default... constant):
//   - Hma:       14 = volatility.DefaultSuperTrendPeriod, the only in-library use of NewHmaWithPeriod
//   - Wma:       10 = the period used in the library's String() unit test (NewWmaWith is otherwise only used by Hma)
//   - Mls, Mlr:  14 = the period of the doc comment example
//   - MovingMax, MovingMin: NewMovingMax()/NewMovingMin() leave Period at 0, which is not an admissible
//     period; 4 = the period of the library's unit tests
//   - MovingSum: 1 (NewMovingSum() = NewMovingSumWithPeriod(1))
const (
	noDefaultHmaPeriod    = 14
	noDefaultWmaPeriod    = 10
	noDefaultMlsPeriod    = 14
	noDefaultMinMaxPeriod = 4
)

func init() {
	register(
		// Apo: Fast = Ema(fast), Slow = Ema(slow), APO = Fast - Slow.  No IdlePeriod method.
		Pipe{Name: "trend.Apo", Class: "indicator", Inputs: in1("c"), Params: ps("fast", "slow"),
			Default: cfgOf(trend.DefaultApoFastPeriod, trend.DefaultApoSlowPeriod),
			Valid:   func(c []int) bool { return c[0] <= c[1] },
			Implied: func(c []int) int { return c[1] - 1 },
			Make: func(cfg []int) Inst {
				x := trend.NewApo[float64]()
				x.FastPeriod, x.SlowPeriod = cfg[0], cfg[1]
				return Inst{Compute: func(in []<-chan float64) []Out { return outs(x.Compute(in[0])) }}
			}},
		// Aroon: Up/Down from the periods since the last Period high/low.  No IdlePeriod method.
		Pipe{Name: "trend.Aroon", Class: "indicator", Inputs: ins("high", "low"), Params: ps("period"),
			Default: cfgOf(trend.DefaultAroonPeriod),
			Implied: func(c []int) int { return c[0] - 1 },
			Make: func(cfg []int) Inst {
				x := trend.NewAroon[float64]()
				x.Period = cfg[0]
				return Inst{Compute: func(in []<-chan float64) []Out {
					a, b := x.Compute(in[0], in[1])
					return outs(a, b)
				}}
			}},
		// Bop: (Closing - Opening) / (High - Low).  No IdlePeriod method.
		Pipe{Name: "trend.Bop", Class: "indicator", Inputs: ins("open", "high", "low", "close"), Params: ps(), Default: cfgOf(),
			Implied: func([]int) int { return 0 },
			Make: func(cfg []int) Inst {
				x := trend.NewBop[float64]()
				return Inst{Compute: func(in []<-chan float64) []Out { return outs(x.Compute(in[0], in[1], in[2], in[3])) }}
			}},
		Pipe{Name: "trend.Cci", Class: "indicator", Inputs: ins("high", "low", "close"), Params: ps("period"),
			Default: cfgOf(trend.DefaultCciPeriod),
			Make: func(cfg []int) Inst {
				x := trend.NewCciWithPeriod[float64](cfg[0])
				return Inst{Idle: x.IdlePeriod, Compute: func(in []<-chan float64) []Out { return outs(x.Compute(in[0], in[1], in[2])) }}
			}},
		Pipe{Name: "trend.Dema", Class: "indicator", Inputs: in1("c"), Params: ps("ema1", "ema2"),
			Default: cfgOf(trend.DefaultEmaPeriod, trend.DefaultEmaPeriod),
			Make: func(cfg []int) Inst {
				x := trend.NewDema[float64]()
				x.Ema1.Period, x.Ema2.Period = cfg[0], cfg[1]
				return Inst{Idle: x.IdlePeriod, Compute: func(in []<-chan float64) []Out { return outs(x.Compute(in[0])) }}
			}},
		Pipe{Name: "trend.Ema", Class: "indicator", Inputs: in1("c"), Params: ps("period"), Default: cfgOf(trend.DefaultEmaPeriod),
			Make: func(cfg []int) Inst {
				x := trend.NewEmaWithPeriod[float64](cfg[0])
				return Inst{Idle: x.IdlePeriod, Compute: func(in []<-chan float64) []Out { return outs(x.Compute(in[0])) }}
			}},
		// Envelope over SMA (NewEnvelopeWithSma); the constructor takes no period, so the period of
		// the nested moving average is assigned.  Outputs: upper, middle, lower.
		Pipe{Name: "trend.Envelope", Class: "indicator", Inputs: in1("close"), Params: ps("period"),
			Default: cfgOf(trend.DefaultEnvelopePeriod),
			Make: func(cfg []int) Inst {
				x := trend.NewEnvelopeWithSma[float64]()
				x.Ma.(*trend.Sma[float64]).Period = cfg[0]
				return Inst{Idle: x.IdlePeriod, Compute: func(in []<-chan float64) []Out {
					a, b, c := x.Compute(in[0])
					return outs(a, b, c)
				}}
			}},
		// Envelope over EMA (NewEnvelopeWithEma).
		Pipe{Name: "trend.Envelope/Ema", Class: "indicator", Inputs: in1("close"), Params: ps("period"),
			Default: cfgOf(trend.DefaultEnvelopePeriod),
			Make: func(cfg []int) Inst {
				x := trend.NewEnvelopeWithEma[float64]()
				x.Ma.(*trend.Ema[float64]).Period = cfg[0]
				return Inst{Idle: x.IdlePeriod, Compute: func(in []<-chan float64) []Out {
					a, b, c := x.Compute(in[0])
					return outs(a, b, c)
				}}
			}},
		// Hma: the three WMA periods (period/2, period, sqrt(period)) are unexported and derived from one period.
		Pipe{Name: "trend.Hma", Class: "indicator", Inputs: in1("c"), Params: ps("period"), Default: cfgOf(noDefaultHmaPeriod),
			Make: func(cfg []int) Inst {
				x := trend.NewHmaWithPeriod[float64](cfg[0])
				return Inst{Idle: x.IdlePeriod, Compute: func(in []<-chan float64) []Out { return outs(x.Compute(in[0])) }}
			}},
		Pipe{Name: "trend.Kama", Class: "indicator", Inputs: in1("close"), Params: ps("er", "fastSc", "slowSc"),
			Default: cfgOf(trend.DefaultKamaErPeriod, trend.DefaultKamaFastScPeriod, trend.DefaultKamaSlowScPeriod),
			Valid:   func(c []int) bool { return c[1] <= c[2] },
			Make: func(cfg []int) Inst {
				x := trend.NewKamaWith[float64](cfg[0], cfg[1], cfg[2])
				return Inst{Idle: x.IdlePeriod, Compute: func(in []<-chan float64) []Out { return outs(x.Compute(in[0])) }}
			}},
		// Kdj: RSV over rPeriod (MovingMax of highs / MovingMin of lows), K = Sma1(RSV), D = Sma2(K), J = 3K - 2D.
		// Outputs: K, D, J.  The documented formula has a single rPeriod; MovingMax and MovingMin are
		// separate exported knobs.
		Pipe{Name: "trend.Kdj", Class: "indicator", Inputs: ins("high", "low", "close"), Params: ps("rmax", "rmin", "sma1", "sma2"),
			Default: cfgOf(trend.DefaultKdjMinMaxPeriod, trend.DefaultKdjMinMaxPeriod, trend.DefaultKdjSma1Period, trend.DefaultKdjSma2Period),
			Valid:   func(c []int) bool { return c[0] == c[1] },
			Make: func(cfg []int) Inst {
				x := trend.NewKdj[float64]()
				x.MovingMax.Period, x.MovingMin.Period, x.Sma1.Period, x.Sma2.Period = cfg[0], cfg[1], cfg[2], cfg[3]
				return Inst{Idle: x.IdlePeriod, Compute: func(in []<-chan float64) []Out {
					a, b, c := x.Compute(in[0], in[1], in[2])
					return outs(a, b, c)
				}}
			}},
		// Macd: outputs MACD, signal.
		Pipe{Name: "trend.Macd", Class: "indicator", Inputs: in1("c"), Params: ps("period1", "period2", "period3"),
			Default: cfgOf(trend.DefaultMacdPeriod1, trend.DefaultMacdPeriod2, trend.DefaultMacdPeriod3),
			Valid:   func(c []int) bool { return c[0] <= c[1] },
			Make: func(cfg []int) Inst {
				x := trend.NewMacdWithPeriod[float64](cfg[0], cfg[1], cfg[2])
				return Inst{Idle: x.IdlePeriod, Compute: func(in []<-chan float64) []Out {
					a, b := x.Compute(in[0])
					return outs(a, b)
				}}
			}},
		Pipe{Name: "trend.MassIndex", Class: "indicator", Inputs: ins("high", "low"), Params: ps("ema1", "ema2", "sum"),
			Default: cfgOf(trend.DefaultMassIndexPeriod1, trend.DefaultMassIndexPeriod2, trend.DefaultMassIndexPeriod3),
			Make: func(cfg []int) Inst {
				x := trend.NewMassIndex[float64]()
				x.Ema1.Period, x.Ema2.Period, x.MovingSum.Period = cfg[0], cfg[1], cfg[2]
				return Inst{Idle: x.IdlePeriod, Compute: func(in []<-chan float64) []Out { return outs(x.Compute(in[0], in[1])) }}
			}},
		Pipe{Name: "trend.Mlr", Class: "indicator", Inputs: ins("x", "y"), Params: ps("period"), Default: cfgOf(noDefaultMlsPeriod),
			Make: func(cfg []int) Inst {
				x := trend.NewMlrWithPeriod[float64](cfg[0])
				return Inst{Idle: x.IdlePeriod, Compute: func(in []<-chan float64) []Out { return outs(x.Compute(in[0], in[1])) }}
			}},
		// Mls: outputs m, b.
		Pipe{Name: "trend.Mls", Class: "indicator", Inputs: ins("x", "y"), Params: ps("period"), Default: cfgOf(noDefaultMlsPeriod),
			Make: func(cfg []int) Inst {
				x := trend.NewMlsWithPeriod[float64](cfg[0])
				return Inst{Idle: x.IdlePeriod, Compute: func(in []<-chan float64) []Out {
					a, b := x.Compute(in[0], in[1])
					return outs(a, b)
				}}
			}},
		Pipe{Name: "trend.MovingMax", Class: "indicator", Inputs: in1("c"), Params: ps("period"), Default: cfgOf(noDefaultMinMaxPeriod),
			Make: func(cfg []int) Inst {
				x := trend.NewMovingMaxWithPeriod[float64](cfg[0])
				return Inst{Idle: x.IdlePeriod, Compute: func(in []<-chan float64) []Out { return outs(x.Compute(in[0])) }}
			}},
		Pipe{Name: "trend.MovingMin", Class: "indicator", Inputs: in1("c"), Params: ps("period"), Default: cfgOf(noDefaultMinMaxPeriod),
			Make: func(cfg []int) Inst {
				x := trend.NewMovingMinWithPeriod[float64](cfg[0])
				return Inst{Idle: x.IdlePeriod, Compute: func(in []<-chan float64) []Out { return outs(x.Compute(in[0])) }}
			}},
		Pipe{Name: "trend.MovingSum", Class: "indicator", Inputs: in1("c"), Params: ps("period"), Default: cfgOf(1),
			Make: func(cfg []int) Inst {
				x := trend.NewMovingSumWithPeriod[float64](cfg[0])
				return Inst{Idle: x.IdlePeriod, Compute: func(in []<-chan float64) []Out { return outs(x.Compute(in[0])) }}
			}},
		Pipe{Name: "trend.Rma", Class: "indicator", Inputs: in1("c"), Params: ps("period"), Default: cfgOf(trend.DefaultRmaPeriod),
			Make: func(cfg []int) Inst {
				x := trend.NewRmaWithPeriod[float64](cfg[0])
				return Inst{Idle: x.IdlePeriod, Compute: func(in []<-chan float64) []Out { return outs(x.Compute(in[0])) }}
			}},
		Pipe{Name: "trend.Sma", Class: "indicator", Inputs: in1("c"), Params: ps("period"), Default: cfgOf(trend.DefaultSmaPeriod),
			Make: func(cfg []int) Inst {
				x := trend.NewSmaWithPeriod[float64](cfg[0])
				return Inst{Idle: x.IdlePeriod, Compute: func(in []<-chan float64) []Out { return outs(x.Compute(in[0])) }}
			}},
		Pipe{Name: "trend.Smma", Class: "indicator", Inputs: in1("c"), Params: ps("period"), Default: cfgOf(trend.DefaultSmmaPeriod),
			Make: func(cfg []int) Inst {
				x := trend.NewSmmaWithPeriod[float64](cfg[0])
				return Inst{Idle: x.IdlePeriod, Compute: func(in []<-chan float64) []Out { return outs(x.Compute(in[0])) }}
			}},
		Pipe{Name: "trend.Tema", Class: "indicator", Inputs: in1("c"), Params: ps("ema1", "ema2", "ema3"),
			Default: cfgOf(trend.DefaultEmaPeriod, trend.DefaultEmaPeriod, trend.DefaultEmaPeriod),
			Make: func(cfg []int) Inst {
				x := trend.NewTema[float64]()
				x.Ema1.Period, x.Ema2.Period, x.Ema3.Period = cfg[0], cfg[1], cfg[2]
				return Inst{Idle: x.IdlePeriod, Compute: func(in []<-chan float64) []Out { return outs(x.Compute(in[0])) }}
			}},
		Pipe{Name: "trend.Trima", Class: "indicator", Inputs: in1("c"), Params: ps("period"), Default: cfgOf(trend.DefaultTrimaPeriod),
			Make: func(cfg []int) Inst {
				x := trend.NewTrima[float64]()
				x.Period = cfg[0]
				return Inst{Idle: x.IdlePeriod, Compute: func(in []<-chan float64) []Out { return outs(x.Compute(in[0])) }}
			}},
		Pipe{Name: "trend.Trix", Class: "indicator", Inputs: in1("c"), Params: ps("period"), Default: cfgOf(trend.DefaultTrixPeriod),
			Make: func(cfg []int) Inst {
				x := trend.NewTrix[float64]()
				x.Period = cfg[0]
				return Inst{Idle: x.IdlePeriod, Compute: func(in []<-chan float64) []Out { return outs(x.Compute(in[0])) }}
			}},
		// Tsi: FirstSmoothing / SecondSmoothing are trend.Ma interfaces; NewTsiWith makes both EMAs.
		Pipe{Name: "trend.Tsi", Class: "indicator", Inputs: in1("close"), Params: ps("first", "second"),
			Default: cfgOf(trend.DefaultTsiFirstSmoothingPeriod, trend.DefaultTsiSecondSmoothingPeriod),
			Make: func(cfg []int) Inst {
				x := trend.NewTsiWith[float64](cfg[0], cfg[1])
				return Inst{Idle: x.IdlePeriod, Compute: func(in []<-chan float64) []Out { return outs(x.Compute(in[0])) }}
			}},
		// TypicalPrice: (High + Low + Closing) / 3.  No IdlePeriod method.
		Pipe{Name: "trend.TypicalPrice", Class: "indicator", Inputs: ins("high", "low", "close"), Params: ps(), Default: cfgOf(),
			Implied: func([]int) int { return 0 },
			Make: func(cfg []int) Inst {
				x := trend.NewTypicalPrice[float64]()
				return Inst{Compute: func(in []<-chan float64) []Out { return outs(x.Compute(in[0], in[1], in[2])) }}
			}},
		Pipe{Name: "trend.Vwma", Class: "indicator", Inputs: ins("close", "volume"), Params: ps("period"), Default: cfgOf(trend.DefaultVwmaPeriod),
			Make: func(cfg []int) Inst {
				x := trend.NewVwma[float64]()
				x.Period = cfg[0]
				return Inst{Idle: x.IdlePeriod, Compute: func(in []<-chan float64) []Out { return outs(x.Compute(in[0], in[1])) }}
			}},
		// WeightedClose has an IdlePeriod method (returns 0).
		Pipe{Name: "trend.WeightedClose", Class: "indicator", Inputs: ins("high", "low", "close"), Params: ps(), Default: cfgOf(),
			Make: func(cfg []int) Inst {
				x := trend.NewWeightedClose[float64]()
				return Inst{Idle: x.IdlePeriod, Compute: func(in []<-chan float64) []Out { return outs(x.Compute(in[0], in[1], in[2])) }}
			}},
		Pipe{Name: "trend.Wma", Class: "indicator", Inputs: in1("c"), Params: ps("period"), Default: cfgOf(noDefaultWmaPeriod),
			Make: func(cfg []int) Inst {
				x := trend.NewWmaWith[float64](cfg[0])
				return Inst{Idle: x.IdlePeriod, Compute: func(in []<-chan float64) []Out { return outs(x.Compute(in[0])) }}
			}},
	)
}
