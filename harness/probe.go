//go:build verif

package main

import (
	"bufio"
	"bytes"
	"encoding/json"
	"fmt"
	"os"
	"reflect"
	"strconv"

	"github.com/cinar/indicator/v2/helper"
	"github.com/cinar/indicator/v2/trend"
	"github.com/cinar/indicator/v2/volatility"
)

// Protocol probe: the harness owns every input and output channel of one stage (or small composite),
// waits until every other goroutine is parked, then offers ALL operations it could perform at once
// (send the next value on each input, receive on each output) with reflect.Select and logs which one
// the stage takes.  Because a stage is sequential, exactly the operation it is blocked on fires.  The
// logged trace is validated by TLC against the stage programs of spec/Pipeline.tla (PipelineTrace.tla).
//
// Inputs carry their position (0, 1, 2, ...) as value and the stage functions are chosen so that the
// real result equals the model's provenance token (Operate: max, Map: identity, Shift fill: -1, ...).

type ProbeReq struct {
	ID   string `json:"id"`
	Kind string `json:"kind"`
	Par  []int  `json:"par"`
	Lens []int  `json:"lens"`
	// Policy: "out" = offer input sends only when no output operation is ready; "in" = the other way round
	Policy string `json:"policy"`
}

type ProbeEvent struct {
	E string `json:"e"` // in | inclose | out | outclose | end
	K int    `json:"k"` // 1-based input / output number
	V int    `json:"v"`
	// end: inputs that still hold unsent values
	Stuck []int `json:"stuck,omitempty"`
}

type ProbeRes struct {
	ID     string       `json:"id"`
	Events []ProbeEvent `json:"events"`
	Wiring *Wiring      `json:"wiring"`
	Leaks  []Leak       `json:"leaks"`
	Err    string       `json:"err,omitempty"`
}

func maxf(a, b float64) float64 {
	if a > b {
		return a
	}
	return b
}

func probeBuild(kind string, par []int, in []<-chan float64) []<-chan float64 {
	p := func(i int) int {
		if i < len(par) {
			return par[i]
		}
		return 0
	}
	one := func(c <-chan float64) []<-chan float64 { return []<-chan float64{c} }
	id := func(v float64) float64 { return v }
	switch kind {
	case "Map":
		return one(helper.Map(in[0], id))
	case "Apply":
		return one(helper.Apply(in[0], id))
	case "MapWithPrevious":
		return one(helper.MapWithPrevious(in[0], func(prev, n float64) float64 { return n }, 0))
	case "Filter":
		return one(helper.Filter(in[0], func(v float64) bool { return int(v)%2 == 0 }))
	case "Skip":
		return one(helper.Skip(in[0], p(0)))
	case "Shift":
		return one(helper.Shift(in[0], p(0), float64(-1)))
	case "Head":
		return one(helper.Head(in[0], p(0)))
	case "First":
		return one(helper.First(in[0], p(0)))
	case "Last":
		return one(helper.Last(in[0], p(0)))
	case "Dup":
		return helper.Duplicate(in[0], p(0))
	case "Buffered":
		return one(helper.Buffered(in[0], p(0)))
	case "Operate":
		return one(helper.Operate(in[0], in[1], maxf))
	case "Operate3":
		return one(helper.Operate3(in[0], in[1], in[2], func(a, b, c float64) float64 { return maxf(a, maxf(b, c)) }))
	case "Count":
		return one(helper.Count(float64(0), in[0]))
	case "Echo":
		return one(helper.Echo(in[0], p(0), p(1)))
	case "Change":
		return one(helper.Change(in[0], p(0)))
	case "ChangeRatio":
		return one(helper.ChangeRatio(in[0], p(0)))
	case "Sma":
		return one(trend.NewSmaWithPeriod[float64](p(0)).Compute(in[0]))
	case "Ema":
		return one(trend.NewEmaWithPeriod[float64](p(0)).Compute(in[0]))
	case "MovingStd":
		return one(volatility.NewMovingStdWithPeriod[float64](p(0)).Compute(in[0]))
	case "Kama":
		return one(trend.NewKamaWith[float64](p(0), 2, 3).Compute(in[0]))
	case "Drain":
		go helper.Drain(in[0])
		return nil
	}
	return nil
}

func probeNIn(kind string) int {
	switch kind {
	case "Operate":
		return 2
	case "Operate3":
		return 3
	}
	return 1
}

func runProbe(req *ProbeReq) *ProbeRes {
	res := &ProbeRes{ID: req.ID}
	rec := NewRecorder()
	rec.Install()
	nin := probeNIn(req.Kind)
	ins := make([]chan float64, nin)
	rins := make([]<-chan float64, nin)
	for i := range ins {
		ins[i] = make(chan float64)
		rins[i] = ins[i]
		rec.Add("Source", i+1, "s"+itoa(i+1), nil, []any{ins[i]})
	}
	outs := probeBuild(req.Kind, req.Par, rins)
	for k := range outs {
		rec.Add("Sink", k+1, "", []any{outs[k]}, nil)
	}
	next := make([]int, nin) // next value to send per input
	inClosed := make([]bool, nin)
	outClosed := make([]bool, len(outs))
	emit := func(e ProbeEvent) { res.Events = append(res.Events, e) }
	for i := range ins {
		if req.Lens[i] == 0 {
			close(ins[i])
			inClosed[i] = true
			emit(ProbeEvent{E: "inclose", K: i + 1})
		}
	}
	for step := 0; step < 10000; step++ {
		census() // every other goroutine is parked now: only the stage's pending operation can fire
		var cases []reflect.SelectCase
		var what []ProbeEvent
		build := func(withIn, withOut bool) {
			cases, what = nil, nil
			if withIn {
				for i := range ins {
					if !inClosed[i] {
						cases = append(cases, reflect.SelectCase{Dir: reflect.SelectSend, Chan: reflect.ValueOf(ins[i]), Send: reflect.ValueOf(float64(next[i]))})
						what = append(what, ProbeEvent{E: "in", K: i + 1, V: next[i]})
					}
				}
			}
			if withOut {
				for k := range outs {
					if !outClosed[k] {
						cases = append(cases, reflect.SelectCase{Dir: reflect.SelectRecv, Chan: reflect.ValueOf(outs[k])})
						what = append(what, ProbeEvent{E: "out", K: k + 1})
					}
				}
			}
			cases = append(cases, reflect.SelectCase{Dir: reflect.SelectDefault})
		}
		// first the preferred class only, then everything
		build(req.Policy == "in", req.Policy != "in")
		chosen, val, ok := reflect.Select(cases)
		if chosen == len(cases)-1 {
			build(true, true)
			chosen, val, ok = reflect.Select(cases)
			if chosen == len(cases)-1 {
				break // nothing can fire: the stage is finished or stuck
			}
		}
		ev := what[chosen]
		if ev.E == "in" {
			i := ev.K - 1
			emit(ev)
			next[i]++
			if next[i] == req.Lens[i] {
				close(ins[i])
				inClosed[i] = true
				emit(ProbeEvent{E: "inclose", K: ev.K})
			}
		} else {
			if ok {
				ev.V = int(val.Float())
				emit(ev)
			} else {
				outClosed[ev.K-1] = true
				emit(ProbeEvent{E: "outclose", K: ev.K})
			}
		}
	}
	var stuck []int
	for i := range ins {
		if !inClosed[i] {
			stuck = append(stuck, i+1)
		}
	}
	emit(ProbeEvent{E: "end", Stuck: stuck})
	lk, _ := census()
	res.Leaks = lk
	Uninstall()
	w := rec.Snapshot()
	res.Wiring = &w
	// release whatever is still parked on our channels so that the next probe starts clean
	return res
}

func probeChildMain(args []string) {
	data, err := os.ReadFile(args[0])
	if err != nil {
		fmt.Fprintln(os.Stderr, err)
		os.Exit(3)
	}
	start, _ := strconv.Atoi(args[1])
	var reqs []ProbeReq
	dec := json.NewDecoder(bytes.NewReader(data))
	for dec.More() {
		var r ProbeReq
		if err := dec.Decode(&r); err != nil {
			fmt.Fprintln(os.Stderr, "bad probe request:", err)
			os.Exit(3)
		}
		reqs = append(reqs, r)
	}
	w := bufio.NewWriter(os.Stdout)
	for i := start; i < len(reqs); i++ {
		fmt.Fprintf(w, "BEGIN %d\n", i)
		w.Flush()
		res := runProbe(&reqs[i])
		b, _ := json.Marshal(res)
		fmt.Fprintf(w, "RESULT %d %s\n", i, b)
		w.Flush()
		if len(res.Leaks) > 0 {
			fmt.Fprintf(w, "RESTART %d\n", i+1)
			w.Flush()
			os.Exit(0)
		}
	}
	fmt.Fprintln(w, "END")
	w.Flush()
}

func init() { extraCmds["probe-child"] = probeChildMain }
