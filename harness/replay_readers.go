//go:build verif

package main

import (
	"bufio"
	"encoding/json"
	"fmt"
	"io"
	"log/slog"
	"os"
	"strings"
	"time"

	"github.com/cinar/indicator/v2/helper"
)

// Feeds the record-shape / token-level cases TLC enumerates from spec/Readers.tla, rendered to bytes in
// several ways, to the real CSV and JSON stream readers in a timer-free child process: a panic kills the
// child (reported with the case), a hang is reported by the Go runtime's deadlock detector, goroutines
// left behind by a census.

type readerCase struct {
	Kind   string     `json:"kind"` // csv | json
	Hdr    bool       `json:"hdr"`
	N      int        `json:"n"`
	Header []string   `json:"header"`
	Recs   [][]string `json:"recs"`
	Out    struct {
		Rows  int  `json:"rows"`
		Panic bool `json:"panic"`
	} `json:"out"`
	Toks []string `json:"toks"`
	Rows int      `json:"rows"`
	Wf   bool     `json:"wf"`
}

type r2 struct {
	F1 int32   `header:"f1"`
	F2 float64 `header:"f2"`
}
type r3 struct {
	F1 int32   `header:"f1"`
	F2 float64 `header:"f2"`
	F3 bool    `header:"f3"`
}
type r4 struct {
	F1 int32     `header:"f1"`
	F2 float64   `header:"f2"`
	F3 bool      `header:"f3"`
	F4 time.Time `header:"f4" format:"2006-01-02"`
}

var okCell = map[string]string{"f1": "42", "f2": "3.5", "f3": "true", "f4": "2024-02-29", "x": "whatever"}

func cellText(colName string, pos int, n int, hdr bool, kind string, row int) string {
	if kind == "bad" {
		// a cell that does not parse as the type of its field: not a number / date / boolean at all, or - every other row -
		// a well-formed number outside the range of the 32-bit field
		name := colName
		if !hdr {
			names := []string{"f1", "f2", "f3", "f4"}
			if pos < n {
				name = names[pos]
			}
		}
		if name == "f1" && row%2 == 1 {
			return "3000000000"
		}
		return "zz"
	}
	if hdr {
		return okCell[colName]
	}
	// positional: column pos (0-based) feeds field pos+1 when pos < n
	names := []string{"f1", "f2", "f3", "f4"}
	if pos < n {
		return okCell[names[pos]]
	}
	return "extra"
}

func renderCsv(c *readerCase, style int) string {
	var lines []string
	q := func(s string) string {
		if style == 2 {
			return `"` + s + `"`
		}
		return s
	}
	if c.Hdr && len(c.Header) > 0 {
		cells := make([]string, len(c.Header))
		for i, h := range c.Header {
			cells[i] = q(h)
		}
		lines = append(lines, strings.Join(cells, ","))
	}
	for ri, rec := range c.Recs {
		cells := make([]string, len(rec))
		for i, k := range rec {
			name := ""
			if c.Hdr && i < len(c.Header) {
				name = c.Header[i]
			}
			cells[i] = q(cellText(name, i, c.N, c.Hdr, k, ri))
		}
		lines = append(lines, strings.Join(cells, ","))
	}
	sep := "\n"
	if style == 1 {
		sep = "\r\n"
	}
	s := strings.Join(lines, sep)
	if style != 3 && len(lines) > 0 {
		s += sep // style 3: no trailing newline
	}
	return s
}

var quiet = slog.New(slog.NewTextHandler(io.Discard, nil))

func countCsv[T any](hdr bool, text string) int {
	c, err := helper.NewCsv[T](hdr)
	if err != nil {
		return -1
	}
	c.Logger = quiet
	n := 0
	for range c.ReadFromReader(strings.NewReader(text)) {
		n++
	}
	return n
}

func runReaderCase(c *readerCase) string {
	switch c.Kind {
	case "csv":
		for style := 0; style < 4; style++ {
			text := renderCsv(c, style)
			var got int
			switch c.N {
			case 2:
				got = countCsv[r2](c.Hdr, text)
			case 3:
				got = countCsv[r3](c.Hdr, text)
			default:
				got = countCsv[r4](c.Hdr, text)
			}
			if got != c.Out.Rows {
				return fmt.Sprintf("rendering %d of %q: %d rows delivered, the well-formed prefix has %d", style, text, got, c.Out.Rows)
			}
		}
	case "json":
		for style := 0; style < 2; style++ {
			var sb strings.Builder
			prevVal := false
			for _, t := range c.Toks {
				piece := ""
				isVal := false
				switch t {
				case "[":
					piece = "["
				case "]":
					piece = "]"
				case "v":
					piece, isVal = `{"F1":7,"F2":1.5}`, true
				case "w":
					piece, isVal = `"text"`, true
				case "g":
					piece = "@@"
				case "o":
					piece = "{"
				}
				if isVal && prevVal {
					sb.WriteString(",")
				}
				if style == 1 {
					sb.WriteString(" \n")
				}
				sb.WriteString(piece)
				prevVal = isVal
			}
			n := 0
			for range helper.JSONToChanWithLogger[r2](strings.NewReader(sb.String()), quiet) {
				n++
			}
			if n != c.Rows {
				return fmt.Sprintf("JSON input %q: %d values delivered, the well-formed prefix has %d", sb.String(), n, c.Rows)
			}
		}
	}
	return ""
}

func readersChildMain(args []string) {
	data, err := os.ReadFile(args[0])
	if err != nil {
		fmt.Fprintln(os.Stderr, err)
		os.Exit(3)
	}
	start := 0
	fmt.Sscan(args[1], &start)
	var cases []readerCase
	sc := bufio.NewScanner(bytesReader(data))
	sc.Buffer(make([]byte, 1<<20), 1<<26)
	for sc.Scan() {
		var c readerCase
		if err := json.Unmarshal(sc.Bytes(), &c); err != nil {
			fmt.Fprintln(os.Stderr, "bad case:", err)
			os.Exit(3)
		}
		cases = append(cases, c)
	}
	w := bufio.NewWriter(os.Stdout)
	for i := start; i < len(cases); i++ {
		fmt.Fprintf(w, "BEGIN %d\n", i)
		w.Flush()
		msg := runReaderCase(&cases[i])
		if msg != "" {
			b, _ := json.Marshal(map[string]any{"id": i, "mismatch": msg})
			fmt.Fprintf(w, "RESULT %d %s\n", i, b)
			w.Flush()
		}
		if i%400 == 399 || i == len(cases)-1 {
			if lk, _ := census(); len(lk) > 0 {
				b, _ := json.Marshal(map[string]any{"id": i, "leaks": lk})
				fmt.Fprintf(w, "RESULT %d %s\n", i, b)
				fmt.Fprintf(w, "RESTART %d\n", i+1)
				w.Flush()
				os.Exit(0)
			}
		}
	}
	fmt.Fprintln(w, "END")
	w.Flush()
}

func init() { extraCmds["readers-child"] = readersChildMain }
