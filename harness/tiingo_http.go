//go:build verif

package main

import (
	"encoding/json"
	"fmt"
	"io"
	"log/slog"
	"net/http"
	"net/http/httptest"
	"os"
	"runtime"
	"strings"
	"time"

	"github.com/cinar/indicator/v2/asset"
	"github.com/cinar/indicator/v2/helper"
)

// HTTP statuses x response bodies against asset.TiingoRepository through an in-process httptest server.
// (net/http needs timers and the network poller, so this part runs with a watchdog instead of the runtime's
// deadlock detector.)

const tiingoRow = `{"date":"2024-01-0%dT00:00:00.000Z","close":1,"high":2,"low":0.5,"open":1,"volume":10,"adjClose":1,"adjHigh":2,"adjLow":0.5,"adjOpen":1,"adjVolume":10,"divCash":0,"splitFactor":1}`

func tiingoHTTPMain(args []string) {
	type tcase struct {
		Status int    `json:"status"`
		Body   string `json:"body"`
		Rows   int    `json:"rows"` // complete rows in the body
		Wf     bool   `json:"wf"`   // the body is a complete JSON array of rows
		Loose  bool   `json:"loose"` // an array with elements that are no rows: only "no panic, no hang, no more than the array holds"
	}
	var cases []tcase
	row := func(i int) string { return fmt.Sprintf(tiingoRow, i) }
	bodies := []tcase{
		{Body: "[" + row(1) + "," + row(2) + "," + row(3) + "]", Rows: 3, Wf: true},
		{Body: "[]", Rows: 0, Wf: true},
		{Body: "[" + row(1) + "," + row(2), Rows: 2},
		{Body: "[" + row(1) + "," + row(2)[:40], Rows: 1},
		{Body: "[" + row(1) + ",", Rows: 1},
		{Body: "[", Rows: 0},
		{Body: "", Rows: 0},
		{Body: `{"detail":"Not found."}`, Rows: 0},
		{Body: "null", Rows: 0},
		{Body: "<html>oops</html>", Rows: 0},
		{Body: "[" + row(1) + `,"text",` + row(2) + "]", Rows: 1},
		{Body: "[" + row(1) + "]]]garbage", Rows: 1},
		{Body: "\xff\xfe\x00", Rows: 0},
		// elements that are JSON values but no rows (a null decodes without error into whatever the reader decodes into)
		{Body: "[" + row(1) + ",null," + row(2) + "]", Rows: 3, Loose: true},
		{Body: "[null]", Rows: 1, Loose: true},
		{Body: "[" + row(1) + ",42," + row(2) + "]", Rows: 3, Loose: true},
		{Body: "[[]," + row(1) + "]", Rows: 2, Loose: true},
		{Body: "[" + row(1) + `,{"date":null},` + row(2) + "]", Rows: 3, Loose: true},
		{Body: `[{"date":"garbage"},` + row(1) + "]", Rows: 2, Loose: true},
	}
	for _, st := range []int{200, 201, 204, 400, 401, 404, 429, 500, 503} {
		for _, b := range bodies {
			c := b
			c.Status = st
			cases = append(cases, c)
		}
	}
	var cur tcase
	srv := httptest.NewServer(http.HandlerFunc(func(w http.ResponseWriter, r *http.Request) {
		w.WriteHeader(cur.Status)
		if cur.Status != 204 {
			io.WriteString(w, cur.Body)
		}
	}))
	defer srv.Close()
	quietLog := slog.New(slog.NewTextHandler(io.Discard, nil))
	type mm struct {
		Case int    `json:"case"`
		What string `json:"what"`
	}
	var out []mm
	checks := 0
	for i, c := range cases {
		cur = c
		fmt.Fprintf(os.Stderr, "CASE %d status %d body %q\n", i, c.Status, c.Body[:min(len(c.Body), 60)]) // attributes a death of the process
		repo := asset.NewTiingoRepository("key")
		repo.BaseURL = srv.URL
		repo.Logger = quietLog
		type result struct {
			n   int
			err error
			pan any
		}
		done := make(chan result, 1)
		go func() {
			defer func() {
				if p := recover(); p != nil {
					done <- result{pan: p}
				}
			}()
			ch, err := repo.GetSince("aapl", day0)
			if err != nil {
				done <- result{err: err}
				return
			}
			done <- result{n: len(helper.ChanToSlice(ch))}
		}()
		select {
		case r := <-done:
			checks++
			desc := fmt.Sprintf("status %d body %q", c.Status, c.Body[:min(len(c.Body), 50)])
			if r.pan != nil {
				out = append(out, mm{i, fmt.Sprintf("GetSince panics on %s: %v", desc, r.pan)})
			} else if c.Status != 200 {
				if r.err == nil {
					out = append(out, mm{i, fmt.Sprintf("GetSince on %s returns no error (%d rows): a non-success status must surface as an error", desc, r.n)})
				}
			} else if r.err != nil {
				out = append(out, mm{i, fmt.Sprintf("GetSince on %s fails: %v", desc, r.err)})
			} else if c.Loose {
				if r.n > c.Rows {
					out = append(out, mm{i, fmt.Sprintf("GetSince on %s delivers %d rows, the array has %d elements", desc, r.n, c.Rows)})
				}
			} else if c.Wf && r.n != c.Rows {
				out = append(out, mm{i, fmt.Sprintf("GetSince on %s delivers %d rows, the body holds %d", desc, r.n, c.Rows)})
			} else if r.n > c.Rows && !strings.Contains(c.Body, `"text"`) {
				out = append(out, mm{i, fmt.Sprintf("GetSince on %s delivers %d rows, only %d are complete", desc, r.n, c.Rows)})
			} else if !c.Wf && r.n != c.Rows && strings.HasPrefix(c.Body, "[") && !strings.Contains(c.Body, `"text"`) {
				out = append(out, mm{i, fmt.Sprintf("GetSince on %s delivers %d rows, the well-formed prefix has %d", desc, r.n, c.Rows)})
			}
		case <-time.After(15 * time.Second):
			out = append(out, mm{i, fmt.Sprintf("GetSince blocks for more than 15 s on status %d body %q", c.Status, c.Body[:min(len(c.Body), 50)])})
		}
		// LastDate: a non-success status is an error; garbage is an error; never a panic
		func() {
			defer func() {
				if p := recover(); p != nil {
					out = append(out, mm{i, fmt.Sprintf("LastDate panics on status %d: %v", c.Status, p)})
				}
			}()
			_, err := repo.LastDate("aapl")
			checks++
			if c.Status != 200 && err == nil {
				out = append(out, mm{i, fmt.Sprintf("LastDate on status %d returns no error", c.Status)})
			}
		}()
	}
	// goroutines of the repository left behind
	time.Sleep(300 * time.Millisecond)
	buf := make([]byte, 1<<20)
	n := runtime.Stack(buf, true)
	left := 0
	for _, blk := range strings.Split(string(buf[:n]), "\n\n") {
		if strings.Contains(blk, "asset.(*TiingoRepository)") {
			left++
		}
	}
	if left > 0 {
		out = append(out, mm{-1, fmt.Sprintf("%d goroutine(s) of TiingoRepository.GetSince remain after their streams were read to the end", left)})
	}
	// unreadable file
	_, err := helper.ReadFromCsvFile[r2](os.TempDir()+"/verif-does-not-exist.csv", true)
	checks++
	if err == nil {
		out = append(out, mm{-2, "ReadFromCsvFile on a missing file returns no error"})
	}
	b, _ := json.Marshal(map[string]any{"cases": len(cases), "checks": checks, "mismatches": out})
	fmt.Println(string(b))
}

func init() { extraCmds["tiingo-http"] = tiingoHTTPMain }
