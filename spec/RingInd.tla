------------------------------ MODULE RingInd -------------------------------
(* Apalache: inductive invariant of helper.Ring for a fixed capacity and UNBOUNDED values / histories:    *)
(*   IndInit => IndInv   and   IndInv /\ Next => IndInv'                                                  *)
(* so the refinement (Abs = q) and the observers hold after any number of operations on any integers.     *)
EXTENDS Integers, Sequences, Apalache

CONSTANT
  \* @type: Int;
  Size

VARIABLES
  \* @type: Int -> Int;
  buffer,
  \* @type: Int;
  begin,
  \* @type: Int;
  end,
  \* @type: Bool;
  empty,
  \* @type: Seq(Int);
  q

CInit == Size = 3     \* the check substitutes the size under test

NextIndex(i) == (i + 1) % Size
IsFull  == ~empty /\ end = begin
Count == IF empty THEN 0 ELSE IF end > begin THEN end - begin ELSE end - begin + Size
At(i)   == buffer[(begin + i) % Size]

Init == /\ buffer = [i \in 0..(Size - 1) |-> 0]
        /\ begin = 0 /\ end = 0 /\ empty = TRUE /\ q = <<>>

Put(v) ==
  /\ begin' = IF IsFull THEN NextIndex(begin) ELSE begin
  /\ buffer' = [buffer EXCEPT ![end] = v]
  /\ end' = NextIndex(end)
  /\ empty' = FALSE
  /\ q' = IF Len(q) = Size THEN Append(Tail(q), v) ELSE Append(q, v)

Get ==
  /\ ~empty
  /\ begin' = NextIndex(begin)
  /\ empty' = (NextIndex(begin) = end)
  /\ q' = Tail(q)
  /\ UNCHANGED <<buffer, end>>

Next == (\E v \in Int : Put(v)) \/ Get

TypeOK == /\ begin \in 0..(Size - 1) /\ end \in 0..(Size - 1)
          /\ DOMAIN buffer = 0..(Size - 1)
          /\ Len(q) <= Size
IndInv == /\ TypeOK
          /\ Len(q) = Count
          /\ (empty => begin = end)
          /\ \A i \in 0..(Size - 1) : i < Len(q) => q[i + 1] = At(i)
          /\ (empty <=> q = <<>>)
          /\ (IsFull <=> Len(q) = Size)
IndInit == /\ buffer \in [0..(Size - 1) -> Int]
           /\ begin \in 0..(Size - 1) /\ end \in 0..(Size - 1) /\ empty \in BOOLEAN
           /\ q = Gen(3)
           /\ IndInv
=============================================================================
