-------------------------- MODULE RepositoryOverlap --------------------------
(***************************************************************************)
(* Overlapping Appends to one asset of a repository that is meant to be    *)
(* safe for concurrent use (the in-memory repository, which guards its map *)
(* with a mutex since fix e35f2ee) - the last sentence of property C10:    *)
(* "An Append that has returned is visible to every later read".           *)
(*                                                                         *)
(* An Append call consumes its snapshot stream while it runs and commits   *)
(* when it returns; calls overlap freely.  Steps: Begin(a) - the call      *)
(* starts; Feed(a) - its source hands it one more snapshot; Return(a) -    *)
(* the source is closed and the call returns: from then on its rows are    *)
(* part of the asset, after everything committed before; Read - a Get,     *)
(* whose prescribed result is the rows of all calls that have returned, in *)
(* commit order.  TLC explores every interleaving of A appenders with up   *)
(* to K rows each and prints each complete schedule with the prescribed    *)
(* reads; the harness replays the schedule on the real repository with     *)
(* unbuffered source channels it controls (no timing involved).            *)
(***************************************************************************)
EXTENDS Integers, Sequences, FiniteSets, TLC, Json

CONSTANTS A, K, MaxReads

VARIABLES st, ap, nid, h, reads
vars == <<st, ap, nid, h, reads>>
Appenders == 1..A

Init == /\ st = <<>> /\ ap = [a \in Appenders |-> [pc |-> "idle", fed |-> <<>>]]
        /\ nid = 1 /\ h = <<>> /\ reads = 0

Begin(a) == /\ ap[a].pc = "idle" /\ ap' = [ap EXCEPT ![a].pc = "open"]
            /\ h' = Append(h, [op |-> "begin", a |-> a, id |-> 0, expect |-> <<>>])
            /\ UNCHANGED <<st, nid, reads>>
Feed(a) == /\ ap[a].pc = "open" /\ Len(ap[a].fed) < K
           /\ ap' = [ap EXCEPT ![a].fed = Append(@, nid)]
           /\ nid' = nid + 1
           /\ h' = Append(h, [op |-> "feed", a |-> a, id |-> nid, expect |-> <<>>])
           /\ UNCHANGED <<st, reads>>
Return(a) == /\ ap[a].pc = "open"
             /\ ap' = [ap EXCEPT ![a].pc = "done"]
             /\ st' = st \o ap[a].fed
             /\ h' = Append(h, [op |-> "return", a |-> a, id |-> 0, expect |-> <<>>])
             /\ UNCHANGED <<nid, reads>>
Read == /\ reads < MaxReads /\ \E a \in Appenders : ap[a].pc # "idle"
        /\ reads' = reads + 1
        /\ h' = Append(h, [op |-> "read", a |-> 0, id |-> 0, expect |-> st])
        /\ UNCHANGED <<st, ap, nid>>
Next == Read \/ \E a \in Appenders : Begin(a) \/ Feed(a) \/ Return(a)
Spec == Init /\ [][Next]_vars

AllDone == \A a \in Appenders : ap[a].pc = "done"
\* what has returned stays visible, in commit order, nothing is lost or duplicated
Visible == \A a \in Appenders : ap[a].pc = "done" =>
             \A i \in 1..Len(ap[a].fed) : \E j \in 1..Len(st) : st[j] = ap[a].fed[i]
NoLossNoDup == AllDone => (Len(st) = nid - 1 /\ \A i, j \in 1..Len(st) : i # j => st[i] # st[j])
\* a final read closes every schedule
Emit == AllDone => PrintT("SCHED " \o ToJson(Append(h, [op |-> "read", a |-> 0, id |-> 0, expect |-> st])))
=============================================================================
