-------------------------------- MODULE Bst ---------------------------------
(***************************************************************************)
(* helper.Bst[T]: the implementation-shaped tree (nodes with value, left,  *)
(* right; Insert with equal keys going left; searchNode; removeNode with   *)
(* in-order-successor replacement; Min/Max returning 0 on the empty tree)  *)
(* next to the abstract model property C17 states: a multiset.             *)
(*                                                                         *)
(* SearchMode selects how searchNode decides the direction:                *)
(*   "compare"  - by comparing the values (value < node.value), or         *)
(*   "subtract" - by the sign of Wrap(value - node.value), Wrap being the  *)
(*                two's-complement wrap of a Bits-wide integer type        *)
(*                (Bits = 0: no wrap, i.e. floats / wide types).           *)
(* The code at the pinned commit used "subtract"; TLC with Bits = 3 finds  *)
(* the overflow defect (Contains(3) = FALSE in a tree holding -3 and 3).   *)
(***************************************************************************)
EXTENDS Integers, Sequences, FiniteSets, TLC, Json

CONSTANTS Vals,        \* values inserted / removed / searched
          MaxNodes,    \* bound on the number of Insert operations (node ids)
          SearchMode,  \* "compare" | "subtract"
          Bits,        \* width of the element type for "subtract" (0 = unbounded)
          Depth        \* history bound for behaviour emission (0 = no history kept)

VARIABLES node,   \* node[id] = [val, l, r]  (0 = nil) for allocated ids
          root,   \* id of the root (0 = empty tree)
          bag,    \* abstract multiset: bag[v] = number of occurrences
          ret,    \* result of the last operation
          h       \* history [op, arg, ret, has, min, max]

vars == <<node, root, bag, ret, h>>

Ids == 1..MaxNodes
Alloc == DOMAIN node

Wrap(d) == IF Bits = 0 THEN d
           ELSE LET m == 2 ^ Bits  x == d % m IN IF x >= m \div 2 THEN x - m ELSE x

\* direction of the search at a node holding nv when looking for v: 0 found, -1 left, 1 right
Dir(v, nv) ==
  IF SearchMode = "compare"
  THEN IF v = nv THEN 0 ELSE IF v < nv THEN -1 ELSE 1
  ELSE LET d == Wrap(v - nv) IN IF d = 0 THEN 0 ELSE IF d < 0 THEN -1 ELSE 1

\* searchNode: <<node, parent>> (0 = nil)
RECURSIVE Search(_, _, _, _)
Search(nd, v, n, parent) ==
  IF n = 0 THEN <<0, parent>>
  ELSE LET d == Dir(v, nd[n].val) IN
       IF d = 0 THEN <<n, parent>>
       ELSE IF d < 0 THEN Search(nd, v, nd[n].l, n) ELSE Search(nd, v, nd[n].r, n)

RECURSIVE MinNode(_, _, _)
MinNode(nd, n, parent) == IF nd[n].l = 0 THEN <<n, parent>> ELSE MinNode(nd, nd[n].l, n)
RECURSIVE MaxNode(_, _)
MaxNode(nd, n) == IF nd[n].r = 0 THEN n ELSE MaxNode(nd, nd[n].r)

\* Insert: position where the new node is attached: <<parent, "l"|"r">>
RECURSIVE Attach(_, _, _)
Attach(nd, v, cur) ==
  IF v <= nd[cur].val
  THEN IF nd[cur].l = 0 THEN <<cur, "l">> ELSE Attach(nd, v, nd[cur].l)
  ELSE IF nd[cur].r = 0 THEN <<cur, "r">> ELSE Attach(nd, v, nd[cur].r)

\* removeNode(node, parent): returns <<nodes', root'>>
RECURSIVE RemoveNode(_, _, _, _)
RemoveNode(nd, rt, n, parent) ==
  IF nd[n].l # 0 /\ nd[n].r # 0
  THEN LET mp == MinNode(nd, nd[n].r, 0)
           mn == mp[1]
           mpar == IF mp[2] = 0 THEN n ELSE mp[2]
           after == RemoveNode(nd, rt, mn, mpar)
       IN <<[after[1] EXCEPT ![n].val = nd[mn].val], after[2]>>
  ELSE LET child == IF nd[n].l # 0 THEN nd[n].l ELSE nd[n].r IN
       IF n = rt THEN <<nd, child>>
       ELSE IF nd[parent].l = n THEN <<[nd EXCEPT ![parent].l = child], rt>>
            ELSE <<[nd EXCEPT ![parent].r = child], rt>>

\* nodes reachable from the root, and the multiset they hold
RECURSIVE Reach(_, _)
Reach(nd, n) == IF n = 0 THEN {} ELSE {n} \cup Reach(nd, nd[n].l) \cup Reach(nd, nd[n].r)
TreeBag == [v \in Vals |-> Cardinality({n \in Reach(node, root) : node[n].val = v})]

BagMin(b) == IF \A v \in Vals : b[v] = 0 THEN 0 ELSE CHOOSE v \in Vals : b[v] > 0 /\ \A u \in Vals : b[u] > 0 => v <= u
BagMax(b) == IF \A v \in Vals : b[v] = 0 THEN 0 ELSE CHOOSE v \in Vals : b[v] > 0 /\ \A u \in Vals : b[u] > 0 => v >= u

ImplContains(v) == Search(node, v, root, 0)[1] # 0
ImplMin == IF root = 0 THEN 0 ELSE node[MinNode(node, root, 0)[1]].val
ImplMax == IF root = 0 THEN 0 ELSE node[MaxNode(node, root)].val

Log(op, arg, r, nb) ==
  IF Depth = 0 THEN h' = h
  ELSE h' = Append(h, [op |-> op, arg |-> arg, ret |-> r,
                       has |-> {v \in Vals : nb[v] > 0}, min |-> BagMin(nb), max |-> BagMax(nb)])

Init == /\ node = <<>> /\ root = 0
        /\ bag = [v \in Vals |-> 0]
        /\ ret = <<"init">> /\ h = <<>>

Insert(v) ==
  /\ Len(node) < MaxNodes
  /\ LET id == Len(node) + 1
         nd == Append(node, [val |-> v, l |-> 0, r |-> 0])
         nb == [bag EXCEPT ![v] = @ + 1] IN
     /\ IF root = 0 THEN node' = nd /\ root' = id
        ELSE LET a == Attach(node, v, root) IN
             /\ node' = IF a[2] = "l" THEN [nd EXCEPT ![a[1]].l = id] ELSE [nd EXCEPT ![a[1]].r = id]
             /\ root' = root
     /\ bag' = nb
     /\ ret' = <<"insert">>
     /\ Log("insert", v, TRUE, nb)

Remove(v) ==
  LET s == Search(node, v, root, 0) IN
  IF s[1] = 0
  THEN /\ ret' = <<"remove", FALSE>>
       /\ UNCHANGED <<node, root, bag>>
       /\ Log("remove", v, FALSE, bag)
  ELSE LET a == RemoveNode(node, root, s[1], s[2])
           nb == [bag EXCEPT ![v] = IF @ > 0 THEN @ - 1 ELSE 0] IN
       /\ node' = a[1] /\ root' = a[2]
       /\ bag' = nb
       /\ ret' = <<"remove", TRUE>>
       /\ Log("remove", v, TRUE, nb)

Next == \E v \in Vals : Insert(v) \/ Remove(v)
Spec == Init /\ [][Next]_vars

-----------------------------------------------------------------------------
(* C17, tree part *)

\* the tree holds exactly the multiset
Refines == TreeBag = bag

\* search-tree order.  Insert sends equal keys to the left, but removeNode's in-order-successor
\* replacement can leave a copy of the node's value in its right subtree, so the order the code
\* maintains is non-strict on both sides (TLC refuted the strict version after
\* Insert 1,2,1,2; Remove 1).
Ordered == \A n \in Reach(node, root) :
             /\ \A m \in Reach(node, node[n].l) : node[m].val <= node[n].val
             /\ \A m \in Reach(node, node[n].r) : node[m].val >= node[n].val

\* membership, minimum and maximum agree with the multiset
Observers == /\ \A v \in Vals : ImplContains(v) = (bag[v] > 0)
             /\ ImplMin = BagMin(bag)
             /\ ImplMax = BagMax(bag)

\* removal deletes exactly one occurrence and reports whether it existed
RemoveOne == [][\A v \in Vals : Remove(v) =>
                  /\ ret'[2] = (bag[v] > 0)
                  /\ bag' = [bag EXCEPT ![v] = IF @ > 0 THEN @ - 1 ELSE 0]]_vars

DepthBound == Len(h) <= Depth
Emit == (Depth > 0 /\ Len(h) = Depth) => PrintT("HIST " \o ToJson(h))
=============================================================================
