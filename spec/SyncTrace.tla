----------------------------- MODULE SyncTrace ------------------------------
(***************************************************************************)
(* Code -> model: the call log of a real Sync.Run (both runs), recorded by *)
(* wrappers around the repositories under one mutex (global sequence       *)
(* number), is replayed against Sync.tla.  Worker identity is not logged:  *)
(* any worker in the matching state may take the step.                     *)
(*   last.call a     a worker that holds job a calls target.LastDate       *)
(*   last.ret        target.LastDate returned (err, or the date)           *)
(*   get.call since  source.GetSince was called with that start date       *)
(*   get.ret         it failed, or returned n snapshots                    *)
(*   append.call / append.ret  target.Append, n snapshots written or error *)
(* Setting the error flag, finishing a job, ending a run are silent.       *)
(***************************************************************************)
EXTENDS Sync, SyncTraceData

VARIABLES l, seen     \* position in the log; seen[w]: last.call / get.call / append.call already matched for the current step

tvars == <<sc, run, queue, wk, tgt, flag, ret, after1, inflight, l, seen>>
Log == TraceLogs[sc.id]

TraceInit == Init /\ l = 1 /\ seen = [w \in Workers |-> ""]

Ev == Log[l]
Advance == l' = l + 1

Matched ==
  /\ l <= Len(Log)
  /\ \E w \in Workers :
       \* (taking a job from the channel is not observed: workers may reach the repository in another order than
       \*  they took their jobs, so last.call is matched against a worker that already holds the job)
       \/ /\ Ev.op = "last" /\ Ev.ph = "call" /\ wk[w].pc = "last" /\ wk[w].a = Ev.a /\ seen[w] = ""
          /\ seen' = [seen EXCEPT ![w] = "last"] /\ UNCHANGED vars
       \/ /\ Ev.op = "last" /\ Ev.ph = "ret" /\ wk[w].pc = "last" /\ wk[w].a = Ev.a /\ seen[w] = "last"
          /\ (Ev.err <=> tgt[Ev.a] = <<>>)
          /\ (~Ev.err => LastOf(tgt[Ev.a]) = Ev.arg)
          /\ LastDate(w) /\ seen' = [seen EXCEPT ![w] = ""]
       \/ /\ Ev.op = "get" /\ Ev.ph = "call" /\ wk[w].pc = "get" /\ wk[w].a = Ev.a /\ seen[w] = ""
          /\ wk[w].since = Ev.arg
          /\ seen' = [seen EXCEPT ![w] = "get"] /\ UNCHANGED vars
       \/ /\ Ev.op = "get" /\ Ev.ph = "ret" /\ wk[w].pc = "get" /\ wk[w].a = Ev.a /\ seen[w] = "get"
          /\ GetSince(w)
          /\ (Ev.err <=> wk'[w].pc = "seterr")
          /\ (~Ev.err => Len(wk'[w].rows) = Ev.n)
          /\ seen' = [seen EXCEPT ![w] = ""]
       \/ /\ Ev.op = "append" /\ Ev.ph = "call" /\ wk[w].pc = "append" /\ wk[w].a = Ev.a /\ seen[w] = ""
          /\ seen' = [seen EXCEPT ![w] = "append"] /\ UNCHANGED vars
       \/ /\ Ev.op = "append" /\ Ev.ph = "ret" /\ wk[w].a = Ev.a /\ seen[w] = "append"
          /\ \/ (wk[w].pc = "append" /\ Locked /\ AppendBegin(w))
             \/ (wk[w].pc = "append" /\ Ev.err /\ AppendBegin(w))
             \/ (wk[w].pc = "append2" /\ AppendEnd(w))
          /\ (Ev.err <=> wk'[w].pc = "seterr")
          /\ (~Ev.err => Len(tgt'[Ev.a]) - Len(tgt[Ev.a]) = Ev.n \/ ~Locked)
          /\ seen' = [seen EXCEPT ![w] = ""]
  /\ UNCHANGED sc /\ Advance

\* steps the wrappers cannot see
Silent ==
  /\ \/ \E w \in Workers : SetErr(w) \/ Finish(w)
     \/ \E w \in Workers : Take(w)
     \/ \E w \in Workers : (~Locked /\ wk[w].pc = "append" /\ wk[w].a \notin FailApp /\ seen[w] = "append" /\ AppendBegin(w))
     \/ EndRun
  /\ UNCHANGED <<sc, l, seen>>

TraceNext == Matched \/ Silent

Accepted == (l = Len(Log) + 1 /\ run = 3) => PrintT("ACC " \o ToJson([id |-> sc.id]))
=============================================================================
