----------------------------- MODULE Repository -----------------------------
(***************************************************************************)
(* asset.Repository (property C10): a map from asset name to the ordered   *)
(* list of snapshots appended so far.  State-changing operation: Append.   *)
(* After every Append the complete table of read results the property      *)
(* prescribes (Get, GetSince for every bound, LastDate, Assets) is part of *)
(* the emitted history; the harness performs ALL those reads on the real   *)
(* in-memory, file-system and SQL repositories after the same appends and  *)
(* compares.  A snapshot is [d, id]: its date and a unique id (the harness *)
(* instantiates the id with distinct prices).                              *)
(*                                                                         *)
(* Async == TRUE models SQLRepository.Append as coded at the pinned commit *)
(* (the rows are written by a goroutine after Append returned): a separate *)
(* Flush step makes pending rows visible, and ReadYourWrites fails.        *)
(***************************************************************************)
EXTENDS Integers, Sequences, FiniteSets, TLC, Json

CONSTANTS Names,      \* asset names that get appended
          Ghost,      \* a name that is never appended
          Dates,      \* 1..D
          Batches,    \* set of date sequences that one Append call may carry
          Depth,      \* number of Append calls per history
          Async       \* TRUE: Append returns before its rows are stored

VARIABLES store,      \* store[n]: sequence of snapshots visible to reads
          pending,    \* pending[n]: rows of returned Appends not yet visible (Async only)
          known,      \* names some Append was called for
          nextId,
          h

vars == <<store, pending, known, nextId, h>>
All == Names \cup {Ghost}

Init == /\ store = [n \in All |-> <<>>] /\ pending = [n \in All |-> <<>>]
        /\ known = {} /\ nextId = 1 /\ h = <<>>

Mk(batch, id0) == [i \in 1..Len(batch) |-> [d |-> batch[i], id |-> id0 + i - 1]]

\* ---- read results the property prescribes, as functions of the abstract state ----
\* a result is [err, rows] resp. [err, d]
Rows(st, kn, n)     == IF n \notin kn THEN [err |-> TRUE, rows |-> <<>>] ELSE [err |-> FALSE, rows |-> st[n]]
Since(st, kn, n, d) == IF n \notin kn THEN [err |-> TRUE, rows |-> <<>>]
                       ELSE [err |-> FALSE, rows |-> SelectSeq(st[n], LAMBDA s : s.d >= d)]
LastD(st, n)        == IF Len(st[n]) = 0 THEN [err |-> TRUE, d |-> 0] ELSE [err |-> FALSE, d |-> st[n][Len(st[n])].d]

Reads(st, kn) ==
  [get   |-> [n \in All |-> Rows(st, kn, n)],
   since |-> [n \in All |-> [d \in Dates |-> Since(st, kn, n, d)]],
   last  |-> [n \in All |-> LastD(st, n)],
   must  |-> {n \in All : Len(st[n]) > 0},     \* Assets lists every name that holds snapshots
   may   |-> kn,                               \* and no name that was never appended
   \* names for which an empty batch is all that was ever appended: the property leaves their listing open
   hollow |-> {n \in kn : Len(st[n]) = 0}]

AppendOp(n, b) ==
  LET rows == Mk(b, nextId)
      st == IF Async THEN store ELSE [store EXCEPT ![n] = @ \o rows]
      kn == known \cup {n} IN
  /\ Len(h) < Depth
  /\ store' = st
  /\ pending' = IF Async THEN [pending EXCEPT ![n] = @ \o rows] ELSE pending
  /\ known' = kn
  /\ nextId' = nextId + Len(b)
  /\ h' = Append(h, [op |-> "append", n |-> n, rows |-> rows, reads |-> Reads(st, kn)])

\* the goroutine of an asynchronous Append gets to run
Flush(n) ==
  /\ Async /\ pending[n] # <<>>
  /\ store' = [store EXCEPT ![n] = @ \o pending[n]]
  /\ pending' = [pending EXCEPT ![n] = <<>>]
  /\ UNCHANGED <<known, nextId, h>>

Next == (\E n \in Names, b \in Batches : AppendOp(n, b)) \/ (\E n \in Names : Flush(n))
Spec == Init /\ [][Next]_vars

-----------------------------------------------------------------------------
(* C10 on the model *)

\* An Append that has returned is visible to every later read
ReadYourWrites == \A n \in All : pending[n] = <<>>

\* append order is preserved and nothing is lost or duplicated
IdsInOrder == \A n \in All : \A i, j \in 1..Len(store[n]) : i < j => store[n][i].id < store[n][j].id

\* GetSince is Get filtered, LastDate is the date of Get's last row, unknown names are errors
ReadsConsistent == \A n \in All :
   /\ Rows(store, known, n).err = (n \notin known)
   /\ LastD(store, n).err = (Rows(store, known, n).err \/ Rows(store, known, n).rows = <<>>)
   /\ \A d \in Dates : LET r == Since(store, known, n, d) IN
                          /\ r.err = (n \notin known)
                          /\ \A i \in 1..Len(r.rows) : r.rows[i].d >= d
                          /\ Len(r.rows) = Cardinality({i \in 1..Len(store[n]) : store[n][i].d >= d})
   /\ {m \in All : Len(store[m]) > 0} \subseteq known /\ Ghost \notin known

Emit == (Len(h) = Depth) => PrintT("HIST " \o ToJson(h))
=============================================================================
