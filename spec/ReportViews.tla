---------------------------- MODULE ReportViews -----------------------------
(***************************************************************************)
(* helper.Report's bookkeeping of columns and chart views (beyond the      *)
(* listed properties; replayed with C14): NewReport starts with the main   *)
(* view 0; AddChart opens a new view and returns its id; AddColumn appends *)
(* a column - its id is its 1-based position, 0 being the date axis - and  *)
(* files it under the listed views, or under the main view when none is    *)
(* listed.  TLC explores every history of AddChart / AddColumn (with the   *)
(* view ids that exist at that moment) to the depth bound and prints the   *)
(* prescribed Views; each is replayed on the real helper.Report.           *)
(* Doc is the document the template must render from that state for ND     *)
(* dates: one chart container and one ChartWrapper per view (the wrapper   *)
(* of view i plots column 0 = the date axis, then the view's column ids;   *)
(* the main view is 400 high, the others 200), one declared data-table     *)
(* column per report column (type / role by kind), ND rows of 1 + ncols    *)
(* cells where cell c of row r is the r-th value of column c, and every    *)
(* chart bound to the range filter.  The replay renders the real report    *)
(* and reads the HTML / JS back.                                           *)
(***************************************************************************)
EXTENDS Integers, Sequences, FiniteSets, TLC, Json

CONSTANTS Depth, MaxListed, ND \* history length; how many views one AddColumn may list; number of date rows

VARIABLES ncols, views, kinds, h
vars == <<ncols, views, kinds, h>>

Init == ncols = 0 /\ views = <<<<>>>> /\ kinds = <<>> /\ h = <<>>        \* views[i + 1] = the column ids of view i

AddChart == /\ Len(h) < Depth
            /\ views' = Append(views, <<>>)
            /\ h' = Append(h, [op |-> "chart", ret |-> Len(views)])       \* the new view's id
            /\ UNCHANGED <<ncols, kinds>>
\* charts: a sequence of existing view ids (repetitions allowed, as the API allows them)
AddColumn(charts, kind) ==
  /\ Len(h) < Depth
  /\ ncols' = ncols + 1
  /\ kinds' = Append(kinds, kind)
  /\ LET listed == IF charts = <<>> THEN <<0>> ELSE charts
         Count(v) == Cardinality({i \in 1..Len(listed) : listed[i] = v})
         RECURSIVE Rep(_, _)
         Rep(x, k) == IF k = 0 THEN <<>> ELSE <<x>> \o Rep(x, k - 1)
     IN views' = [v \in 1..Len(views) |-> views[v] \o Rep(ncols + 1, Count(v - 1))]
  /\ h' = Append(h, [op |-> "column", charts |-> charts, kind |-> kind, ret |-> ncols + 1])
ViewIds == 0..(Len(views) - 1)
ChartLists == UNION {[1..k -> ViewIds] : k \in 0..MaxListed}
Next == AddChart \/ \E cs \in ChartLists, k \in {"num", "ann"} : AddColumn(cs, k)
Spec == Init /\ [][Next]_vars

\* every column is filed under at least one view; ids are valid and in insertion order inside each view
Filed == \A c \in 1..ncols : \E v \in 1..Len(views) : \E i \in 1..Len(views[v]) : views[v][i] = c
Valid == \A v \in 1..Len(views) : \A i \in 1..Len(views[v]) :
           /\ views[v][i] \in 1..ncols
           /\ (i > 1 => views[v][i - 1] <= views[v][i])
MainViewStays == Len(views) >= 1

\* the rendered document
Doc == [containers |-> [v \in 1..Len(views) |-> v - 1],
        wrappers   |-> [v \in 1..Len(views) |-> [container |-> v - 1, height |-> IF v = 1 THEN 400 ELSE 200,
                                                  columns |-> <<0>> \o views[v]]],
        declared   |-> [c \in 1..ncols |-> IF kinds[c] = "num" THEN [type |-> "number", role |-> "data"]
                                                                ELSE [type |-> "string", role |-> "annotation"]],
        rows       |-> [r \in 1..ND |-> [c \in 1..ncols |-> <<c, r>>]],       \* cell = (column, position in its stream)
        bound      |-> [v \in 1..Len(views) |-> v - 1]]
\* every wrapper plots the date axis first; every column is plotted by some wrapper; every row is complete
DocOK == /\ \A v \in 1..Len(views) : Doc.wrappers[v].columns[1] = 0
         /\ \A c \in 1..ncols : \E v \in 1..Len(views) : \E i \in 2..Len(Doc.wrappers[v].columns) : Doc.wrappers[v].columns[i] = c
         /\ \A r \in 1..ND : Len(Doc.rows[r]) = ncols
         /\ Len(Doc.bound) = Len(Doc.containers)
Emit == (Len(h) = Depth) => PrintT("HIST " \o ToJson([h |-> h, views |-> views, ncols |-> ncols, doc |-> Doc]))
=============================================================================
