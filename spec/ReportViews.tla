---------------------------- MODULE ReportViews -----------------------------
(***************************************************************************)
(* helper.Report's bookkeeping of columns and chart views (beyond the      *)
(* listed properties; replayed with C14): NewReport starts with the main   *)
(* view 0; AddChart opens a new view and returns its id; AddColumn appends *)
(* a column - its id is its 1-based position, 0 being the date axis - and  *)
(* files it under the listed views, or under the main view when none is    *)
(* listed.  TLC explores every history of AddChart / AddColumn (with the   *)
(* view ids that exist at that moment) to the depth bound and prints the   *)
(* prescribed Views; each is replayed on the real helper.Report.           *)
(***************************************************************************)
EXTENDS Integers, Sequences, FiniteSets, TLC, Json

CONSTANTS Depth, MaxListed     \* history length; how many views one AddColumn may list

VARIABLES ncols, views, h
vars == <<ncols, views, h>>

Init == ncols = 0 /\ views = <<<<>>>> /\ h = <<>>        \* views[i + 1] = the column ids of view i

AddChart == /\ Len(h) < Depth
            /\ views' = Append(views, <<>>)
            /\ h' = Append(h, [op |-> "chart", ret |-> Len(views)])       \* the new view's id
            /\ UNCHANGED ncols
\* charts: a sequence of existing view ids (repetitions allowed, as the API allows them)
AddColumn(charts) ==
  /\ Len(h) < Depth
  /\ ncols' = ncols + 1
  /\ LET listed == IF charts = <<>> THEN <<0>> ELSE charts
         Count(v) == Cardinality({i \in 1..Len(listed) : listed[i] = v})
         RECURSIVE Rep(_, _)
         Rep(x, k) == IF k = 0 THEN <<>> ELSE <<x>> \o Rep(x, k - 1)
     IN views' = [v \in 1..Len(views) |-> views[v] \o Rep(ncols + 1, Count(v - 1))]
  /\ h' = Append(h, [op |-> "column", charts |-> charts, ret |-> ncols + 1])
ViewIds == 0..(Len(views) - 1)
ChartLists == UNION {[1..k -> ViewIds] : k \in 0..MaxListed}
Next == AddChart \/ \E cs \in ChartLists : AddColumn(cs)
Spec == Init /\ [][Next]_vars

\* every column is filed under at least one view; ids are valid and in insertion order inside each view
Filed == \A c \in 1..ncols : \E v \in 1..Len(views) : \E i \in 1..Len(views[v]) : views[v][i] = c
Valid == \A v \in 1..Len(views) : \A i \in 1..Len(views[v]) :
           /\ views[v][i] \in 1..ncols
           /\ (i > 1 => views[v][i - 1] <= views[v][i])
MainViewStays == Len(views) >= 1
Emit == (Len(h) = Depth) => PrintT("HIST " \o ToJson([h |-> h, views |-> views, ncols |-> ncols]))
=============================================================================
