------------------------------ MODULE Backtest ------------------------------
(***************************************************************************)
(* backtest.Backtest.Run (property C13): report.Begin; W workers consume   *)
(* the asset names; for each name                                          *)
(*   GetSince -> AssetBegin -> (ComputeWithOutcome; Write) x strategies -> *)
(*   AssetEnd                                                              *)
(* (an asset the repository does not know is skipped); report.End after    *)
(* the wait group.  The report's state is modelled the way DataReport and  *)
(* HTMLReport keep it: a map from asset to the results written so far and  *)
(* the list of per-asset best results; every mutation of that shared state *)
(* is a step of its own, and with Locked = FALSE (pinned commit: no lock)  *)
(* two workers inside such mutations at once is the DataRace predicate.    *)
(*                                                                         *)
(* Second part: the ranking comparator.  Outcomes live on a fixed-point    *)
(* lattice (tenths of a percentage point); Cmp is the comparator as coded  *)
(* - int(b - a), truncating - or the exact three-way comparison.           *)
(***************************************************************************)
EXTENDS Integers, Sequences, FiniteSets, TLC, Json

CONSTANTS Names,      \* sequence of asset names (the job list)
          Missing,    \* names repository.GetSince fails for
          NS,         \* number of strategies
          W,
          Locked,     \* TRUE: the report guards its shared state (code since the fix)
          Truncating, \* TRUE: comparator int(b - a) (pinned commit); FALSE: cmp.Compare
          Outcomes,   \* set of outcome values in tenths of a percentage point (comparator part)
          TwoSectionEnd, \* TRUE: AssetEnd as HTMLReport codes it - one critical section takes the asset's results, a second
                         \*       one (after sorting and logging) records its best result
          Runs,          \* how many times Run is called with the SAME report object, one after the other (1 or 2)
          ResetOnBegin,  \* TRUE (the code): AssetBegin starts the asset's entry afresh; FALSE: a variant that keeps an entry it finds
          StaleBest      \* TRUE: a variant that reads the list of best results in the FIRST section and writes "what it
                         \*       read + its own" in the second (a lost update when two AssetEnd calls overlap); FALSE = the code

Workers == 1..W
NameSet == {Names[i] : i \in 1..Len(Names)}

VARIABLES phase,    \* "begin" | "run" | "end" | "over"
          queue,
          wk,       \* wk[w] = [pc, a, s]
          results,  \* results[a]: sequence of strategy numbers written for asset a (the report's map entry)
          begun, ended,   \* sets of assets with AssetBegin / AssetEnd delivered
          best,     \* sequence of assets whose best result was recorded (HTMLReport.bestResults)
          log,      \* the protocol history of the current run (for the order properties)
          run       \* number of the current run

vars == <<phase, queue, wk, results, begun, ended, best, log, run>>

Idle == [pc |-> "take", a |-> "", s |-> 0, seen |-> <<>>]

Init == /\ phase = "begin" /\ queue = Names /\ wk = [w \in Workers |-> Idle]
        /\ results = [a \in NameSet |-> <<>>] /\ begun = {} /\ ended = {} /\ best = <<>> /\ log = <<>> /\ run = 1

\* report.Begin: (HTML) bestResults = make(...) - the list of best results starts afresh, the map of results stays
Begin == /\ phase = "begin" /\ phase' = "run" /\ log' = Append(log, <<"begin">>) /\ best' = <<>>
         /\ UNCHANGED <<queue, wk, results, begun, ended, run>>

Take(w) ==
  /\ phase = "run" /\ wk[w].pc = "take"
  /\ IF queue = <<>> THEN wk' = [wk EXCEPT ![w].pc = "done"] /\ UNCHANGED queue
     ELSE wk' = [wk EXCEPT ![w] = [pc |-> "get", a |-> Head(queue), s |-> 0, seen |-> <<>>]] /\ queue' = Tail(queue)
  /\ UNCHANGED <<phase, results, begun, ended, best, log, run>>

GetSince(w) ==
  /\ wk[w].pc = "get"
  /\ wk' = IF wk[w].a \in Missing THEN [wk EXCEPT ![w] = Idle] ELSE [wk EXCEPT ![w].pc = "abegin"]
  /\ UNCHANGED <<phase, queue, results, begun, ended, best, log, run>>

\* report.AssetBegin: results[name] = make(...)   (a write to the shared map)
AssetBegin(w) ==
  /\ wk[w].pc = "abegin"
  /\ begun' = begun \cup {wk[w].a}
  /\ results' = IF ResetOnBegin THEN [results EXCEPT ![wk[w].a] = <<>>] ELSE results
  /\ log' = Append(log, <<"assetbegin", wk[w].a>>)
  /\ wk' = [wk EXCEPT ![w].pc = IF NS > 0 THEN "write" ELSE "aend", ![w].s = 1]
  /\ UNCHANGED <<phase, queue, ended, best, run>>

\* report.Write: compute the result (local), then append it to results[name]  (read-modify-write of the shared map)
Write(w) ==
  /\ wk[w].pc = "write"
  /\ IF Locked
     THEN /\ results' = [results EXCEPT ![wk[w].a] = Append(@, wk[w].s)]
          /\ log' = Append(log, <<"write", wk[w].a, wk[w].s>>)
          /\ wk' = [wk EXCEPT ![w].pc = IF wk[w].s < NS THEN "write" ELSE "aend", ![w].s = wk[w].s + 1]
     ELSE /\ wk' = [wk EXCEPT ![w].pc = "write2"]
          /\ UNCHANGED <<results, log>>
  /\ UNCHANGED <<phase, queue, begun, ended, best, run>>
Write2(w) ==
  /\ wk[w].pc = "write2"
  /\ results' = [results EXCEPT ![wk[w].a] = Append(@, wk[w].s)]
  /\ log' = Append(log, <<"write", wk[w].a, wk[w].s>>)
  /\ wk' = [wk EXCEPT ![w].pc = IF wk[w].s < NS THEN "write" ELSE "aend", ![w].s = wk[w].s + 1]
  /\ UNCHANGED <<phase, queue, begun, ended, best, run>>

\* report.AssetEnd: (HTML) delete the map entry, sort, append the best result to bestResults
AssetEnd(w) ==
  /\ wk[w].pc = "aend"
  /\ IF Locked /\ ~TwoSectionEnd
     THEN /\ ended' = ended \cup {wk[w].a} /\ best' = Append(best, wk[w].a)
          /\ log' = Append(log, <<"assetend", wk[w].a>>)
          /\ wk' = [wk EXCEPT ![w] = Idle]
     ELSE \* first section: the asset's results are taken out of the map (and, in the StaleBest variant, the list is read)
          /\ wk' = [wk EXCEPT ![w].pc = "aend2", ![w].seen = best] /\ UNCHANGED <<ended, best, log>>
  /\ UNCHANGED <<phase, queue, results, begun, run>>
AssetEnd2(w) ==
  /\ wk[w].pc = "aend2"
  /\ ended' = ended \cup {wk[w].a}
  /\ best' = IF StaleBest THEN Append(wk[w].seen, wk[w].a) ELSE Append(best, wk[w].a)
  /\ log' = Append(log, <<"assetend", wk[w].a>>)
  /\ wk' = [wk EXCEPT ![w] = Idle]
  /\ UNCHANGED <<phase, queue, results, begun, run>>

End == /\ phase = "run" /\ \A w \in Workers : wk[w].pc = "done"
       /\ phase' = "over" /\ log' = Append(log, <<"end">>)
       /\ UNCHANGED <<queue, wk, results, begun, ended, best, run>>

\* the caller runs the backtest again with the same report object (the report keeps whatever it holds)
Again == /\ phase = "over" /\ run < Runs
         /\ phase' = "begin" /\ run' = run + 1 /\ queue' = Names /\ wk' = [w \in Workers |-> Idle]
         /\ begun' = {} /\ ended' = {} /\ log' = <<>>
         /\ UNCHANGED <<results, best>>

Next == Begin \/ End \/ Again \/ \E w \in Workers : Take(w) \/ GetSince(w) \/ AssetBegin(w) \/ Write(w) \/ Write2(w) \/ AssetEnd(w) \/ AssetEnd2(w)
Spec == Init /\ [][Next]_vars
FairSpec == Spec /\ WF_vars(Next)

-----------------------------------------------------------------------------
(* C13 *)
Present == NameSet \ Missing
Over == phase = "over"
Pos(e) == CHOOSE i \in 1..Len(log) : log[i] = e
Has(e) == \E i \in 1..Len(log) : log[i] = e
CountOf(e) == Cardinality({i \in 1..Len(log) : log[i] = e})

\* exactly one result for every (asset, strategy) pair, none for assets the repository does not hold
ExactlyOnce == Over => /\ \A a \in Present : \A s \in 1..NS : CountOf(<<"write", a, s>>) = 1
                       /\ \A a \in Missing : \A s \in 1..NS : CountOf(<<"write", a, s>>) = 0
                       /\ \A a \in Present : results[a] = [s \in 1..NS |-> s]
\* begin / asset-begin / write / asset-end / end in protocol order
ProtocolOrder == /\ (log # <<>> => log[1] = <<"begin">>)
                 /\ \A i \in 1..Len(log) :
                      /\ (log[i][1] = "write" => /\ Has(<<"assetbegin", log[i][2]>>) /\ Pos(<<"assetbegin", log[i][2]>>) < i
                                                 /\ ~\E j \in 1..i : log[j] = <<"assetend", log[i][2]>>)
                      /\ (log[i][1] = "assetend" => Has(<<"assetbegin", log[i][2]>>) /\ Pos(<<"assetbegin", log[i][2]>>) < i)
                      /\ (log[i] = <<"end">> => i = Len(log) /\ \A a \in Present : Has(<<"assetend", a>>))
\* the set of results does not depend on W or the schedule: in the final state it is a function of the inputs
SameForAnyW == Over => (begun = Present /\ ended = Present /\ {best[i] : i \in 1..Len(best)} = Present /\ Len(best) = Cardinality(Present))
Termination == <>(Over /\ run = Runs)

\* workers that are about to perform / are inside an unsynchronised mutation of the report's shared state
RacePcs == {"abegin", "write2", "aend2"}      \* (aend2 under a lock is a critical section of its own, not a race)
NoDataRace == Locked \/ Cardinality({w \in Workers : wk[w].pc \in RacePcs}) <= 1

-----------------------------------------------------------------------------
(* the ranking comparator: slices.SortFunc(results, func(a, b) int { return int(b.Outcome - a.Outcome) }) *)
\* outcomes in tenths of a percentage point; int() truncates toward zero
Trunc10(d) == IF d >= 0 THEN d \div 10 ELSE -((-d) \div 10)
Cmp(a, b) == IF Truncating THEN Trunc10(b - a) ELSE (IF b > a THEN 1 ELSE IF b < a THEN -1 ELSE 0)
Sgn(x) == IF x > 0 THEN 1 ELSE IF x < 0 THEN -1 ELSE 0
\* a comparator usable for sorting is a strict weak order: its "equivalence" must be transitive and it must
\* agree with the order it is meant to implement
WeakOrder == \A a, b, c \in Outcomes :
               /\ Sgn(Cmp(a, b)) = -Sgn(Cmp(b, a))
               /\ (Cmp(a, b) = 0 /\ Cmp(b, c) = 0 => Cmp(a, c) = 0)
               /\ (Cmp(a, b) < 0 /\ Cmp(b, c) < 0 => Cmp(a, c) < 0)
\* any arrangement the comparator accepts as sorted lists outcomes in non-increasing order
Sorted(s) == \A i \in 1..(Len(s) - 1) : Cmp(s[i], s[i + 1]) <= 0
RankingOK == \A s \in [1..3 -> Outcomes] : Sorted(s) => (s[1] >= s[2] /\ s[2] >= s[3])
\* a witness for the harness: an arrangement the truncating comparator leaves alone although it is not ranked
EmitWitness == \A s \in [1..3 -> Outcomes] :
                 (Sorted(s) /\ ~(s[1] >= s[2] /\ s[2] >= s[3])) => PrintT("WIT " \o ToJson(s))
=============================================================================
