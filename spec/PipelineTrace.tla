--------------------------- MODULE PipelineTrace ---------------------------
(***************************************************************************)
(* Trace validation of the stage programs of Pipeline.tla against the      *)
(* real helpers (property C16, and the binding the pipeline properties     *)
(* rest on).  The trace is the sequence of boundary events the probe       *)
(* harness observed on the real code: which operation the stage took next  *)
(* while the harness offered every possible one (harness/probe.go).        *)
(*   in k v      the reader of input k received value v from the harness   *)
(*   inclose k   the harness closed input k (after its last value)         *)
(*   out k v     the harness received v from output k                      *)
(*   outclose k  the harness saw output k closed                           *)
(*   end S       nothing can fire any more; S = inputs still holding values*)
(* Every line must be explained by the corresponding step of the           *)
(* specification; steps the harness cannot see (a stage observing a close, *)
(* closing its output, internal transfers of composites) are silent steps. *)
(* A trace is accepted iff a state with l = Len(trace) + 1 is reachable.   *)
(***************************************************************************)
EXTENDS Pipeline

CONSTANTS Traces,     \* Traces[lens] = sequence of event records [e, k, v, s, b]
          Policy      \* "out": the harness offered inputs only when no output operation was ready; "in": vice versa

VARIABLE l            \* position in the trace

tvars == <<proc, buf, closed, out, ran, lens, l>>

Tr == Traces[lens]

\* p receives by rendezvous from a harness source
FromSource(p) ==
  /\ proc[p].t = "recv" /\ Cap[proc[p].c] = 0 /\ Len(buf[proc[p].c]) = 0 /\ SenderReady(proc[p].c)
  /\ Kind[Writer[proc[p].c]] = "Source"

Visible(p) == \/ Kind[p] = "Sink"
              \/ (Kind[p] = "Source" /\ proc[p].t = "close")
              \/ FromSource(p)

\* the token a receive of p would deliver now (NoTok if it would see the close)
NextTok(p) == LET c == proc[p].c IN
  IF Len(buf[c]) > 0 THEN Head(buf[c])
  ELSE IF Cap[c] = 0 /\ SenderReady(c) THEN proc[Writer[c]].v ELSE NoTok

Matches(p, e) ==
  \/ /\ e.e = "in" /\ FromSource(p)
     /\ Par[Writer[proc[p].c]] = e.k /\ proc[Writer[proc[p].c]].v.hi = e.v
  \/ /\ e.e = "inclose" /\ Kind[p] = "Source" /\ proc[p].t = "close" /\ Par[p] = e.k
  \/ /\ e.e = "out" /\ Kind[p] = "Sink" /\ Par[p] = e.k /\ NextTok(p) # NoTok
     /\ (e.b => NextTok(p).hi = e.v)       \* b: the logged value is comparable with the provenance token
  \/ /\ e.e = "outclose" /\ Kind[p] = "Sink" /\ Par[p] = e.k /\ NextTok(p) = NoTok

TraceInit == Init /\ l = 1

\* The harness looks only when every goroutine is parked, so internal steps have priority over boundary
\* events; among the boundary events the preferred class (Policy) goes first.  "inclose" is the harness's
\* own action right after its last send and is exempt.
SilentEnabled == \E p \in Procs : Owns(p) /\ ~Visible(p)
OutEnabled    == \E p \in Procs : Owns(p) /\ Kind[p] = "Sink"
InEnabled     == \E p \in Procs : Owns(p) /\ FromSource(p)
Allowed(e) == \/ e.e = "inclose"
              \/ /\ ~SilentEnabled
                 /\ (Policy = "out" /\ e.e = "in" => ~OutEnabled)
                 /\ (Policy = "in" /\ e.e \in {"out", "outclose"} => ~InEnabled)

Event == /\ l <= Len(Tr) /\ Tr[l].e # "end" /\ Allowed(Tr[l])
         /\ \E p \in Procs : Owns(p) /\ Visible(p) /\ Matches(p, Tr[l]) /\ Fire(p)
         /\ l' = l + 1
Silent == /\ \E p \in Procs : Owns(p) /\ ~Visible(p) /\ Fire(p)
          /\ UNCHANGED l
\* the final line: nothing can fire and exactly the logged inputs still hold values
End == /\ l <= Len(Tr) /\ Tr[l].e = "end"
       /\ Quiescent
       /\ {Par[p] : p \in {q \in Procs : Kind[q] = "Source" /\ proc[q].pc # "done"}} = Tr[l].s
       /\ l' = l + 1
       /\ UNCHANGED vars

TraceNext == Event \/ Silent \/ End
TraceSpec == TraceInit /\ [][TraceNext]_tvars

\* prints once per accepted trace; the check demands one line per trace
Accepted == (l = Len(Tr) + 1) => PrintT("ACC " \o ToJson([lens |-> lens, stuck |-> StuckSet]))
\* high-water mark for diagnosing a rejection (needs -workers 1)
HighWater == TLCSet(1, IF l - 1 > TLCGet(1) THEN l - 1 ELSE TLCGet(1))
=============================================================================
