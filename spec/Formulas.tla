------------------------------ MODULE Formulas -------------------------------
(***************************************************************************)
(* The documented formulas of the indicators (property C01), transcribed   *)
(* from the doc comments above each indicator type, over EXACT rational    *)
(* arithmetic on position-indexed series.                                  *)
(*                                                                         *)
(* A series is a function from a set of input positions (an interval of    *)
(* 1..n) to rationals: the value at position p is the documented formula   *)
(* evaluated on the input window that ends at p.  Operands of a formula    *)
(* are combined AT THE SAME POSITION (Zip) - alignment is part of the      *)
(* meaning here, whereas the code has to establish it with Skip/Shift.     *)
(* A position where a denominator is zero holds Undef, which propagates    *)
(* through everything derived from it (those positions are exempt).        *)
(*                                                                         *)
(* A rational is <<n, d>> with d > 0 and gcd(n, d) = 1; Undef is <<0, 0>>. *)
(* Where a formula takes a square root (standard deviation, Ulcer index)   *)
(* the model gives the radicand and the replay compares squares.           *)
(*                                                                         *)
(* TLC evaluates every formula on every input word over small alphabets    *)
(* (zeros, ties, flat and monotone runs, negative numbers where the input  *)
(* is not a price), checks the range/ordering theorems of the formulas     *)
(* (C15 on the lattice) and prints each case with its exact values for the *)
(* replay on the real indicators.                                          *)
(***************************************************************************)
EXTENDS Integers, Sequences, FiniteSets, TLC, Json

VARIABLE x
Init == x = 0
Next == UNCHANGED x

-----------------------------------------------------------------------------
(* rationals *)
U == <<0, 0>>
IsU(a) == a[2] = 0
AbsI(i) == IF i < 0 THEN -i ELSE i
RECURSIVE Gcd(_, _)
Gcd(a, b) == IF b = 0 THEN a ELSE Gcd(b, a % b)
Q(n, d) == IF d = 0 THEN U
           ELSE LET g == Gcd(AbsI(n), AbsI(d)) IN IF d < 0 THEN <<(-n) \div g, (-d) \div g>> ELSE <<n \div g, d \div g>>
I(n) == <<n, 1>>
\* (common denominators through the lcm and cross-cancellation keep the intermediate products inside TLC's 32-bit integers)
Lcm(a, b) == (a \div Gcd(a, b)) * b
Add(a, b) == IF IsU(a) \/ IsU(b) THEN U ELSE LET d == Lcm(a[2], b[2]) IN Q(a[1] * (d \div a[2]) + b[1] * (d \div b[2]), d)
Sub(a, b) == IF IsU(a) \/ IsU(b) THEN U ELSE LET d == Lcm(a[2], b[2]) IN Q(a[1] * (d \div a[2]) - b[1] * (d \div b[2]), d)
Mul(a, b) == IF IsU(a) \/ IsU(b) THEN U
             ELSE LET g1 == Gcd(AbsI(a[1]), b[2]) g2 == Gcd(AbsI(b[1]), a[2]) IN
                  IF a[1] = 0 \/ b[1] = 0 THEN <<0, 1>> ELSE <<(a[1] \div g1) * (b[1] \div g2), (a[2] \div g2) * (b[2] \div g1)>>
Div(a, b) == IF IsU(a) \/ IsU(b) \/ b[1] = 0 THEN U ELSE Mul(a, IF b[1] < 0 THEN <<-b[2], -b[1]>> ELSE <<b[2], b[1]>>)
Neg(a) == IF IsU(a) THEN U ELSE <<-a[1], a[2]>>
AbsR(a) == IF IsU(a) THEN U ELSE <<AbsI(a[1]), a[2]>>
Lt(a, b) == LET d == Lcm(a[2], b[2]) IN a[1] * (d \div a[2]) < b[1] * (d \div b[2])           \* both defined
Le(a, b) == LET d == Lcm(a[2], b[2]) IN a[1] * (d \div a[2]) <= b[1] * (d \div b[2])
MaxR(a, b) == IF IsU(a) \/ IsU(b) THEN U ELSE IF Lt(a, b) THEN b ELSE a
MinR(a, b) == IF IsU(a) \/ IsU(b) THEN U ELSE IF Lt(b, a) THEN b ELSE a
Sq(a) == Mul(a, a)
SgnR(a) == IF IsU(a) THEN U ELSE I(IF a[1] > 0 THEN 1 ELSE IF a[1] < 0 THEN -1 ELSE 0)

-----------------------------------------------------------------------------
(* series *)
MinI(S) == CHOOSE m \in S : \A y \in S : m <= y
MaxI(S) == CHOOSE m \in S : \A y \in S : m >= y
Empty == <<>>
IsEmpty(a) == DOMAIN a = {}
Lo(a) == MinI(DOMAIN a)
Hi(a) == MaxI(DOMAIN a)
\* an integer word as a series on 1..n
Ser(w) == [p \in 1..Len(w) |-> I(w[p])]
Zip(Op(_, _), a, b) == [p \in DOMAIN a \cap DOMAIN b |-> Op(a[p], b[p])]
Zip3(Op(_, _, _), a, b, c) == [p \in DOMAIN a \cap DOMAIN b \cap DOMAIN c |-> Op(a[p], b[p], c[p])]
Map(Op(_), a) == [p \in DOMAIN a |-> Op(a[p])]
Scale(k, a) == [p \in DOMAIN a |-> Mul(k, a[p])]
AddS(a, b) == Zip(Add, a, b)
SubS(a, b) == Zip(Sub, a, b)
MulS(a, b) == Zip(Mul, a, b)
DivS(a, b) == Zip(Div, a, b)
\* the value k positions earlier ("previous", "period ago")
Prev(a, k) == [p \in {q \in DOMAIN a : (q - k) \in DOMAIN a} |-> a[p - k]]
\* Current - Prior
Change(a, k) == SubS(a, Prev(a, k))
\* positions whose window of P values lies inside the series
WinDom(a, P) == {q \in DOMAIN a : (q - P + 1) \in DOMAIN a}
RECURSIVE SumR(_, _, _)
SumR(a, i, j) == IF i > j THEN I(0) ELSE Add(a[i], SumR(a, i + 1, j))
RECURSIVE MaxW(_, _, _)
MaxW(a, i, j) == IF i = j THEN a[i] ELSE MaxR(a[i], MaxW(a, i + 1, j))
RECURSIVE MinW(_, _, _)
MinW(a, i, j) == IF i = j THEN a[i] ELSE MinR(a[i], MinW(a, i + 1, j))
MSum(a, P) == [p \in WinDom(a, P) |-> SumR(a, p - P + 1, p)]
MMax(a, P) == [p \in WinDom(a, P) |-> MaxW(a, p - P + 1, p)]
MMin(a, P) == [p \in WinDom(a, P) |-> MinW(a, p - P + 1, p)]
Sma(a, P)  == [p \in WinDom(a, P) |-> Div(SumR(a, p - P + 1, p), I(P))]

\* a recurrence r[lo] = seed, r[p] = Step(r[p-1], p) on lo..hi, built left to right
RECURSIVE RecSeq(_, _, _, _, _)
RecSeq(Step(_, _), p, hi, prev, acc) == IF p > hi THEN acc ELSE LET v == Step(prev, p) IN RecSeq(Step, p + 1, hi, v, Append(acc, v))
Rec(Step(_, _), lo, hi, seed) == IF lo > hi THEN Empty
                                 ELSE LET s == RecSeq(Step, lo + 1, hi, seed, <<seed>>) IN [p \in lo..hi |-> s[p - lo + 1]]

\* Exponential moving average: the first value is the SMA of the first P values, then
\*   EMA = (value - previous EMA) * K + previous EMA,   K = smoothing / (1 + P)   (smoothing 2)
Xma(a, P, K) == IF WinDom(a, P) = {} THEN Empty
                ELSE LET lo == MinI(WinDom(a, P))
                         Step(prev, p) == Add(Mul(Sub(a[p], prev), K), prev)
                     IN Rec(Step, lo, Hi(a), Div(SumR(a, lo - P + 1, lo), I(P)))
Ema(a, P) == Xma(a, P, Q(2, P + 1))
\* Rolling / smoothed moving average:  R[i] = (R[i-1] * (p - 1) + v[i]) / p, seeded with the SMA
Rma(a, P) == IF WinDom(a, P) = {} THEN Empty
             ELSE LET lo == MinI(WinDom(a, P))
                      Step(prev, p) == Div(Add(Mul(prev, I(P - 1)), a[p]), I(P))
                  IN Rec(Step, lo, Hi(a), Div(SumR(a, lo - P + 1, lo), I(P)))
Smma(a, P) == Rma(a, P)
\* WMA = ((Value1 * 1/N) + (Value2 * 2/N) + ...) / 2      (as documented)
RECURSIVE WSum(_, _, _, _)
WSum(a, first, i, P) == IF i > P THEN I(0) ELSE Add(Mul(a[first + i - 1], Q(i, P)), WSum(a, first, i + 1, P))
Wma(a, P) == [p \in WinDom(a, P) |-> Div(WSum(a, p - P + 1, 1, P), I(2))]
\* cumulative sum from the first position
Cum(a) == IF IsEmpty(a) THEN Empty ELSE LET Step(prev, p) == Add(prev, a[p]) IN Rec(Step, Lo(a), Hi(a), a[Lo(a)])

-----------------------------------------------------------------------------
(* trend *)
\* Typical Price = (High + Low + Closing) / 3
TypicalPrice(h, l, c) == Zip3(LAMBDA a, b, d : Div(Add(Add(a, b), d), I(3)), h, l, c)
\* Weighted Close = (High + Low + (Close * 2)) / 4
WeightedClose(h, l, c) == Zip3(LAMBDA a, b, d : Div(Add(Add(a, b), Mul(d, I(2))), I(4)), h, l, c)
\* BOP = (Closing - Opening) / (High - Low)
Bop(o, h, l, c) == DivS(SubS(c, o), SubS(h, l))
\* APO = Ema(fast) - Ema(slow)
Apo(c, F, S) == SubS(Ema(c, F), Ema(c, S))
\* MACD = Ema(p1) - Ema(p2);  Signal = Ema(p3) of MACD
Macd(c, P1, P2) == SubS(Ema(c, P1), Ema(c, P2))
MacdSignal(c, P1, P2, P3) == Ema(Macd(c, P1, P2), P3)
\* DEMA = (2 * EMA1(values)) - EMA2(EMA1(values))
Dema(c, P1, P2) == LET e1 == Ema(c, P1) IN SubS(Scale(I(2), e1), Ema(e1, P2))
\* TEMA = (3 * EMA1) - (3 * EMA2) + EMA3;  EMA1 = EMA(values), EMA2 = EMA(EMA1), EMA3 = EMA(EMA2)
Tema(c, P1, P2, P3) == LET e1 == Ema(c, P1) e2 == Ema(e1, P2) e3 == Ema(e2, P3) IN AddS(SubS(Scale(I(3), e1), Scale(I(3), e2)), e3)
\* TRIX = (EMA3 - Previous EMA3) / Previous EMA3
Trix(c, P) == LET e3 == Ema(Ema(Ema(c, P), P), P) IN DivS(Change(e3, 1), Prev(e3, 1))
\* TRIMA: even period: SMA(period / 2, SMA((period / 2) + 1, values)); odd: SMA((period + 1) / 2, SMA((period + 1) / 2, values))
Trima(c, P) == IF P % 2 = 0 THEN Sma(Sma(c, (P \div 2) + 1), P \div 2) ELSE Sma(Sma(c, (P + 1) \div 2), (P + 1) \div 2)
\* TSI = (PCDS / APCDS) * 100;  PCDS = Ema(second, Ema(first, Current - Prior));  APCDS the same of Abs(Current - Prior)
Tsi(c, F, S) == LET d == Change(c, 1) IN
                Scale(I(100), DivS(Ema(Ema(d, F), S), Ema(Ema(Map(AbsR, d), F), S)))
\* VWMA = Sum(Price * Volume) / Sum(Volume)
Vwma(c, v, P) == DivS(MSum(MulS(c, v), P), MSum(v, P))
\* Aroon Up = ((P - Period Since Last P Period High) / P) * 100   (Down: Low)
SinceMax(a, p, P) == p - MaxI({q \in (p - P + 1)..p : a[q] = MaxW(a, p - P + 1, p)})
SinceMin(a, p, P) == p - MaxI({q \in (p - P + 1)..p : a[q] = MinW(a, p - P + 1, p)})
AroonUp(h, P) == [p \in WinDom(h, P) |-> Mul(Q(P - SinceMax(h, p, P), P), I(100))]
AroonDown(l, P) == [p \in WinDom(l, P) |-> Mul(Q(P - SinceMin(l, p, P), P), I(100))]
\* CCI = (Typical Price - Moving Average) / (0.015 * Mean Deviation)
\*   Moving Average = Sma(P, Typical Price);  Mean Deviation = Sma(P, Abs(Typical Price - Moving Average))
Cci(h, l, c, P) == LET tp == TypicalPrice(h, l, c)
                       ma == Sma(tp, P)
                       md == Sma(Map(AbsR, SubS(tp, ma)), P)
                   IN DivS(SubS(tp, ma), Scale(Q(15, 1000), md))
\* KDJ: RSV = (Closing - Min(Low, r)) / (Max(High, r) - Min(Low, r)) * 100;  K = Sma(RSV, k);  D = Sma(K, d);  J = 3K - 2D
Rsv(h, l, c, R) == Scale(I(100), DivS(SubS(c, MMin(l, R)), SubS(MMax(h, R), MMin(l, R))))
KdjK(h, l, c, R, K1) == Sma(Rsv(h, l, c, R), K1)
KdjD(h, l, c, R, K1, D1) == Sma(KdjK(h, l, c, R, K1), D1)
KdjJ(h, l, c, R, K1, D1) == SubS(Scale(I(3), KdjK(h, l, c, R, K1)), Scale(I(2), KdjD(h, l, c, R, K1, D1)))
\* Mass Index = SUM(Ratio, P3);  Ratio = Single EMA / Double EMA;  Single = EMA(P1, Highs - Lows);  Double = EMA(P2, Single)
MassIndex(h, l, P1, P2, P3) == LET s == Ema(SubS(h, l), P1) IN MSum(DivS(s, Ema(s, P2)), P3)
\* KAMA = Previous KAMA + SC * (Price - Previous KAMA)
\*   ER = Abs(Close - Close P ago) / MovingSum(P, Abs(Close - Previous Close));  SC = (ER * (2/(F+1) - 2/(S+1)) + 2/(S+1))^2
KamaSc(c, P, F, S) == LET er == DivS(Map(AbsR, Change(c, P)), MSum(Map(AbsR, Change(c, 1)), P))
                      IN Map(LAMBDA e : Sq(Add(Mul(e, Sub(Q(2, F + 1), Q(2, S + 1))), Q(2, S + 1))), er)
\* KAMA starts from the price before the first smoothing constant
Kama(c, P, F, S) == LET sc == KamaSc(c, P, F, S) IN
                    IF IsEmpty(sc) THEN Empty
                    ELSE LET lo == Lo(sc)
                             Step(prev, p) == Add(prev, Mul(sc[p], Sub(c[p], prev)))
                         IN Rec(Step, lo, Hi(sc), Add(c[lo - 1], Mul(sc[lo], Sub(c[lo], c[lo - 1]))))
\* Moving least squares:  m = (P * sumXY - sumX * sumY) / (P * sumX2 - sumX * sumX);  b = (sumY - m * sumX) / P
MlsM(xs, ys, P) == LET xy == MSum(MulS(xs, ys), P) sx == MSum(xs, P) sy == MSum(ys, P) sxx == MSum(MulS(xs, xs), P) IN
                   [p \in DOMAIN xy |-> Div(Sub(Mul(I(P), xy[p]), Mul(sx[p], sy[p])), Sub(Mul(I(P), sxx[p]), Mul(sx[p], sx[p])))]
MlsB(xs, ys, P) == LET m == MlsM(xs, ys, P) sx == MSum(xs, P) sy == MSum(ys, P) IN
                   [p \in DOMAIN m |-> Div(Sub(sy[p], Mul(m[p], sx[p])), I(P))]
\* Moving linear regression: y = m x + b at the newest x of the window
Mlr(xs, ys, P) == LET m == MlsM(xs, ys, P) b == MlsB(xs, ys, P) IN [p \in DOMAIN m |-> Add(Mul(m[p], xs[p]), b[p])]

-----------------------------------------------------------------------------
(* momentum *)
\* AO = 5-Period SMA - 34-Period SMA of the Median Price = (Low + High) / 2
Median(h, l) == Zip(LAMBDA a, b : Div(Add(a, b), I(2)), h, l)
AwesomeOscillator(h, l, S, L) == SubS(Sma(Median(h, l), S), Sma(Median(h, l), L))
\* PPO = ((EMA(short) - EMA(long)) / EMA(long)) * 100;  Signal = EMA(signal, PPO);  Histogram = PPO - Signal
Ppo(c, S, L) == Scale(I(100), DivS(SubS(Ema(c, S), Ema(c, L)), Ema(c, L)))
PpoSignal(c, S, L, G) == Ema(Ppo(c, S, L), G)
PpoHist(c, S, L, G) == SubS(Ppo(c, S, L), PpoSignal(c, S, L, G))
\* QS = SMA(Closings - Openings)
Qstick(o, c, P) == Sma(SubS(c, o), P)
\* RSI = 100 - (100 / (1 + RS));  RS = Average Gain / Average Loss   (averages: RMA of the gains / of the losses)
Gains(c) == Map(LAMBDA d : IF IsU(d) THEN U ELSE IF d[1] > 0 THEN d ELSE I(0), Change(c, 1))
Losses(c) == Map(LAMBDA d : IF IsU(d) THEN U ELSE IF d[1] < 0 THEN Neg(d) ELSE I(0), Change(c, 1))
Rsi(c, P) == Map(LAMBDA rs : Sub(I(100), Div(I(100), Add(I(1), rs))), DivS(Rma(Gains(c), P), Rma(Losses(c), P)))
\* K = (Closing - Lowest Low) / (Highest High - Lowest Low) * 100;  D = SMA of K
StochK(h, l, c, P) == Scale(I(100), DivS(SubS(c, MMin(l, P)), SubS(MMax(h, P), MMin(l, P))))
StochD(h, l, c, P, D1) == Sma(StochK(h, l, c, P), D1)
\* Stochastic RSI = (RSI - Min(RSI)) / (Max(RSI) - Min(RSI))
StochRsi(c, P) == LET r == Rsi(c, P) IN DivS(SubS(r, MMin(r, P)), SubS(MMax(r, P), MMin(r, P)))
\* WR = (Highest High - Closing) / (Highest High - Lowest Low) * -100
WilliamsR(h, l, c, P) == Scale(I(-100), DivS(SubS(MMax(h, P), c), SubS(MMax(h, P), MMin(l, P))))
\* Ichimoku: Conversion = (P1-High + P1-Low) / 2;  Base = (P2-...) / 2;  Leading A = (Conversion + Base) / 2;  Leading B = (P3-...) / 2
IchiLine(h, l, P) == Zip(LAMBDA a, b : Div(Add(a, b), I(2)), MMax(h, P), MMin(l, P))
IchiLeadA(h, l, P1, P2) == Zip(LAMBDA a, b : Div(Add(a, b), I(2)), IchiLine(h, l, P1), IchiLine(h, l, P2))

-----------------------------------------------------------------------------
(* volatility *)
\* TR = Max((High - Low), (High - Previous Closing), (Previous Closing - Low));  ATR = SMA of TR
Tr(h, l, c) == Zip3(LAMBDA a, b, pc : MaxR(Sub(a, b), MaxR(Sub(a, pc), Sub(pc, b))), h, l, Prev(c, 1))
Atr(h, l, c, P) == Sma(Tr(h, l, c), P)
\* Variance of the window (the documented Std is its square root): 1/P * Sum((value - sma)^2)
Var(a, P) == LET m == Sma(a, P) IN
             [p \in WinDom(a, P) |-> Div(SumR([q \in (p - P + 1)..p |-> Sq(Sub(a[q], m[p]))], p - P + 1, p), I(P))]
\* Donchian: Upper = Max(P, closings);  Lower = Min(P, closings);  Middle = (Upper + Lower) / 2
DonchianMid(c, P) == Zip(LAMBDA a, b : Div(Add(a, b), I(2)), MMax(c, P), MMin(c, P))
\* Keltner: Middle = EMA(P, closings);  Upper / Lower = Middle +/- 2 * ATR(P)
KeltnerUp(h, l, c, PA, PE) == AddS(Ema(c, PE), Scale(I(2), Atr(h, l, c, PA)))
KeltnerLow(h, l, c, PA, PE) == SubS(Ema(c, PE), Scale(I(2), Atr(h, l, c, PA)))
\* Chandelier Exit Long = P-Period highest High - ATR(P) * 3;  Short = P-Period lowest Low + ATR(P) * 3
ChandelierLong(h, l, c, P) == SubS(MMax(h, P), Scale(I(3), Atr(h, l, c, P)))
ChandelierShort(h, l, c, P) == AddS(MMin(l, P), Scale(I(3), Atr(h, l, c, P)))
\* Acceleration Bands: Upper = SMA(High * (1 + 4 * (High - Low) / (High + Low)));  Middle = SMA(Closing);  Lower = SMA(Low * (1 - 4 * ...))
AccK(h, l) == Scale(I(4), DivS(SubS(h, l), AddS(h, l)))
AccUpper(h, l, P) == Sma(MulS(h, Map(LAMBDA k : Add(I(1), k), AccK(h, l))), P)
AccLower(h, l, P) == Sma(MulS(l, Map(LAMBDA k : Sub(I(1), k), AccK(h, l))), P)
\* Projection Oscillator: PL = Min(P, high + MLS slope(P, x, high));  PH = Max(P, low + MLS slope(P, x, low));
\*   PO = 100 * (Closing - PL) / (PH - PL)          (x = 1, 2, 3, ...: the linear regression slope over the window)
Po(h, l, c, P) == LET xs == [p \in DOMAIN h |-> I(p)]
                      pl == MMin(AddS(h, MlsM(xs, h, P)), P)
                      ph == MMax(AddS(l, MlsM(xs, l, P)), P)
                  IN Scale(I(100), DivS(SubS(c, pl), SubS(ph, pl)))
\* Super Trend (the band recursion as documented; atr = the moving average of TR in use, M = multiplier):
\*   BasicUpper = (High + Low) / 2 + M * ATR;  BasicLower = (High + Low) / 2 - M * ATR
\*   FinalUpper = If (BasicUpper < PreviousFinalUpper) Or (PreviousClose > PreviousFinalUpper) Then BasicUpper Else PreviousFinalUpper
\*   FinalLower = If (BasicLower > PreviousFinalLower) Or (PreviousClose < PreviousFinalLower) Then BasicLower Else PreviousFinalLower
\*   SuperTrend = If upTrend Then (If Close <= FinalUpper Then FinalUpper Else FinalLower)
\*                Else (If Close >= FinalLower Then FinalLower Else FinalUpper);   UpTrend = (SuperTrend = FinalUpper)
\*   (at the first position there is no previous band: the final bands are the basic ones, upTrend is false and the
\*    Super Trend is the lower band - the library's starting convention, the documentation states none)
SuperTrend(h, l, c, atr, M) ==
  LET med == Median(h, l)
      bu == AddS(med, Scale(M, atr))
      bl == SubS(med, Scale(M, atr))
  IN IF IsEmpty(bu) THEN Empty
     ELSE LET lo == Lo(bu)
              \* (the documentation does not say where the recursion starts; the library starts on the lower band)
              first == [fu |-> bu[lo], fl |-> bl[lo], st |-> bl[lo], up |-> FALSE]
              Step(prev, p) ==
                LET fu == IF Lt(bu[p], prev.fu) \/ Lt(prev.fu, c[p - 1]) THEN bu[p] ELSE prev.fu
                    fl == IF Lt(prev.fl, bl[p]) \/ Lt(c[p - 1], prev.fl) THEN bl[p] ELSE prev.fl
                IN IF prev.up
                   THEN (IF Le(c[p], fu) THEN [fu |-> fu, fl |-> fl, st |-> fu, up |-> TRUE] ELSE [fu |-> fu, fl |-> fl, st |-> fl, up |-> FALSE])
                   ELSE (IF Le(fl, c[p]) THEN [fu |-> fu, fl |-> fl, st |-> fl, up |-> FALSE] ELSE [fu |-> fu, fl |-> fl, st |-> fu, up |-> TRUE])
              states == Rec(Step, lo, Hi(bu), first)
          IN [p \in DOMAIN states |-> states[p].st]
\* Ulcer Index^2 = Sma(P, (100 * (Closings - High Closings) / High Closings)^2);  High Closings = Max(P, Closings)
UlcerSq(c, P) == LET hc == MMax(c, P) IN Sma(Map(Sq, Scale(I(100), DivS(SubS(c, hc), hc))), P)

-----------------------------------------------------------------------------
(* volume *)
\* MFM = ((Closing - Low) - (High - Closing)) / (High - Low);  MFV = MFM * Volume
Mfm(h, l, c) == DivS(SubS(SubS(c, l), SubS(h, c)), SubS(h, l))
Mfv(h, l, c, v) == MulS(Mfm(h, l, c), v)
\* AD = Previous AD + MFV
Ad(h, l, c, v) == Cum(Mfv(h, l, c, v))
\* CMF = Sum(P, Money Flow Volume) / Sum(P, Volume)
Cmf(h, l, c, v, P) == DivS(MSum(Mfv(h, l, c, v), P), MSum(v, P))
\* CO = Ema(fast, AD) - Ema(slow, AD)
ChaikinOsc(h, l, c, v, F, S) == LET ad == Ad(h, l, c, v) IN SubS(Ema(ad, F), Ema(ad, S))
\* EMV(1) = Distance Moved / Box Ratio;  Distance Moved = (High + Low) / 2 - (Prior High + Prior Low) / 2;
\*   Box Ratio = (Volume / 100000000) / (High - Low);  EMV(P) = SMA(P, EMV(1))
\* (volumes are given in units of 100000000 so that the constant stays inside TLC's integers)
Emv1(h, l, vu) == DivS(Change(Median(h, l), 1), DivS(vu, SubS(h, l)))
Emv(h, l, vu, P) == Sma(Emv1(h, l, vu), P)
\* FI = EMA(P, (Current - Previous) * Volume)
Fi(c, v, P) == Ema(MulS(Change(c, 1), v), P)
\* MFI = 100 - (100 / (1 + Money Ratio));  Money Ratio = Positive Money Flow / Negative Money Flow over P;
\*   Raw Money Flow = Typical Price * Volume, positive where it rises, negative where it falls
Mfi(h, l, c, v, P) == LET raw == MulS(TypicalPrice(h, l, c), v)
                          d == Change(raw, 1)
                          pos == [p \in DOMAIN d |-> IF IsU(d[p]) THEN U ELSE IF d[p][1] > 0 THEN raw[p] ELSE I(0)]
                          neg == [p \in DOMAIN d |-> IF IsU(d[p]) THEN U ELSE IF d[p][1] < 0 THEN raw[p] ELSE I(0)]
                      IN Map(LAMBDA r : Sub(I(100), Div(I(100), Add(I(1), r))), DivS(MSum(pos, P), MSum(neg, P)))
\* NVI: if Volume > Previous Volume: NVI = Previous NVI; otherwise NVI = Previous NVI + ((Closing - Previous Closing) / Previous Closing) * Previous NVI
\*   (starting value 1000)
Nvi(c, v) == IF IsEmpty(c) THEN Empty
             ELSE LET Step(prev, p) == IF Lt(v[p - 1], v[p]) THEN prev ELSE Add(prev, Mul(Div(Sub(c[p], c[p - 1]), c[p - 1]), prev))
                  IN Rec(Step, 1, MinI({Hi(c), Hi(v)}), I(1000))
\* VPT = Previous VPT + Volume * (Current Closing - Previous Closing) / Previous Closing
Vpt(c, v) == Cum(MulS(v, DivS(Change(c, 1), Prev(c, 1))))
\* VWAP = Sum(P, Closing * Volume) / Sum(P, Volume)
Vwap(c, v, P) == DivS(MSum(MulS(c, v), P), MSum(v, P))

\* Bollinger: Middle = SMA;  Upper / Lower = SMA +/- 2 Std;  Band Width = (Upper - Lower) / Middle;  %B = (Close - Lower) / (Upper - Lower)
\*   (in squares: (Upper - Middle)^2 = 4 Var;  Width^2 = 16 Var / SMA^2;  (%B - 1/2)^2 = (Close - SMA)^2 / (16 Var))
BbwSq(c, P) == DivS(Scale(I(16), Var(c, P)), Map(Sq, Sma(c, P)))
PercentBSq(c, P) == DivS(Map(Sq, SubS(c, Sma(c, P))), Scale(I(16), Var(c, P)))
\* Envelope: Upper = MA * (1 + Percentage / 100);  Lower = MA * (1 - Percentage / 100)
EnvUpper(ma, pct) == Scale(Add(I(1), Q(pct, 100)), ma)
EnvLower(ma, pct) == Scale(Sub(I(1), Q(pct, 100)), ma)
\* HMA = WMA(sqrt(period), 2 * WMA(period / 2) - WMA(period))
Hma(c, P, Half, Root) == Wma(SubS(Scale(I(2), Wma(c, Half)), Wma(c, P)), Root)

-----------------------------------------------------------------------------
(* The recorded deviations (known findings): what the code computes INSTEAD of the documented formula, written down so
   that the check can tell "deviates exactly as recorded" from any other difference - a change to one of these
   indicators is then still reported although the indicator has a finding. *)
\* Force index: the price change of t times the volume of t-1
FiAsCoded(c, v, P) == Ema(MulS(Change(c, 1), Prev(v, 1)), P)
\* Ulcer index: the square of the mean drawdown instead of the mean of the squares
UlcerSqAsCoded(c, P) == LET hc == MMax(c, P) IN Map(Sq, Sma(Scale(I(100), DivS(SubS(c, hc), hc)), P))
\* TSI: the second smoothing is applied first
TsiAsCoded(c, F, S) == Tsi(c, S, F)
\* APO / DEMA: the two branches are joined value by value although their warm-ups differ
ApoAsCoded(c, F, S) == IF S >= F THEN SubS(Prev(Ema(c, F), S - F), Ema(c, S)) ELSE SubS(Ema(c, F), Prev(Ema(c, S), F - S))
DemaAsCoded(c, P1, P2) == LET e1 == Ema(c, P1) IN SubS(Scale(I(2), Prev(e1, P2 - 1)), Ema(e1, P2))
\* EMV: the distance moved of t over the box ratio of t-1
EmvAsCoded(h, l, vu, P) == Sma(DivS(Change(Median(h, l), 1), Prev(DivS(vu, SubS(h, l)), 1)), P)
\* Aroon: positions since the moving extreme last CHANGED VALUE (helper.Since), rounded to whole numbers
RoundR(a) == IF IsU(a) THEN U
             ELSE IF a[1] >= 0 THEN I((2 * a[1] + a[2]) \div (2 * a[2])) ELSE I(-((2 * (-a[1]) + a[2]) \div (2 * a[2])))
SinceChanged(m, p) == p - MaxI({q \in Lo(m)..p : q = Lo(m) \/ m[q] # m[q - 1]})
AroonAsCoded(y, P, IsMax) == LET m == IF IsMax THEN MMax(y, P) ELSE MMin(y, P) IN
                             [p \in DOMAIN m |-> RoundR(Mul(Q(P - SinceChanged(m, p), P), I(100)))]

-----------------------------------------------------------------------------
(* C15 on the documented formulas: ranges and orderings (positions with a zero denominator are exempt) *)
RangeOK(a, lo, hi) == \A p \in DOMAIN a : IsU(a[p]) \/ (Le(I(lo), a[p]) /\ Le(a[p], I(hi)))
\* a >= b wherever both are defined
GeOK(a, b) == \A p \in DOMAIN a \cap DOMAIN b : IsU(a[p]) \/ IsU(b[p]) \/ Le(b[p], a[p])
NonNegOK(a) == \A p \in DOMAIN a : IsU(a[p]) \/ a[p][1] >= 0

-----------------------------------------------------------------------------
(* C18 on the documented formulas: b is the series of the inputs scaled by 2 (prices, or volumes); the formula is
   homogeneous of degree k when b = 2^k * a position by position (Undef exactly where a is) *)
Pow2(k) == IF k >= 0 THEN I(2 ^ k) ELSE Q(1, 2 ^ (-k))
HomogOK(a, b, k) == DOMAIN a = DOMAIN b /\ \A p \in DOMAIN a : b[p] = Mul(Pow2(k), a[p])
Twice(a) == Scale(I(2), a)

-----------------------------------------------------------------------------
(* emission: a series as [lo, <<values>>] *)
Out(a) == IF IsEmpty(a) THEN [lo |-> 0, v |-> <<>>] ELSE [lo |-> Lo(a), v |-> [i \in 1..(Hi(a) - Lo(a) + 1) |-> a[Lo(a) + i - 1]]]
Words(A, k) == [1..k -> A]
=============================================================================
