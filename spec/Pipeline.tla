------------------------------ MODULE Pipeline ------------------------------
(***************************************************************************)
(* Go-channel process networks as built by cinar/indicator.                *)
(*                                                                         *)
(* A network instance (processes, their kind and parameters, the channels  *)
(* they read and write, channel capacities) is a set of CONSTANTS.  It is  *)
(* not written by hand: tools/netgen.py generates it from the wiring       *)
(* events recorded from the real code (build tag verif).                   *)
(*                                                                         *)
(* Every process is one goroutine of the code.  Every blocking operation   *)
(* of that goroutine (receive, send, close) is one step.  Channel          *)
(* semantics are Go's: bounded FIFO; capacity 0 = rendezvous; receive on a *)
(* closed and empty channel yields (zero, ok = FALSE); close never blocks. *)
(*                                                                         *)
(* Values are abstracted to provenance tokens [hi, fs, fill]:              *)
(*   hi   = largest input position the value depends on (-1: a constant),  *)
(*   fs   = set of input labels (source names / snapshot fields) it        *)
(*          depends on,                                                    *)
(*   fill = it is a constant injected by a Shift (and only combined with   *)
(*          other such constants).                                         *)
(***************************************************************************)
EXTENDS Integers, Sequences, FiniteSets, TLC, Json

CONSTANTS
    NP,        \* number of processes
    NC,        \* number of channels
    Kind,      \* Kind[p]  : stage kind (string)
    Ins,       \* Ins[p]   : sequence of channels the process receives from
    Outs,      \* Outs[p]  : sequence of channels the process sends to and closes
    Par,       \* Par[p]   : integer parameter (count / period / source index)
    Par2,      \* Par2[p]  : second integer parameter (Echo count)
    Lab,       \* Lab[p]   : label ("" = none): source name or extracted snapshot field
    Cap,       \* Cap[c]   : channel capacity
    Writer,    \* Writer[c]: the process that sends on c (0 = nobody)
    Readers,   \* Readers[c]: set of processes that ever receive from c
    StrictIn,  \* StrictIn[p] (Operate/Operate3): the operands that are indicator values in their own right (not an
               \* explicit delayed copy of a raw input or of a stream another operand derives from): they must all
               \* refer to the same input position - computed from the recorded graph by tools/netgen.py
    Unsafe,    \* channels with several readers that are not inputs of a verified Xma unit
    MultiRead, \* all channels with several readers
    LenVecs,   \* set of input-length vectors (one entry per source) = set of initial states
    Mode,      \* "full": all interleavings; "por": ample-set reduction
    OpCloseFirst, \* TRUE: Operate closes its output before draining the longer input (code since the fix);
                 \* FALSE: close deferred until the drain is over (pinned commit)
    Op3Concurrent, \* TRUE: Operate3 closes its output, then drains its inputs concurrently (since the fix);
                 \* FALSE: drains a, b, c one after the other and closes afterwards (pinned commit)
    SeedChecked, \* TRUE: EMA/RMA/SMMA check ok on their seed read (code since fix 2ac43f9); FALSE: pinned commit
    W,         \* declared warm-up (idle period) of the pipeline
    Off        \* Off[p] for sinks: documented extra lag of that output (0 normally)

VARIABLES
    proc,      \* proc[p] = [pc, i, v, r, t, c]: program counter, counter, held token,
               \*           held token sequence, pending operation type and channel
    buf,       \* buf[c]   : FIFO content of channel c
    closed,    \* closed[c]
    out,       \* out[p]   : what consumer p (Sink / Template) has received so far
    ran,       \* ran[p]   : for Template: number of receives answered by a closed column
    lens       \* the input-length vector of this behaviour (constant along it)

vars == <<proc, buf, closed, out, ran, lens>>

Procs == 1..NP
Chans == 1..NC

Max(a, b) == IF a > b THEN a ELSE b

-----------------------------------------------------------------------------
(* Tokens *)

\* mis: somewhere upstream two indicator values referring to DIFFERENT input positions were combined
NoTok   == [hi |-> -2, fs |-> {}, fill |-> FALSE, mis |-> FALSE]
ZeroTok == [hi |-> -1, fs |-> {}, fill |-> FALSE, mis |-> FALSE]   \* Go zero value read from a closed channel
FillTok == [hi |-> -1, fs |-> {}, fill |-> TRUE, mis |-> FALSE]    \* the fill value of a Shift
Comb(a, b) == [hi |-> Max(a.hi, b.hi), fs |-> a.fs \cup b.fs, fill |-> a.fill /\ b.fill, mis |-> a.mis \/ b.mis]
SrcTok(p, i) == [hi |-> i, fs |-> {Lab[p]}, fill |-> FALSE, mis |-> FALSE]
\* position a strict operand refers to (-1: not strict / a constant)
StrictHi(p, k, tok) == IF k \in StrictIn[p] THEN tok.hi ELSE -1
\* combine operand k of a join with what was combined so far (sh = position the strict operands so far refer to)
Clash(sh, x) == sh >= 0 /\ x >= 0 /\ sh # x
Join(p, k, sh, acc, tok) == [Comb(acc, tok) EXCEPT !.mis = acc.mis \/ tok.mis \/ Clash(sh, StrictHi(p, k, tok))]
NewSh(p, k, sh, tok) == IF StrictHi(p, k, tok) >= 0 THEN StrictHi(p, k, tok) ELSE sh
Relabel(p, tok) == IF Lab[p] = "" THEN tok ELSE [tok EXCEPT !.fs = {Lab[p]}]

Consumers == {p \in Procs : Kind[p] \in {"Sink", "Template"}}

-----------------------------------------------------------------------------
(* Stage programs.                                                         *)
(* L(pc, i, v, r) is the local state; OpOf gives the pending operation of  *)
(* a local state; AfterOk / AfterClosed / AfterSent / AfterClose give the  *)
(* local state after the pending operation completed.                      *)

L(pc, i, v, r) == [pc |-> pc, i |-> i, v |-> v, r |-> r]

SrcLen(p, lv) == IF Kind[p] = "Seq" THEN Par[p] ELSE lv[Par[p]]

InitLocal(p, lv) ==
  LET k == Kind[p] IN
  CASE k \in {"Source", "Seq"} ->
          IF SrcLen(p, lv) > 0 THEN L("send", 0, SrcTok(p, 0), <<>>) ELSE L("close", 0, NoTok, <<>>)
    [] k = "Skip"   -> IF Par[p] > 0 THEN L("skip", 0, NoTok, <<>>) ELSE L("recv", 0, NoTok, <<>>)
    [] k = "Shift"  -> IF Par[p] > 0 THEN L("fill", 0, FillTok, <<>>) ELSE L("recv", 0, NoTok, <<>>)
    [] k \in {"Head", "First"} ->
          IF Par[p] > 0 THEN L("recv", 0, NoTok, <<>>) ELSE L("close", 0, NoTok, <<>>)
    [] k \in {"Operate", "Operate3"} -> L("ra", 0, NoTok, <<>>)
    [] k = "XmaCore" -> L("seed", 0, NoTok, <<>>)
    [] k = "KamaCore" -> L("first", 0, NoTok, <<>>)
    [] k = "Vote" -> IF Len(Ins[p]) > 0 THEN L("rv", 1, NoTok, <<>>) ELSE L("send", 0, ZeroTok, <<>>)
    [] k = "Template" -> L("rd", 1, NoTok, <<>>)
    [] k = "ADrain" -> L("wait", 0, NoTok, <<>>)
    [] OTHER -> L("recv", 0, NoTok, <<>>)

\* The pending operation <<type, channel>> of local state l of process p.
OpOf(p, l) ==
  LET k == Kind[p]  pc == l.pc IN
  CASE pc = "done"  -> <<"none", 0>>
    [] pc \in {"close", "ca", "cb", "c3"} -> <<"close", 0>>
    [] pc = "wait" -> <<"wait", Par[p]>>
    [] pc \in {"send", "fill", "echo", "send0"} ->
          IF k = "Dup" THEN <<"send", Outs[p][l.i]>> ELSE <<"send", Outs[p][1]>>
    [] pc \in {"recv", "skip", "drain", "ra", "da", "first", "rc", "dc", "rd"} -> <<"recv", Ins[p][1]>>
    [] pc \in {"rb", "db"} -> <<"recv", Ins[p][2]>>
    [] pc \in {"rc3", "dc3"} -> <<"recv", Ins[p][3]>>
    [] pc = "seed" -> <<"recv", Ins[p][1]>>
    [] pc = "xrecv" -> <<"recv", Ins[p][2]>>
    [] pc \in {"rsc", "dsc"} -> <<"recv", Ins[p][2]>>
    [] pc \in {"rv", "rcol"} -> <<"recv", Ins[p][l.i]>>

\* Keep the last n elements of a sequence.
LastN(s, n) == IF Len(s) <= n THEN s ELSE SubSeq(s, Len(s) - n + 1, Len(s))

\* Local state after a successful receive of token tok.
AfterOk(p, tok) ==
  LET l == proc[p]  k == Kind[p]  pc == l.pc IN
  CASE k = "Sink" -> L("recv", l.i + 1, NoTok, <<>>)
    [] k \in {"Drain", "ADrain"} -> L("recv", 0, NoTok, <<>>)
    [] k \in {"Map", "Shift", "Skip"} /\ pc = "recv" -> L("send", l.i, Relabel(p, tok), <<>>)
    [] k = "Skip" /\ pc = "skip" ->
          IF l.i + 1 = Par[p] THEN L("recv", 0, NoTok, <<>>) ELSE L("skip", l.i + 1, NoTok, <<>>)
    [] k = "Filter" -> IF tok.hi % 2 = 0 THEN L("send", 0, tok, <<>>) ELSE L("recv", 0, NoTok, <<>>)
    [] k \in {"Head", "First"} /\ pc = "recv" -> L("send", l.i, tok, <<>>)
    [] k = "First" /\ pc = "drain" -> L("drain", l.i, NoTok, <<>>)
    [] k = "Last" -> L("recv", 0, NoTok, LastN(Append(l.r, tok), Par[p]))
    [] k = "Dup" -> IF Len(Outs[p]) > 0 THEN L("send", 1, tok, <<>>) ELSE L("recv", 0, NoTok, <<>>)
    [] k = "Echo" -> L("send", 0, tok, LastN(Append(l.r, tok), Par[p]))
    [] k \in {"Operate", "Operate3"} /\ pc = "ra" -> L("rb", StrictHi(p, 1, tok), tok, <<>>)   \* i holds sh
    [] k = "Operate" /\ pc = "rb" -> L("send", 0, Join(p, 2, l.i, l.v, tok), <<>>)
    [] k = "Operate3" /\ pc = "rb" -> L("rc3", NewSh(p, 2, l.i, tok), Join(p, 2, l.i, l.v, tok), <<>>)
    [] k = "Operate3" /\ pc = "rc3" -> L("send", 0, Join(p, 3, l.i, l.v, tok), <<>>)
    [] k \in {"Operate", "Operate3"} /\ pc \in {"da", "db", "dc3"} -> l
    [] k = "XmaCore" /\ pc = "seed" ->
          IF Par2[p] = 1                                                \* variant: the goroutine sums the seed values itself
          THEN L("seed", l.i + 1, IF l.i = 0 THEN tok ELSE Comb(l.v, tok), <<>>)   \* (reads the seed channel until it is closed)
          ELSE L("send0", 0, tok, <<>>)
    [] k = "XmaCore" /\ pc = "xrecv" -> L("send", 0, tok, <<>>)
    [] k = "KamaCore" /\ pc = "first" -> L("rc", 0, tok, <<>>)
    [] k = "KamaCore" /\ pc = "rc" -> L("rsc", 0, Comb(l.v, tok), <<>>)
    [] k = "KamaCore" /\ pc = "rsc" -> L("send", 0, Comb(l.v, tok), <<>>)
    [] k = "KamaCore" /\ pc \in {"dc", "dsc"} -> l
    [] k = "MovingStd" ->
          IF l.i + 1 >= Par[p] THEN L("send", l.i + 1, tok, <<>>) ELSE L("recv", l.i + 1, NoTok, <<>>)
    [] k = "Vote" ->
          LET nv == IF l.i = 1 THEN tok ELSE Comb(l.v, tok) IN
          IF l.i = Len(Ins[p]) THEN L("send", 0, nv, <<>>) ELSE L("rv", l.i + 1, nv, <<>>)
    [] k = "Template" /\ pc = "rd" ->
          IF Len(Ins[p]) > 1 THEN L("rcol", 2, tok, <<>>) ELSE L("rd", 1, NoTok, <<>>)
    [] k = "Template" /\ pc = "rcol" ->
          IF l.i = Len(Ins[p]) THEN L("rd", 1, NoTok, <<>>) ELSE L("rcol", l.i + 1, l.v, <<>>)

\* Local state after a receive that found the channel closed and empty.
AfterClosed(p) ==
  LET l == proc[p]  k == Kind[p]  pc == l.pc IN
  CASE k \in {"Sink", "Drain", "ADrain"} -> L("done", l.i, NoTok, <<>>)
    [] k = "Skip" /\ pc = "skip" -> L("recv", 0, NoTok, <<>>)
    [] k = "First" /\ pc = "drain" -> L("done", 0, NoTok, <<>>)
    [] k = "Last" ->
          IF l.r = <<>> THEN L("close", 0, NoTok, <<>>) ELSE L("send", 0, Head(l.r), Tail(l.r))
    [] k = "Echo" ->
          IF Par[p] * Par2[p] > 0
          THEN L("echo", 0, IF Len(l.r) = Par[p] THEN l.r[1] ELSE ZeroTok, l.r)
          ELSE L("close", 0, NoTok, <<>>)
    [] k = "Operate" /\ pc = "ra" -> IF OpCloseFirst THEN L("cb", 0, NoTok, <<>>) ELSE L("db", 0, NoTok, <<>>)
    [] k = "Operate" /\ pc = "rb" -> IF OpCloseFirst THEN L("ca", 0, NoTok, <<>>) ELSE L("da", 0, NoTok, <<>>)
    [] k = "Operate" /\ pc \in {"da", "db"} ->
          IF OpCloseFirst THEN L("done", 0, NoTok, <<>>) ELSE L("close", 0, NoTok, <<>>)
    [] k = "Operate3" /\ pc \in {"ra", "rb", "rc3"} ->
          IF Op3Concurrent THEN L("c3", 0, NoTok, <<>>) ELSE L("da", 0, NoTok, <<>>)
    [] k = "Operate3" /\ pc = "da" -> L("db", 0, NoTok, <<>>)
    [] k = "Operate3" /\ pc = "db" -> L("dc3", 0, NoTok, <<>>)
    [] k = "Operate3" /\ pc = "dc3" ->
          IF Op3Concurrent THEN L("done", 0, NoTok, <<>>) ELSE L("close", 0, NoTok, <<>>)
    [] k = "XmaCore" /\ pc = "seed" ->                                 \* no seed: return (fix 2ac43f9);
          IF Par2[p] = 1 /\ l.i >= Par[p] THEN L("send0", 0, l.v, <<>>)  \* variant: all P seed values read, the seed is their mean
          ELSE IF SeedChecked THEN L("close", 0, NoTok, <<>>)           \* before it: ok ignored, a zero was sent
                         ELSE L("send0", 0, ZeroTok, <<>>)
    [] k = "KamaCore" /\ pc \in {"first", "rc"} -> L("dc", 0, NoTok, <<>>)
    [] k = "KamaCore" /\ pc = "rsc" -> L("send", 0, l.v, <<>>)          \* ok is not checked by the code
    [] k = "KamaCore" /\ pc = "dc" -> L("dsc", 0, NoTok, <<>>)
    [] k = "KamaCore" /\ pc = "dsc" -> L("close", 0, NoTok, <<>>)
    [] k = "Template" /\ pc = "rd" -> L("done", 0, NoTok, <<>>)
    [] k = "Template" /\ pc = "rcol" ->                                 \* a closed column yields a zero at once
          IF l.i = Len(Ins[p]) THEN L("rd", 1, NoTok, <<>>) ELSE L("rcol", l.i + 1, l.v, <<>>)
    [] OTHER -> L("close", 0, NoTok, <<>>)

\* Local state after a completed send.
AfterSent(p, lv) ==
  LET l == proc[p]  k == Kind[p]  pc == l.pc IN
  CASE k \in {"Source", "Seq"} ->
          IF l.i + 1 < SrcLen(p, lv) THEN L("send", l.i + 1, SrcTok(p, l.i + 1), <<>>)
                                     ELSE L("close", 0, NoTok, <<>>)
    [] k = "Shift" /\ pc = "fill" ->
          IF l.i + 1 = Par[p] THEN L("recv", 0, NoTok, <<>>) ELSE L("fill", l.i + 1, FillTok, <<>>)
    [] k \in {"Head", "First"} ->
          IF l.i + 1 = Par[p] THEN L("close", 0, NoTok, <<>>) ELSE L("recv", l.i + 1, NoTok, <<>>)
    [] k = "Last" ->
          IF l.r = <<>> THEN L("close", 0, NoTok, <<>>) ELSE L("send", 0, Head(l.r), Tail(l.r))
    [] k = "Dup" ->
          IF l.i < Len(Outs[p]) THEN L("send", l.i + 1, l.v, <<>>) ELSE L("recv", 0, NoTok, <<>>)
    [] k = "Echo" /\ pc = "send" -> L("recv", 0, NoTok, l.r)
    [] k = "Echo" /\ pc = "echo" ->
          IF l.i + 1 = Par[p] * Par2[p] THEN L("close", 0, NoTok, <<>>)
          ELSE L("echo", l.i + 1,
                 IF Len(l.r) = Par[p] THEN l.r[((l.i + 1) % Par[p]) + 1] ELSE ZeroTok, l.r)
    [] k \in {"Operate", "Operate3"} -> L("ra", 0, NoTok, <<>>)
    [] k = "XmaCore" -> L("xrecv", 0, NoTok, <<>>)
    [] k = "KamaCore" -> L("rc", 0, l.v, <<>>)
    [] k = "MovingStd" -> L("recv", l.i, NoTok, <<>>)
    [] k = "Vote" -> L("rv", 1, NoTok, <<>>)
    [] OTHER -> L("recv", 0, NoTok, <<>>)

\* Local state after close: First drains its input afterwards, everything else is finished.
AfterClose(p) ==
  LET pc == proc[p].pc IN
  CASE Kind[p] = "First" -> L("drain", 0, NoTok, <<>>)
    [] pc = "cb" -> L("db", 0, NoTok, <<>>)       \* Operate (fixed): close, then drain the other input
    [] pc = "ca" -> L("da", 0, NoTok, <<>>)
    [] pc = "c3" -> L("dc3", 0, NoTok, <<>>)      \* Operate3 (fixed): close, spawn drains of a and b, drain c
    [] OTHER -> L("done", 0, NoTok, <<>>)

Pack(p, l) == LET o == OpOf(p, l) IN
  [pc |-> l.pc, i |-> l.i, v |-> l.v, r |-> l.r, t |-> o[1], c |-> o[2]]

-----------------------------------------------------------------------------
(* Channel operations *)

SenderReady(c) == Writer[c] # 0 /\ proc[Writer[c]].t = "send" /\ proc[Writer[c]].c = c

CanFire(p) ==
  LET t == proc[p].t  c == proc[p].c IN
  CASE t = "send"  -> IF Cap[c] > 0 THEN Len(buf[c]) < Cap[c]
                      ELSE \E q \in Readers[c] : proc[q].t = "recv" /\ proc[q].c = c
    [] t = "recv"  -> \/ Len(buf[c]) > 0
                      \/ closed[c]
                      \/ (Cap[c] = 0 /\ SenderReady(c))
    [] t = "close" -> TRUE
    [] t = "wait"  -> proc[c].pc \in {"close", "c3", "dc3", "done"}    \* the spawning stage left its loop
    [] OTHER -> FALSE

\* A rendezvous is one step and is owned by the receiver, so every step has one owner.
Owns(p) == CanFire(p) /\ ~(proc[p].t = "send" /\ Cap[proc[p].c] = 0)

Deliver(p, tok) ==
  \* bookkeeping of what consumers have seen
  IF Kind[p] = "Sink" THEN out' = [out EXCEPT ![p] = Append(@, tok)] /\ UNCHANGED ran
  ELSE IF Kind[p] = "Template"
       THEN out' = [out EXCEPT ![p] = Append(@, [col |-> proc[p].i - 1, tok |-> tok,
                                                   d |-> IF proc[p].pc = "rd" THEN tok.hi ELSE proc[p].v.hi])]
            /\ UNCHANGED ran
  ELSE UNCHANGED <<out, ran>>

RecvClosedBook(p) ==
  IF Kind[p] = "Template" /\ proc[p].pc = "rcol"
  THEN ran' = [ran EXCEPT ![p] = @ + 1] /\ UNCHANGED out
  ELSE UNCHANGED <<out, ran>>

Fire(p) ==
  LET t == proc[p].t  c == proc[p].c IN
  /\ UNCHANGED lens
  /\ CASE t = "recv" /\ Len(buf[c]) > 0 ->
            /\ proc' = [proc EXCEPT ![p] = Pack(p, AfterOk(p, Head(buf[c])))]
            /\ buf' = [buf EXCEPT ![c] = Tail(@)]
            /\ Deliver(p, Head(buf[c]))
            /\ UNCHANGED closed
       [] t = "recv" /\ Len(buf[c]) = 0 /\ Cap[c] = 0 /\ SenderReady(c) ->
            LET w == Writer[c]  tok == proc[w].v IN
            /\ proc' = [proc EXCEPT ![p] = Pack(p, AfterOk(p, tok)),
                                    ![w] = Pack(w, AfterSent(w, lens))]
            /\ Deliver(p, tok)
            /\ UNCHANGED <<buf, closed>>
       [] t = "recv" /\ Len(buf[c]) = 0 /\ ~(Cap[c] = 0 /\ SenderReady(c)) ->
            /\ closed[c]
            /\ proc' = [proc EXCEPT ![p] = Pack(p, AfterClosed(p))]
            /\ RecvClosedBook(p)
            /\ UNCHANGED <<buf, closed>>
       [] t = "send" ->
            /\ buf' = [buf EXCEPT ![c] = Append(@, proc[p].v)]
            /\ proc' = [proc EXCEPT ![p] = Pack(p, AfterSent(p, lens))]
            /\ UNCHANGED <<closed, out, ran>>
       [] t = "wait" ->
            /\ proc' = [proc EXCEPT ![p] = Pack(p, L("recv", 0, NoTok, <<>>))]
            /\ UNCHANGED <<buf, closed, out, ran>>
       [] t = "close" ->
            /\ closed' = [x \in Chans |-> closed[x] \/ (\E j \in 1..Len(Outs[p]) : Outs[p][j] = x)]
            /\ proc' = [proc EXCEPT ![p] = Pack(p, AfterClose(p))]
            /\ UNCHANGED <<buf, out, ran>>

-----------------------------------------------------------------------------
(* Specification *)

Init ==
  /\ lens \in LenVecs
  /\ proc = [p \in Procs |-> Pack(p, InitLocal(p, lens))]
  /\ buf = [c \in Chans |-> <<>>]
  /\ closed = [c \in Chans |-> FALSE]
  /\ out = [p \in Consumers |-> <<>>]
  /\ ran = [p \in Consumers |-> 0]

NextFull == \E p \in Procs : Owns(p) /\ Fire(p)

\* Ample-set reduction.  An operation is unsafe iff it is a receive on a channel in Unsafe
\* (several readers, not the input of a separately verified Xma unit).  While a safe
\* operation is enabled, only the one of the lowest-numbered process is taken.
SafeOp(p) == ~(proc[p].t = "recv" /\ proc[p].c \in Unsafe)

NextPOR ==
  LET E == {p \in Procs : Owns(p)}
      S == {p \in E : SafeOp(p)} IN
  IF S # {} THEN Fire(CHOOSE q \in S : \A r \in S : q <= r)
            ELSE \E p \in E : Fire(p)

Next == IF Mode = "full" THEN NextFull ELSE NextPOR

Spec == Init /\ [][Next]_vars

\* Fair version (used with small instances only): every process that can step eventually does.
FairSpec == Spec /\ \A p \in Procs : WF_vars(Owns(p) /\ Fire(p))

-----------------------------------------------------------------------------
(* Properties *)

AllDone   == \A p \in Procs : proc[p].pc = "done"
Quiescent == \A p \in Procs : ~Owns(p)
StuckSet  == {p \in Procs : proc[p].pc # "done"}

Termination == <>AllDone

\* No panic: nobody sends on, or closes, a closed channel.
NoPanic == \A p \in Procs :
   /\ (proc[p].t = "send" => ~closed[proc[p].c])
   /\ (proc[p].t = "close" => \A j \in 1..Len(Outs[p]) : ~closed[Outs[p][j]])

\* Hand-over on channels with several readers: never two of them waiting on it at once.
SingleReader == \A c \in MultiRead :
   Cardinality({p \in Readers[c] : proc[p].t = "recv" /\ proc[p].c = c}) <= 1

Sinks == {p \in Procs : Kind[p] = "Sink"}
N == lens[1]

\* C04: a value delivered at index k (0-based) depends on no input position beyond k + W (+ lag).
\* (a constant - hi = -1, e.g. a Shift fill - is never a look-ahead, whatever the documented lag)
NoLookAhead == \A s \in Sinks : \A k \in 1..Len(out[s]) : out[s][k].hi <= Max(-1, (k - 1) + W + Off[s])

\* C02 (evaluated in terminal states)
CountOK  == \A s \in Sinks : Len(out[s]) = Max(0, N - W)
SameLen  == \A s, u \in Sinks : Len(out[s]) = Len(out[u])
Aligned  == \A s \in Sinks : \A k \in 1..Len(out[s]) : out[s][k].hi = (k - 1) + W + Off[s]

\* C05 (strategies: W = number of leading Hold fills)
ActCount == \A s \in Sinks : IF N >= W THEN Len(out[s]) = N ELSE Len(out[s]) >= N
ActFill  == \A s \in Sinks : \A k \in 1..Len(out[s]) : (k <= W => out[s][k].fill)
ActAlign == \A s \in Sinks : \A k \in 1..Len(out[s]) : (~out[s][k].fill => out[s][k].hi = k - 1)
ActNoLook == \A s \in Sinks : \A k \in 1..Len(out[s]) : out[s][k].hi <= k - 1

\* C02 (alignment of joins): no delivered value mixes indicator values of different input positions
JoinAligned == \A s \in Sinks : \A k \in 1..Len(out[s]) : ~out[s][k].mis

\* C14 (reports): no column ran out, nothing left in any channel
Leftover == {c \in Chans : Len(buf[c]) > 0}
RanOut == {p \in Consumers : ran[p] > 0}
Templates == {p \in Procs : Kind[p] = "Template"}
\* the value printed in the row of date d was computed for date d (or is a warm-up fill)
ColAligned == \A p \in Templates : \A j \in 1..Len(out[p]) :
                 out[p][j].tok.fill \/ out[p][j].tok.hi = out[p][j].d
\* the first column of every strategy report is the closing price of the row's date
CloseColumn == \A p \in Templates : \A j \in 1..Len(out[p]) :
                 out[p][j].col = 1 => (out[p][j].tok.fs = {"Close"} /\ out[p][j].tok.hi = out[p][j].d)
\* every date row got a value from every column, nothing is left over, everything is closed
ColumnsBalanced == /\ RanOut = {} /\ Leftover = {} /\ AllDone
                   /\ \A c \in Chans : closed[c] \/ Writer[c] = 0

Summary ==
  [lens |-> lens,
   done |-> AllDone,
   stuck |-> [p \in StuckSet |-> <<Kind[p], proc[p].pc, proc[p].t, proc[p].c>>],
   out |-> out,
   ran |-> ran,
   leftover |-> [c \in Leftover |-> Len(buf[c])],
   open |-> {c \in Chans : ~closed[c]},
   countOK |-> CountOK, sameLen |-> SameLen, aligned |-> Aligned, noLook |-> NoLookAhead, joinAligned |-> JoinAligned,
   actCount |-> ActCount, actFill |-> ActFill, actAlign |-> ActAlign, actNoLook |-> ActNoLook,
   colAligned |-> ColAligned, colBalanced |-> ColumnsBalanced, closeCol |-> CloseColumn]

\* Evaluated as an INVARIANT (always TRUE): prints one line per distinct terminal state.
Report == Quiescent => PrintT("TERM " \o ToJson(Summary))

=============================================================================
