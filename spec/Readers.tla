------------------------------ MODULE Readers -------------------------------
(***************************************************************************)
(* Malformed external data (property C19) at the level of record shapes    *)
(* and JSON tokens.                                                        *)
(*                                                                         *)
(* CSV (helper.Csv[T].ReadFromReader): the input is an optional header     *)
(* record and data records; a record is a sequence of cells, a cell is     *)
(* "ok" (parses as the type of the field it is mapped to) or "bad".        *)
(* encoding/csv fixes the number of fields with the first record it reads; *)
(* a later record of another length is an error.  Columns are mapped by    *)
(* header name (last occurrence wins, unknown names are ignored, missing   *)
(* ones stay zero) or, without a header, by position.  The reader delivers *)
(* the rows of the well-formed prefix and closes its stream.               *)
(* BoundsChecked = FALSE is the code at the pinned commit: without a       *)
(* header a record shorter than the struct is indexed out of range - the   *)
(* explicit Panic outcome.                                                 *)
(*                                                                         *)
(* JSON (helper.JSONToChan[T], Tiingo body): a token sequence over         *)
(*   "["  "]"  "v" (a value of type T)  "w" (well-formed, wrong type)      *)
(*   "g" (not JSON)  "o" (an object opening as top-level value)            *)
(* possibly truncated anywhere.                                            *)
(***************************************************************************)
EXTENDS Integers, Sequences, FiniteSets, TLC, Json

CONSTANTS N,              \* number of struct fields (f1..fN)
          MaxCols,        \* records have 1..MaxCols cells
          MaxRecs,        \* 0..MaxRecs data records
          BoundsChecked,  \* TRUE: short header-less records are reported as errors (code since the fix)
          HeaderCases     \* TRUE: also emit the cases with a header record

VARIABLE x
Init == x = 0
Next == UNCHANGED x

Cells == {"ok", "bad"}
Records == UNION {[1..k -> Cells] : k \in 1..MaxCols}
RecSeqs == UNION {[1..k -> Records] : k \in 0..MaxRecs}
HeaderNames == {"f1", "f2", "f3", "f4", "x"}
FieldName(i) == CASE i = 1 -> "f1" [] i = 2 -> "f2" [] i = 3 -> "f3" [] OTHER -> "f4"
Headers == UNION {[1..k -> {FieldName(i) : i \in 1..N} \cup {"x"}] : k \in 1..MaxCols}

Max(S) == CHOOSE m \in S : \A y \in S : y <= m
\* column (1-based) field i is read from; 0 = not mapped
ColOfHeader(hd, i) == LET S == {c \in 1..Len(hd) : hd[c] = FieldName(i)} IN IF S = {} THEN 0 ELSE Max(S)
ColNoHeader(i) == i

\* outcome of reading: [rows |-> number of rows delivered, panic |-> BOOLEAN]
RECURSIVE Deliver(_, _, _, _)
\* recs: remaining records; width: the field count fixed by the first record read; col(i): column of field i
Deliver(recs, width, cols, done) ==
  IF recs = <<>> THEN [rows |-> done, panic |-> FALSE]
  ELSE LET r == Head(recs) IN
       IF Len(r) # width THEN [rows |-> done, panic |-> FALSE]                      \* wrong number of fields: stop
       ELSE IF \E i \in 1..N : cols[i] > Len(r)
            THEN [rows |-> done, panic |-> ~BoundsChecked]                          \* record[ColumnIndex] out of range
            ELSE IF \E i \in 1..N : cols[i] # 0 /\ r[cols[i]] = "bad"
                 THEN [rows |-> done, panic |-> FALSE]                              \* a cell does not parse: stop
                 ELSE Deliver(Tail(recs), width, cols, done + 1)

WithHeader(hd, recs) == Deliver(recs, Len(hd), [i \in 1..N |-> ColOfHeader(hd, i)], 0)
NoHeader(recs) == IF recs = <<>> THEN [rows |-> 0, panic |-> FALSE]
                  ELSE Deliver(recs, Len(recs[1]), [i \in 1..N |-> ColNoHeader(i)], 0)

\* C19 on the model: the reader never panics
NeverPanics == /\ \A hd \in Headers, recs \in RecSeqs : ~WithHeader(hd, recs).panic
               /\ \A recs \in RecSeqs : ~NoHeader(recs).panic

EmitCsv ==
  /\ \A recs \in RecSeqs : PrintT("CSV " \o ToJson([hdr |-> FALSE, n |-> N, header |-> <<>>, recs |-> recs, out |-> NoHeader(recs)]))
  /\ \A hd \in Headers : \A recs \in RecSeqs :
        (HeaderCases /\ Len(recs) <= 2) => PrintT("CSV " \o ToJson([hdr |-> TRUE, n |-> N, header |-> hd, recs |-> recs, out |-> WithHeader(hd, recs)]))
  \* an empty input with a header expected: the header cannot be read, nothing is delivered
  /\ PrintT("CSV " \o ToJson([hdr |-> TRUE, n |-> N, header |-> <<>>, recs |-> <<>>, out |-> [rows |-> 0, panic |-> FALSE]]))

-----------------------------------------------------------------------------
(* JSON token sequences *)
Tok == {"[", "]", "v", "w", "g", "o"}
TokSeqs(k) == UNION {[1..j -> Tok] : j \in 0..k}

RECURSIVE LeadingV(_)
LeadingV(s) == IF s = <<>> \/ Head(s) # "v" THEN 0 ELSE 1 + LeadingV(Tail(s))
\* JSONToChan: the first token must open an array; then values until something else
JsonRows(s) == IF s = <<>> \/ Head(s) # "[" THEN 0 ELSE LeadingV(Tail(s))
\* well-formed inputs: "[" v* "]"
WellFormed(s) == Len(s) >= 2 /\ s[1] = "[" /\ s[Len(s)] = "]" /\ \A i \in 2..(Len(s) - 1) : s[i] = "v"
\* the delivered rows are those of the well-formed prefix; a well-formed input is delivered completely
JsonPrefixOK == \A s \in TokSeqs(4) : (WellFormed(s) => JsonRows(s) = Len(s) - 2) /\ JsonRows(s) <= Cardinality({i \in 1..Len(s) : s[i] = "v"})

EmitJson(k) == \A s \in TokSeqs(k) : PrintT("JSON " \o ToJson([toks |-> s, rows |-> JsonRows(s), wf |-> WellFormed(s)]))
=============================================================================
