------------------------- MODULE CombinatorsTrace --------------------------
(***************************************************************************)
(* Code -> model: traces recorded from the real combinators on random long *)
(* action words (and from the real MACD-RSI strategy next to its two       *)
(* sub-strategies) are replayed against Combinators.tla.  Each trace line  *)
(* carries the inputs of one snapshot (sub-actions, close) and the outputs *)
(* the real code produced; 9 = "not logged".  The specification is         *)
(* deterministic, so every logged output is an assertion.                  *)
(***************************************************************************)
EXTENDS Combinators, TraceData    \* TraceData.tla is generated: TraceData == << trace, trace, ... >>

\* a plain constant definition (not a substituted CONSTANT): TLC evaluates it once
Traces == TraceData

VARIABLES tr, l
tvars == <<dl, boughtAt, stopAt, nsStop, nsBought, nlPos, slPos, h, tr, l>>

Same(logged, model) == logged = 9 \/ logged = model

TraceInit == Init /\ tr \in 1..Len(Traces) /\ l = 1
TraceNext ==
  /\ l <= Len(Traces[tr])
  /\ LET e == Traces[tr][l]  o == Outputs(e.as, e.c) IN
     /\ Same(e.and, o.and) /\ Same(e.or, o.or) /\ Same(e.maj, o.maj) /\ Same(e.split, o.split)
     /\ Same(e.inv, o.inv) /\ Same(e.mr, o.mr) /\ Same(e.nl, o.nl[2]) /\ Same(e.sl, o.sl[2]) /\ Same(e.nlsl, o.n2[2])
     /\ Step(e.as, e.c)
  /\ l' = l + 1 /\ UNCHANGED tr

Accepted == (l = Len(Traces[tr]) + 1) => PrintT("ACC " \o ToJson([tr |-> tr]))
\* for a rejected trace: how far it got
Progress == PrintT("AT " \o ToJson([tr |-> tr, l |-> l]))
=============================================================================
