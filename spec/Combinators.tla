---------------------------- MODULE Combinators -----------------------------
(***************************************************************************)
(* Compound and decorator strategies (property C07) as functions of the    *)
(* wrapped strategies' action streams and the closing prices, one step per *)
(* snapshot:                                                               *)
(*   ActionSources = DenormalizeActions o sub   (standing recommendation)  *)
(*   And / Or / Majority   vote over the standing recommendations          *)
(*   Split                 Buy from the first, Sell from the second        *)
(*   MACD-RSI              both standing recommendations agree             *)
(*   Inverse               swaps Buy and Sell                              *)
(*   NoLoss                code-shaped state boughtAt (0 = not bought)     *)
(*   StopLoss              code-shaped state stopLossAt (0 = not bought)   *)
(*   NoLoss(StopLoss(.))   one level of nesting                            *)
(* Next to the code-shaped sentinel variables, the abstract position       *)
(* (holding / purchase close) is tracked, so that the safety properties    *)
(* the property states are checked against an independent formulation.     *)
(* Closing prices are small integers and the stop-loss percentage is a     *)
(* dyadic fraction Num/Den, so all products are exact in IEEE arithmetic.  *)
(***************************************************************************)
EXTENDS Integers, Sequences, FiniteSets, TLC, Json

CONSTANTS K,        \* number of wrapped strategies (2 or 3)
          Closes,   \* set of closing prices (positive integers)
          Num, Den, \* stop-loss percentage = Num / Den
          Depth

Sell == -1
Hold == 0
Buy  == 1
Act  == {Sell, Hold, Buy}

VARIABLES
  dl,        \* dl[j]: standing recommendation of source j (DenormalizeActions, initially Hold)
  boughtAt,  \* NoLoss: 0 = not bought, else the purchase close
  stopAt,    \* StopLoss: 0 = not bought, else <<numerator, Den>> threshold  (close * (Den-Num) / Den)
  nsStop,    \* StopLoss inside NoLoss(StopLoss)
  nsBought,  \* NoLoss around it
  \* abstract positions (independent formulation)
  nlPos,     \* NoLoss: 0 = out, else the close of the preceding Buy
  slPos,     \* StopLoss: 0 = out, else the close of the preceding Buy
  h

vars == <<dl, boughtAt, stopAt, nsStop, nsBought, nlPos, slPos, h>>

Count(as, v) == Cardinality({j \in 1..K : as[j] = v})
Denorm(last, a) == IF a # Hold /\ a # last THEN a ELSE last

AndVote(d) == IF Count(d, Sell) = K THEN Sell ELSE IF Count(d, Buy) = K THEN Buy ELSE Hold
OrVote(d)  == IF Count(d, Sell) > 0 /\ Count(d, Buy) = 0 THEN Sell
              ELSE IF Count(d, Buy) > 0 /\ Count(d, Sell) = 0 THEN Buy ELSE Hold
MajVote(d) == LET b == Count(d, Buy) s == Count(d, Sell) o == Count(d, Hold) IN
              IF s > b /\ s > o THEN Sell ELSE IF b > s /\ b > o THEN Buy ELSE Hold
SplitF(b, s) == IF b = Buy /\ s # Sell THEN Buy ELSE IF s = Sell /\ b # Buy THEN Sell ELSE Hold
Inverse(a) == IF a = Buy THEN Sell ELSE IF a = Sell THEN Buy ELSE Hold
Agree(x, y) == IF x = y THEN x ELSE Hold

\* NoLossStrategy closure: <<new boughtAt, emitted>>
NoLoss(b, a, c) ==
  IF a = Buy /\ b = 0 THEN <<c, Buy>>
  ELSE IF a = Sell /\ b # 0 /\ b < c THEN <<0, Sell>>
  ELSE <<b, Hold>>
\* StopLossStrategy closure; threshold kept as the exact fraction c * (Den - Num) / Den: compare c' * Den <= c * (Den - Num)
StopLoss(st, a, c) ==
  IF a = Buy /\ st = 0 THEN <<c * (Den - Num), Buy>>
  ELSE IF st # 0 /\ (a = Sell \/ c * Den <= st) THEN <<0, Sell>>
  ELSE <<st, Hold>>

Init == /\ dl = [j \in 1..K |-> Hold]
        /\ boughtAt = 0 /\ stopAt = 0 /\ nsStop = 0 /\ nsBought = 0
        /\ nlPos = 0 /\ slPos = 0 /\ h = <<>>

Outputs(as, c) ==
  LET d  == [j \in 1..K |-> Denorm(dl[j], as[j])]
      nl == NoLoss(boughtAt, as[1], c)
      sl == StopLoss(stopAt, as[1], c)
      s2 == StopLoss(nsStop, as[1], c)
      n2 == NoLoss(nsBought, s2[2], c)
  IN [d |-> d, and |-> AndVote(d), or |-> OrVote(d), maj |-> MajVote(d),
      split |-> SplitF(as[1], as[2]), inv |-> Inverse(as[1]), mr |-> Agree(d[1], d[2]),
      nl |-> nl, sl |-> sl, s2 |-> s2, n2 |-> n2]

Step(as, c) ==
  LET o == Outputs(as, c) IN
  /\ (Depth = 0 \/ Len(h) < Depth)          \* Depth = 0: no history kept, no bound (trace validation)
  /\ dl' = o.d
  /\ boughtAt' = o.nl[1] /\ stopAt' = o.sl[1] /\ nsStop' = o.s2[1] /\ nsBought' = o.n2[1]
  /\ nlPos' = IF o.nl[2] = Buy THEN c ELSE IF o.nl[2] = Sell THEN 0 ELSE nlPos
  /\ slPos' = IF o.sl[2] = Buy THEN c ELSE IF o.sl[2] = Sell THEN 0 ELSE slPos
  /\ h' = IF Depth = 0 THEN h ELSE
          Append(h, [as |-> as, c |-> c, and |-> o.and, or |-> o.or, maj |-> o.maj, split |-> o.split, inv |-> o.inv,
                     mr |-> o.mr, nl |-> o.nl[2], sl |-> o.sl[2], nlsl |-> o.n2[2]])

Next == \E as \in [1..K -> Act], c \in Closes : Step(as, c)
Spec == Init /\ [][Next]_vars

-----------------------------------------------------------------------------
(* C07 safety properties, against the abstract positions *)

\* a No-Loss-decorated strategy never sells at a close that is not above the close of its preceding Buy,
\* only sells what it bought, and only buys when out
NoLossSafe == [][\A as \in [1..K -> Act], c \in Closes : Step(as, c) =>
                  LET e == Outputs(as, c).nl[2] IN
                  /\ (e = Sell => nlPos # 0 /\ c > nlPos)
                  /\ (e = Buy => nlPos = 0)]_vars

\* a Stop-Loss-decorated strategy sells at the FIRST close at or below purchase close x (1 - percentage):
\* whenever it is in and the close is at or below the threshold it emits Sell in that very step
StopLossSafe == [][\A as \in [1..K -> Act], c \in Closes : Step(as, c) =>
                    LET e == Outputs(as, c).sl[2] IN
                    /\ ((slPos # 0 /\ c * Den <= slPos * (Den - Num)) => e = Sell)
                    /\ (e = Sell => slPos # 0)
                    /\ (e = Buy => slPos = 0)]_vars

\* the sentinels represent the abstract position
Repr == /\ (boughtAt = nlPos)
        /\ (stopAt = slPos * (Den - Num))

\* And/Or/Majority/MACD-RSI only ever emit an action some standing recommendation supports
VoteSupported == [][\A as \in [1..K -> Act], c \in Closes : Step(as, c) =>
                     LET o == Outputs(as, c) IN
                     /\ (o.and # Hold => \A j \in 1..K : o.d[j] = o.and)
                     /\ (o.or # Hold => (\E j \in 1..K : o.d[j] = o.or) /\ ~(\E j \in 1..K : o.d[j] = -o.or))
                     /\ (o.maj # Hold => 2 * Count(o.d, o.maj) > Count(o.d, -o.maj) + Count(o.d, Hold) \/
                                          (Count(o.d, o.maj) > Count(o.d, -o.maj) /\ Count(o.d, o.maj) > Count(o.d, Hold)))
                     /\ (o.mr # Hold => o.d[1] = o.mr /\ o.d[2] = o.mr)]_vars

Emit == (Depth > 0 /\ Len(h) = Depth) => PrintT("HIST " \o ToJson(h))
=============================================================================
