------------------------------ MODULE Commute -------------------------------
(***************************************************************************)
(* The commutation (diamond) lemma behind the ample-set reduction NextPOR  *)
(* of Pipeline.tla, on the abstract channel state: with one writer and one *)
(* reader per channel end, an enabled send / receive / close of one        *)
(* process can neither be disabled nor have its effect changed by a step   *)
(* of another process.  Channel state: buf (FIFO) and closed; Go semantics *)
(* of a buffered channel (the rendezvous of a capacity-0 channel is one    *)
(* step owned by the receiver and touches that channel only).              *)
(***************************************************************************)
EXTENDS Integers, Sequences, TLAPS

CONSTANTS Chan, Val, Cap
ASSUME CapType == Cap \in [Chan -> Nat]

TypeOK(buf, closed) == /\ buf \in [Chan -> Seq(Val)] /\ closed \in [Chan -> BOOLEAN]

\* enabledness
CanSend(buf, closed, c) == Len(buf[c]) < Cap[c] /\ ~closed[c]
CanRecv(buf, closed, c) == buf[c] # <<>>
\* effects on buf (closed unchanged)
Send(buf, c, v) == [buf EXCEPT ![c] = Append(@, v)]
Recv(buf, c)    == [buf EXCEPT ![c] = Tail(@)]

\* a send by the writer of c and a receive of a value by the reader of c: independent
THEOREM SendRecvSameChannel ==
  ASSUME NEW buf, NEW closed, TypeOK(buf, closed), NEW c \in Chan, NEW v \in Val,
         CanSend(buf, closed, c), CanRecv(buf, closed, c)
  PROVE  /\ CanRecv(Send(buf, c, v), closed, c)                  \* the receive stays enabled
         /\ Len(Recv(buf, c)[c]) < Cap[c]                        \* the send stays enabled
         /\ Head(Send(buf, c, v)[c]) = Head(buf[c])              \* the received value is the same
         /\ Recv(Send(buf, c, v), c) = Send(Recv(buf, c), c, v)  \* both orders end in the same state
<1> DEFINE s == buf[c]
<1>1. s \in Seq(Val) /\ s # <<>> /\ Len(s) < Cap[c]
  BY DEF TypeOK, CanSend, CanRecv
<1>2. Append(s, v) # <<>> /\ Head(Append(s, v)) = Head(s) /\ Tail(Append(s, v)) = Append(Tail(s), v) /\ Len(Tail(s)) < Cap[c]
  BY <1>1, CapType
<1>3. Send(buf, c, v)[c] = Append(s, v) /\ Recv(buf, c)[c] = Tail(s)
  BY DEF Send, Recv, TypeOK
<1>4. Recv(Send(buf, c, v), c) = [buf EXCEPT ![c] = Tail(Append(s, v))]
  BY DEF Send, Recv, TypeOK
<1>5. Send(Recv(buf, c), c, v) = [buf EXCEPT ![c] = Append(Tail(s), v)]
  BY DEF Send, Recv, TypeOK
<1> QED BY <1>1, <1>2, <1>3, <1>4, <1>5 DEF CanRecv

\* operations on different channels
THEOREM DifferentChannels ==
  ASSUME NEW buf, NEW closed, TypeOK(buf, closed), NEW c \in Chan, NEW d \in Chan, c # d, NEW v \in Val, NEW w \in Val
  PROVE  /\ Send(Send(buf, c, v), d, w) = Send(Send(buf, d, w), c, v)
         /\ Recv(Send(buf, c, v), d) = Send(Recv(buf, d), c, v)
         /\ Recv(Recv(buf, c), d) = Recv(Recv(buf, d), c)
         /\ Send(buf, c, v)[d] = buf[d] /\ Recv(buf, c)[d] = buf[d]
  BY DEF Send, Recv, TypeOK

\* close by the writer of c does not disable or change a receive of a VALUE by its reader
THEOREM CloseRecv ==
  ASSUME NEW buf, NEW closed, TypeOK(buf, closed), NEW c \in Chan, CanRecv(buf, closed, c)
  PROVE  CanRecv(buf, [closed EXCEPT ![c] = TRUE], c)
  BY DEF CanRecv
=============================================================================
