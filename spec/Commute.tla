------------------------------ MODULE Commute -------------------------------
(***************************************************************************)
(* The commutation (diamond) lemma behind the ample-set reduction NextPOR  *)
(* of Pipeline.tla, on the abstract channel state: with one writer and one *)
(* reader per channel end, an enabled send / receive / close of one        *)
(* process can neither be disabled nor have its effect changed by a step   *)
(* of another process.  Channel state: buf (FIFO) and closed; Go semantics *)
(* of a buffered channel (the rendezvous of a capacity-0 channel is one    *)
(* step owned by the receiver and touches that channel only).              *)
(***************************************************************************)
EXTENDS Integers, Sequences, TLAPS

CONSTANTS Chan, Val, Cap
ASSUME CapType == Cap \in [Chan -> Nat]

TypeOK(buf, closed) == /\ buf \in [Chan -> Seq(Val)] /\ closed \in [Chan -> BOOLEAN]

\* enabledness
CanSend(buf, closed, c) == Len(buf[c]) < Cap[c] /\ ~closed[c]
CanRecv(buf, closed, c) == buf[c] # <<>>
\* effects on buf (closed unchanged)
Send(buf, c, v) == [buf EXCEPT ![c] = Append(@, v)]
Recv(buf, c)    == [buf EXCEPT ![c] = Tail(@)]

\* a send by the writer of c and a receive of a value by the reader of c: independent
THEOREM SendRecvSameChannel ==
  ASSUME NEW buf, NEW closed, TypeOK(buf, closed), NEW c \in Chan, NEW v \in Val,
         CanSend(buf, closed, c), CanRecv(buf, closed, c)
  PROVE  /\ CanRecv(Send(buf, c, v), closed, c)                  \* the receive stays enabled
         /\ Len(Recv(buf, c)[c]) < Cap[c]                        \* the send stays enabled
         /\ Head(Send(buf, c, v)[c]) = Head(buf[c])              \* the received value is the same
         /\ Recv(Send(buf, c, v), c) = Send(Recv(buf, c), c, v)  \* both orders end in the same state
<1> DEFINE s == buf[c]
<1>1. s \in Seq(Val) /\ s # <<>> /\ Len(s) < Cap[c]
  BY DEF TypeOK, CanSend, CanRecv
<1>2. Append(s, v) # <<>> /\ Head(Append(s, v)) = Head(s) /\ Tail(Append(s, v)) = Append(Tail(s), v) /\ Len(Tail(s)) < Cap[c]
  BY <1>1, CapType
<1>3. Send(buf, c, v)[c] = Append(s, v) /\ Recv(buf, c)[c] = Tail(s)
  BY DEF Send, Recv, TypeOK
<1>4. Recv(Send(buf, c, v), c) = [buf EXCEPT ![c] = Tail(Append(s, v))]
  BY DEF Send, Recv, TypeOK
<1>5. Send(Recv(buf, c), c, v) = [buf EXCEPT ![c] = Append(Tail(s), v)]
  BY DEF Send, Recv, TypeOK
<1> QED BY <1>1, <1>2, <1>3, <1>4, <1>5 DEF CanRecv

\* operations on different channels
THEOREM DifferentChannels ==
  ASSUME NEW buf, NEW closed, TypeOK(buf, closed), NEW c \in Chan, NEW d \in Chan, c # d, NEW v \in Val, NEW w \in Val
  PROVE  /\ Send(Send(buf, c, v), d, w) = Send(Send(buf, d, w), c, v)
         /\ Recv(Send(buf, c, v), d) = Send(Recv(buf, d), c, v)
         /\ Recv(Recv(buf, c), d) = Recv(Recv(buf, d), c)
         /\ Send(buf, c, v)[d] = buf[d] /\ Recv(buf, c)[d] = buf[d]
  BY DEF Send, Recv, TypeOK

\* close by the writer of c does not disable or change a receive of a VALUE by its reader
THEOREM CloseRecv ==
  ASSUME NEW buf, NEW closed, TypeOK(buf, closed), NEW c \in Chan, CanRecv(buf, closed, c)
  PROVE  CanRecv(buf, [closed EXCEPT ![c] = TRUE], c)
  BY DEF CanRecv

(***************************************************************************)
(* Rendezvous of a capacity-0 channel.  Pipeline.tla makes it ONE step,    *)
(* owned by the receiver: it is enabled iff the writer of c is parked on a *)
(* send to c and the reader of c is parked on a receive from c; it hands   *)
(* the writer's value to the reader and moves both on.  Process state is   *)
(* abstracted to the pending operation pend[p] = [op, ch, val] plus what   *)
(* the process has received (got[p]); a step of a process q changes only   *)
(* pend[q], got[q] and the buffer of the channel q is parked on.           *)
(***************************************************************************)
CONSTANTS Proc, Writer, Reader
ASSUME Ends == Writer \in [Chan -> Proc] /\ Reader \in [Chan -> Proc]
Pend == [op : {"send", "recv", "close", "done"}, ch : Chan, val : Val]

PTypeOK(pend, got) == pend \in [Proc -> Pend] /\ got \in [Proc -> Seq(Val)]

CanRdv(pend, c) == /\ Cap[c] = 0
                   /\ pend[Writer[c]].op = "send" /\ pend[Writer[c]].ch = c
                   /\ pend[Reader[c]].op = "recv" /\ pend[Reader[c]].ch = c
RdvVal(pend, c) == pend[Writer[c]].val
\* nw / nr: the operations writer and reader park on next (a function of their own local state only)
RdvPend(pend, c, nw, nr) == [pend EXCEPT ![Writer[c]] = nw, ![Reader[c]] = nr]
RdvGot(pend, got, c)     == [got EXCEPT ![Reader[c]] = Append(@, RdvVal(pend, c))]

\* a step of a third process q (neither end of c): parks on nq, may have received x
StepPend(pend, q, nq)  == [pend EXCEPT ![q] = nq]
StepGot(got, q, x)     == [got EXCEPT ![q] = Append(@, x)]

\* a rendezvous on c is not disabled, and its value not changed, by a step of a process that is not an end of c
THEOREM RdvStable ==
  ASSUME NEW pend, NEW got, PTypeOK(pend, got), NEW c \in Chan, CanRdv(pend, c),
         NEW q \in Proc, q # Writer[c], q # Reader[c], NEW nq \in Pend
  PROVE  /\ CanRdv(StepPend(pend, q, nq), c)
         /\ RdvVal(StepPend(pend, q, nq), c) = RdvVal(pend, c)
  BY Ends DEF CanRdv, RdvVal, StepPend, PTypeOK

\* ... and the two steps commute: the same pend and got in either order
THEOREM RdvCommutes ==
  ASSUME NEW pend, NEW got, PTypeOK(pend, got), NEW c \in Chan, CanRdv(pend, c), Writer[c] # Reader[c],
         NEW q \in Proc, q # Writer[c], q # Reader[c], NEW nq \in Pend, NEW x \in Val,
         NEW nw \in Pend, NEW nr \in Pend
  PROVE  /\ RdvPend(StepPend(pend, q, nq), c, nw, nr) = StepPend(RdvPend(pend, c, nw, nr), q, nq)
         /\ RdvGot(StepPend(pend, q, nq), StepGot(got, q, x), c) = StepGot(RdvGot(pend, got, c), q, x)
<1>1. Writer[c] \in Proc /\ Reader[c] \in Proc
  BY Ends
<1>2. RdvVal(StepPend(pend, q, nq), c) = RdvVal(pend, c)
  BY <1>1 DEF RdvVal, StepPend, PTypeOK
<1>3. RdvPend(StepPend(pend, q, nq), c, nw, nr) = StepPend(RdvPend(pend, c, nw, nr), q, nq)
  BY <1>1 DEF RdvPend, StepPend, PTypeOK
<1>4. RdvGot(StepPend(pend, q, nq), StepGot(got, q, x), c) = StepGot(RdvGot(pend, got, c), q, x)
  BY <1>1, <1>2 DEF RdvGot, StepGot, PTypeOK
<1> QED BY <1>3, <1>4

\* two rendezvous on different channels with four distinct ends commute and do not disable one another
THEOREM RdvRdv ==
  ASSUME NEW pend, NEW got, PTypeOK(pend, got), NEW c \in Chan, NEW d \in Chan, CanRdv(pend, c), CanRdv(pend, d),
         Writer[c] # Reader[c], Writer[d] # Reader[d],
         Writer[c] # Writer[d], Writer[c] # Reader[d], Reader[c] # Writer[d], Reader[c] # Reader[d],
         NEW nw \in Pend, NEW nr \in Pend, NEW mw \in Pend, NEW mr \in Pend
  PROVE  /\ CanRdv(RdvPend(pend, c, nw, nr), d)
         /\ RdvVal(RdvPend(pend, c, nw, nr), d) = RdvVal(pend, d)
         /\ RdvPend(RdvPend(pend, c, nw, nr), d, mw, mr) = RdvPend(RdvPend(pend, d, mw, mr), c, nw, nr)
<1>1. Writer[c] \in Proc /\ Reader[c] \in Proc /\ Writer[d] \in Proc /\ Reader[d] \in Proc
  BY Ends
<1>2. CanRdv(RdvPend(pend, c, nw, nr), d) /\ RdvVal(RdvPend(pend, c, nw, nr), d) = RdvVal(pend, d)
  BY <1>1 DEF CanRdv, RdvVal, RdvPend, PTypeOK
<1>3. RdvPend(RdvPend(pend, c, nw, nr), d, mw, mr) = RdvPend(RdvPend(pend, d, mw, mr), c, nw, nr)
  BY <1>1 DEF RdvPend, PTypeOK
<1> QED BY <1>2, <1>3

\* a capacity-0 channel never accepts a buffered send, so it never holds a value and the buffered receive (CanRecv) and
\* the rendezvous never compete for the same channel; a rendezvous touches no buffer at all (buf is not an argument of
\* RdvPend / RdvGot), so buffered operations elsewhere see the same channel state before and after it
THEOREM CapZeroNeverBuffered ==
  ASSUME NEW buf, NEW closed, TypeOK(buf, closed), NEW c \in Chan, Cap[c] = 0
  PROVE  ~CanSend(buf, closed, c)
  BY CapType DEF CanSend, TypeOK
=============================================================================
