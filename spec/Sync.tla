-------------------------------- MODULE Sync --------------------------------
(***************************************************************************)
(* asset.Sync.Run (property C12): a job queue of asset names consumed by   *)
(* W worker goroutines; each worker repeats                                *)
(*    Take name -> target.LastDate -> source.GetSince -> target.Append     *)
(* one repository call per step, exactly as coded.  The environment makes  *)
(* GetSince / Append fail for chosen assets.  Two runs are executed one    *)
(* after the other (idempotence).                                          *)
(*                                                                         *)
(* Shared memory is modelled where the code shares it without a lock:      *)
(* the error flag (a plain write from any worker) and - for a target that  *)
(* is not safe for concurrent use, like the in-memory repository at the    *)
(* pinned commit - the target's map.  DataRace is the state predicate "two *)
(* workers are inside conflicting unsynchronised accesses"; with           *)
(* Locked = TRUE (the code since the fixes) those accesses are atomic      *)
(* steps and DataRace is unreachable.                                      *)
(***************************************************************************)
EXTENDS Integers, Sequences, FiniteSets, TLC, Json

CONSTANTS Scenarios,    \* set of scenario records (one is chosen by Init and stays fixed):
                        \*   assets  - the requested list (a sequence of names, explicit or from target.Assets())
                        \*   src     - src[a]: the source's snapshot dates for a (ascending); a not in DOMAIN = unknown there
                        \*   tgt0    - tgt0[a]: the target's initial dates for a (<<>> = holds nothing)
                        \*   failGet - assets whose source.GetSince fails;  failApp - assets whose target.Append fails
                        \*   start   - defaultStartDate
          W,            \* number of workers
          Locked        \* TRUE: error flag and target are synchronised (code since the fixes)

VARIABLE sc             \* the scenario of this behaviour

Assets  == sc.assets
Src     == sc.src
Tgt0    == sc.tgt0
FailGet == sc.failGet
FailApp == sc.failApp
Start   == sc.start
Names == {Assets[i] : i \in 1..Len(Assets)}
Workers == 1..W

VARIABLES run,        \* 1 or 2; 3 = both runs over
          queue,      \* remaining jobs of the current run
          wk,         \* wk[w] = [pc, a, since, rows]
          tgt,        \* target contents
          flag,       \* hasErrors of the current run
          ret,        \* ret[r]: error returned by run r (TRUE = error)
          after1,     \* target contents at the end of run 1
          inflight    \* per asset: number of workers currently between LastDate and Append for it

vars == <<sc, run, queue, wk, tgt, flag, ret, after1, inflight>>

Idle == [pc |-> "take", a |-> "", since |-> 0, rows |-> <<>>]

Init == /\ sc \in Scenarios
        /\ run = 1 /\ queue = Assets
        /\ wk = [w \in Workers |-> Idle]
        /\ tgt = Tgt0 /\ flag = FALSE /\ ret = <<FALSE, FALSE>> /\ after1 = Tgt0
        /\ inflight = [a \in Names |-> 0]

LastOf(s) == s[Len(s)]

\* worker w takes the next job (or finds the queue closed and finishes)
Take(w) ==
  /\ wk[w].pc = "take" /\ run \in {1, 2}
  /\ IF queue = <<>>
     THEN wk' = [wk EXCEPT ![w].pc = "done"] /\ UNCHANGED <<queue, inflight>>
     ELSE /\ wk' = [wk EXCEPT ![w] = [pc |-> "last", a |-> Head(queue), since |-> 0, rows |-> <<>>]]
          /\ queue' = Tail(queue)
          /\ inflight' = [inflight EXCEPT ![Head(queue)] = @ + 1]
  /\ UNCHANGED <<run, tgt, flag, ret, after1>>

\* lastDate, err := target.LastDate(name); start = lastDate + 1 day, or defaultStartDate on error
LastDate(w) ==
  /\ wk[w].pc = "last"
  /\ LET a == wk[w].a IN
     wk' = [wk EXCEPT ![w].pc = "get", ![w].since = IF tgt[a] = <<>> THEN Start ELSE LastOf(tgt[a]) + 1]
  /\ UNCHANGED <<run, queue, tgt, flag, ret, after1, inflight>>

\* snapshots, err := source.GetSince(name, start)
GetSince(w) ==
  /\ wk[w].pc = "get"
  /\ LET a == wk[w].a IN
     IF a \in FailGet \/ a \notin DOMAIN Src
     THEN wk' = [wk EXCEPT ![w].pc = "seterr"]
     ELSE wk' = [wk EXCEPT ![w].pc = "append", ![w].rows = SelectSeq(Src[a], LAMBDA d : d >= wk[w].since)]
  /\ UNCHANGED <<run, queue, tgt, flag, ret, after1, inflight>>

\* err = target.Append(name, snapshots).  On a target that is not safe for concurrent use the call is two steps
\* (read the map entry, write it back); otherwise one.
AppendBegin(w) ==
  /\ wk[w].pc = "append"
  /\ LET a == wk[w].a IN
     IF a \in FailApp
     THEN wk' = [wk EXCEPT ![w].pc = "seterr"] /\ UNCHANGED tgt
     ELSE IF Locked
          THEN /\ tgt' = [tgt EXCEPT ![a] = @ \o wk[w].rows]
               /\ wk' = [wk EXCEPT ![w].pc = "finish"]
          ELSE /\ wk' = [wk EXCEPT ![w].pc = "append2", ![w].rows = tgt[a] \o wk[w].rows]   \* combined := storage[name] ++ rows
               /\ UNCHANGED tgt
  /\ UNCHANGED <<run, queue, flag, ret, after1, inflight>>

AppendEnd(w) ==
  /\ wk[w].pc = "append2"
  /\ tgt' = [tgt EXCEPT ![wk[w].a] = wk[w].rows]                                           \* storage[name] = combined
  /\ wk' = [wk EXCEPT ![w].pc = "finish"]
  /\ UNCHANGED <<run, queue, flag, ret, after1, inflight>>

\* hasErrors = true; continue
SetErr(w) ==
  /\ wk[w].pc = "seterr"
  /\ flag' = TRUE
  /\ wk' = [wk EXCEPT ![w].pc = "finish"]
  /\ UNCHANGED <<run, queue, tgt, ret, after1, inflight>>

Finish(w) ==
  /\ wk[w].pc = "finish"
  /\ inflight' = [inflight EXCEPT ![wk[w].a] = @ - 1]
  /\ wk' = [wk EXCEPT ![w] = Idle]
  /\ UNCHANGED <<run, queue, tgt, flag, ret, after1>>

\* wg.Wait(); return error iff hasErrors; then the second run starts
EndRun ==
  /\ run \in {1, 2} /\ \A w \in Workers : wk[w].pc = "done"
  /\ ret' = [ret EXCEPT ![run] = flag]
  /\ after1' = IF run = 1 THEN tgt ELSE after1
  /\ run' = run + 1
  /\ queue' = IF run = 1 THEN Assets ELSE <<>>
  /\ wk' = [w \in Workers |-> Idle]
  /\ flag' = FALSE
  /\ UNCHANGED <<tgt, inflight>>

Next == /\ UNCHANGED sc
        /\ \/ \E w \in Workers : Take(w) \/ LastDate(w) \/ GetSince(w) \/ AppendBegin(w) \/ AppendEnd(w) \/ SetErr(w) \/ Finish(w)
           \/ EndRun
Spec == Init /\ [][Next]_vars
FairSpec == Spec /\ WF_vars(Next)

-----------------------------------------------------------------------------
(* C12 *)

Failing == (FailGet \cup FailApp \cup {a \in Names : a \notin DOMAIN Src}) \cap Names
\* what the target must hold after a run, as a function of the inputs only
Missing(a, t) == SelectSeq(Src[a], LAMBDA d : d >= (IF t = <<>> THEN Start ELSE LastOf(t) + 1))
Expected == [a \in DOMAIN Tgt0 |-> IF a \in Names /\ a \notin Failing THEN Tgt0[a] \o Missing(a, Tgt0[a]) ELSE Tgt0[a]]

Done == run = 3
\* every requested asset holds its previous snapshots followed by exactly the missing ones, for every schedule and W
Copied == Done => after1 = Expected
\* running it again adds nothing
Idempotent == Done => tgt = after1
\* a failure for one asset is reported and does not stop the others (the others are covered by Copied)
Reported == Done => (ret[1] = (Failing # {}) /\ ret[2] = (Failing # {}))
\* no duplicates, dates ascending, whenever source and initial target are
NoDuplicates == Done => \A a \in DOMAIN tgt : \A i, j \in 1..Len(tgt[a]) : i < j => tgt[a][i] < tgt[a][j]
Termination == <>Done

\* unsynchronised conflicting accesses
FlagRace == ~Locked /\ Cardinality({w \in Workers : wk[w].pc = "seterr"}) >= 2
MapRace  == ~Locked /\ Cardinality({w \in Workers : wk[w].pc = "append2"}) >= 2
NoDataRace == ~(FlagRace \/ MapRace)

\* printed once per scenario (in the initial state): what the property prescribes for it
EmitExpected == (run = 1 /\ queue = Assets /\ \A w \in Workers : wk[w] = Idle /\ tgt = Tgt0 /\ ~flag) =>
                  PrintT("EXP " \o ToJson([id |-> sc.id, expected |-> Expected, err |-> (Failing # {})]))

\* the job protocol per asset (used by trace validation): at most W assets in flight
InFlightBound == Cardinality({w \in Workers : wk[w].pc \notin {"take", "done"}}) <= W
=============================================================================
