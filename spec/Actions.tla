------------------------------ MODULE Actions -------------------------------
(***************************************************************************)
(* strategy.Outcome, NormalizeActions, DenormalizeActions and              *)
(* CountTransactions as state machines consuming one (price, action) pair  *)
(* per step (property C08).                                                *)
(*                                                                         *)
(* Prices live on the lattice 2^p, so that the all-in/all-out portfolio    *)
(* stays on powers of two: balance = 2^x in cash, shares = 2^x when        *)
(* invested, and IEEE arithmetic is exact - the replay on the real code    *)
(* compares bit for bit.                                                   *)
(*                                                                         *)
(* Three portfolios run side by side: fed with the raw actions, with the   *)
(* normalised actions, and with the doubled stream (every action repeated) *)
(* - the outcome must not depend on redundant repetitions.                 *)
(***************************************************************************)
EXTENDS Integers, Sequences, TLC, Json

CONSTANTS PMax,     \* prices are 2^p, p in 0..PMax
          Depth     \* bound on the number of pairs (history length)

Sell == -1
Hold == 0
Buy  == 1
Act  == {Sell, Hold, Buy}

VARIABLES
  pf,      \* portfolio fed with the raw actions: [inv |-> BOOLEAN, x |-> Int]  (cash: balance 2^x; invested: shares 2^x)
  pfn,     \* portfolio fed with the normalised actions
  nlast,   \* NormalizeActions: last emitted non-Hold action (initially Sell)
  dlast,   \* DenormalizeActions (fed with the normalised stream): standing recommendation (initially Hold)
  n2last,  \* NormalizeActions fed with the denormalised stream
  cnt,     \* CountTransactions over the raw actions
  first,   \* exponent of the first price (-1 = none yet)
  bought,  \* a Buy has been executed by pf
  bah,     \* the word so far is Buy Hold*  (buy and hold)
  h        \* history: [a, p, w, na, da, n2, tr]  w = wealth exponent after the pair

vars == <<pf, pfn, nlast, dlast, n2last, cnt, first, bought, bah, h>>

\* func Outcome: balance/shares update, as coded
Step(f, a, p) ==
  IF ~f.inv /\ a = Buy THEN [inv |-> TRUE, x |-> f.x - p]           \* shares = balance / value; balance = 0
  ELSE IF f.inv /\ a = Sell THEN [inv |-> FALSE, x |-> f.x + p]     \* balance = shares * value; shares = 0
  ELSE f
\* wealth exponent: balance + shares * value = 2^Wealth
Wealth(f, p) == IF f.inv THEN f.x + p ELSE f.x

\* func NormalizeActions closure
Norm(last, a) == IF a # Hold /\ a # last THEN <<a, a>> ELSE <<last, Hold>>     \* <<new last, emitted>>
\* func DenormalizeActions closure
Denorm(last, a) == LET nl == IF a # Hold /\ a # last THEN a ELSE last IN <<nl, nl>>

Init == /\ pf = [inv |-> FALSE, x |-> 0] /\ pfn = [inv |-> FALSE, x |-> 0]
        /\ nlast = Sell /\ dlast = Hold /\ n2last = Sell /\ cnt = 0
        /\ first = -1 /\ bought = FALSE /\ bah = TRUE /\ h = <<>>

Pair(a, p) ==
  LET n1 == Norm(nlast, a)
      d1 == Denorm(dlast, n1[2])
      n2 == Norm(n2last, d1[2])
      f1 == Step(pf, a, p)
      fn == Step(pfn, n1[2], p)
  IN
  /\ Len(h) < Depth
  /\ pf' = f1 /\ pfn' = fn
  /\ nlast' = n1[1] /\ dlast' = d1[1] /\ n2last' = n2[1]
  /\ cnt' = IF a # Hold THEN cnt + 1 ELSE cnt
  /\ first' = IF first = -1 THEN p ELSE first
  /\ bought' = (bought \/ (~pf.inv /\ a = Buy))
  /\ bah' = (bah /\ (IF h = <<>> THEN a = Buy ELSE a = Hold))
  /\ h' = Append(h, [a |-> a, p |-> p, w |-> Wealth(f1, p), inv |-> f1.inv, na |-> n1[2], da |-> d1[2], n2 |-> n2[2],
                     tr |-> IF a # Hold THEN cnt + 1 ELSE cnt])

Next == \E a \in Act, p \in 0..PMax : Pair(a, p)
Spec == Init /\ [][Next]_vars

-----------------------------------------------------------------------------
(* C08 *)
Last(s) == s[Len(s)]

\* the outcome is 0 until the first Buy (wealth 2^0 = 1)
ZeroUntilBuy == (h # <<>> /\ ~bought) => Last(h).w = 0
\* buy and hold: outcome_i = value_i / value_0 - 1
BuyAndHold == (h # <<>> /\ bah) => Last(h).w = Last(h).p - first
\* removing redundant repeated actions does not change the outcome
NormInvariant == pf = pfn
\* normalised streams alternate Buy and Sell, starting with Buy
Alternates == [][\A a \in Act, p \in 0..PMax : Pair(a, p) =>
                   LET e == Norm(nlast, a)[2] IN
                   e # Hold => (e # nlast /\ (nlast = Sell => e = Buy))]_vars
\* normalise o denormalise o normalise = normalise
NormDenormId == h # <<>> => Last(h).n2 = Last(h).na
\* wealth stays positive (outcome never below -100%): on this lattice wealth is 2^w > 0 by construction;
\* what TLC checks is that the portfolio never holds cash and shares at once and only moves on Buy-in-cash / Sell-when-invested
AllInAllOut == [][\A a \in Act, p \in 0..PMax : Pair(a, p) =>
                   /\ (pf'.inv # pf.inv) = ((~pf.inv /\ a = Buy) \/ (pf.inv /\ a = Sell))
                   /\ (pf'.inv = pf.inv => pf' = pf)]_vars

Emit == (Len(h) = Depth) => PrintT("HIST " \o ToJson(h))
=============================================================================
