------------------------------- MODULE Tools --------------------------------
(***************************************************************************)
(* The two factories and the command-line tools built on them.             *)
(*                                                                         *)
(* Registry (asset.RegisterRepositoryBuilder / NewRepository and           *)
(* backtest.RegisterReportBuilder / NewReport): a process-wide map from a  *)
(* name to a builder; New(name, config) yields what the builder registered *)
(* LAST under that name makes of config, or an error for a name nothing    *)
(* was registered under.  The built-in names are registered initially.     *)
(* TLC explores every history of Register / New to the depth bound and     *)
(* prints it with the prescribed outcome of every New; each history is     *)
(* replayed on both real registries in a fresh process (the map is global).*)
(*                                                                         *)
(* indicator-sync as a function of its command line (cmd/indicator-sync):  *)
(* unknown repository name -> exit 1 and nothing is written; otherwise the *)
(* requested assets are the arguments, or - without arguments - what the   *)
(* SOURCE lists; then it is asset.Sync.Run (spec/Sync.tla), exit 1 iff     *)
(* Sync reports an error.                                                  *)
(***************************************************************************)
EXTENDS Integers, Sequences, FiniteSets, TLC, Json

CONSTANTS Builtin,    \* names registered initially
          Custom,     \* other names
          Builders,   \* builder identities that get registered (the built-in builder of name n is <<"builtin", n>>)
          Configs,
          Depth

VARIABLES reg, h
vars == <<reg, h>>
Names == Builtin \cup Custom

Init == /\ reg = [n \in Builtin |-> <<"builtin", n>>]
        /\ h = <<>>

Register(n, b) == /\ Len(h) < Depth
                  /\ reg' = [m \in DOMAIN reg \cup {n} |-> IF m = n THEN b ELSE reg[m]]
                  /\ h' = Append(h, [op |-> "register", name |-> n, builder |-> b])
\* the outcome of New: the builder in charge and the config it is handed, or unknown
New(n, c) == /\ Len(h) < Depth
             /\ h' = Append(h, [op |-> "new", name |-> n, config |-> c,
                                out |-> IF n \in DOMAIN reg THEN [ok |-> TRUE, builder |-> reg[n], config |-> c]
                                        ELSE [ok |-> FALSE, builder |-> <<"none", "">>, config |-> ""]])
             /\ UNCHANGED reg
Next == \/ \E n \in Names, b \in Builders : Register(n, <<"custom", b>>)
        \/ \E n \in Names, c \in Configs : New(n, c)
Spec == Init /\ [][Next]_vars

\* the last registration wins; an unregistered custom name is unknown; built-ins are there from the start
LastWins == \A i \in 1..Len(h) : h[i].op = "new" =>
              LET regs == {j \in 1..(i - 1) : h[j].op = "register" /\ h[j].name = h[i].name} IN
              IF regs = {} THEN (h[i].out.ok <=> h[i].name \in Builtin) /\ (h[i].out.ok => h[i].out.builder = <<"builtin", h[i].name>>)
              ELSE h[i].out.ok /\ h[i].out.builder = h[CHOOSE j \in regs : \A k \in regs : k <= j].builder
ConfigPassed == \A i \in 1..Len(h) : (h[i].op = "new" /\ h[i].out.ok) => h[i].out.config = h[i].config

Emit == (Len(h) = Depth) => PrintT("HIST " \o ToJson(h))
=============================================================================
