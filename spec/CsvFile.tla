------------------------------ MODULE CsvFile -------------------------------
(***************************************************************************)
(* helper.Csv[T] on one file (property C11): WriteToFile, AppendToFile,    *)
(* AppendOrWriteToCsvFile and reading back.  The file is a sequence of     *)
(* lines (0 = the header line, a positive integer = the line of the row    *)
(* with that id); the harness gives every line the same number of bytes so *)
(* that the implementation-shaped Write - open WITHOUT truncation, write    *)
(* from offset 0, as coded at the pinned commit (Truncate = FALSE) - overlays *)
(* whole lines.  content is the abstract state the property prescribes:    *)
(* writing replaces, appending extends.                                    *)
(*                                                                         *)
(* Second part: header-name mapping.  For a struct with fields Fields the  *)
(* file header may be any arrangement of a subset of them plus an extra    *)
(* column; reading maps columns by name.                                   *)
(***************************************************************************)
EXTENDS Integers, Sequences, FiniteSets, TLC, Json

CONSTANTS MaxRows,    \* rows per call: 0..MaxRows
          Depth,
          Truncate,   \* TRUE: WriteToFile truncates (code since the fix); FALSE: pinned commit
          Fields      \* struct field names for the header-mapping part, e.g. {"A","B","C"}

VARIABLES exists, file, content, nextId, h
vars == <<exists, file, content, nextId, h>>

Init == /\ exists \in BOOLEAN
        /\ file \in (IF exists THEN {<<>>, <<0>>} ELSE {<<>>})    \* missing / empty / header only
        /\ content = <<>> /\ nextId = 1 /\ h = <<>>

NewRows(k) == [i \in 1..k |-> nextId + i - 1]

\* reading with hasHeader = TRUE: first line must be the header; rows are delivered until a line that is not a row
RECURSIVE RowPrefix(_)
RowPrefix(ls) == IF ls = <<>> \/ Head(ls) = 0 THEN <<>> ELSE <<Head(ls)>> \o RowPrefix(Tail(ls))
Parse(f) == IF f = <<>> \/ Head(f) # 0 THEN <<>> ELSE RowPrefix(Tail(f))

WriteF(f, ex, rows) ==
  LET new == <<0>> \o rows IN
  IF Truncate \/ ~ex \/ Len(f) <= Len(new) THEN new ELSE new \o SubSeq(f, Len(new) + 1, Len(f))

Log(op, k, ok, f2, c2) ==
  h' = Append(h, [op |-> op, k |-> k, ok |-> ok, expect |-> c2, lines |-> Len(f2), start |-> [ex |-> exists, f |-> file]])

Write(k) ==
  LET rows == NewRows(k)  f2 == WriteF(file, exists, rows) IN
  /\ exists' = TRUE /\ file' = f2 /\ content' = rows /\ nextId' = nextId + k
  /\ Log("write", k, TRUE, f2, rows)

\* AppendToFile presupposes a CSV file that was written (with its header): appending to an existing but
\* empty (0-byte) file is outside the property (AppendOrWriteToCsvFile is the call that handles that case)
AppendF(k) ==
  LET rows == NewRows(k) IN
  /\ ~(exists /\ file = <<>>)
  /\ IF exists
     THEN /\ file' = file \o rows /\ content' = content \o rows /\ nextId' = nextId + k /\ UNCHANGED exists
          /\ Log("append", k, TRUE, file \o rows, content \o rows)
     ELSE /\ UNCHANGED <<exists, file, content, nextId>>            \* AppendToFile on a missing file is an error
          /\ Log("append", k, FALSE, file, content)

AppendOrWrite(k) ==
  LET rows == NewRows(k) IN
  IF exists /\ Len(file) > 0
  THEN /\ file' = file \o rows /\ content' = content \o rows /\ nextId' = nextId + k /\ UNCHANGED exists
       /\ Log("appendorwrite", k, TRUE, file \o rows, content \o rows)
  ELSE LET f2 == WriteF(file, exists, rows) IN
       /\ exists' = TRUE /\ file' = f2 /\ content' = rows /\ nextId' = nextId + k
       /\ Log("appendorwrite", k, TRUE, f2, rows)

Next == /\ Len(h) < Depth
        /\ \E k \in 0..MaxRows : Write(k) \/ AppendF(k) \/ AppendOrWrite(k)
Spec == Init /\ [][Next]_vars

\* C11: what is read back is what the property prescribes
ReadBack == exists => Parse(file) = content
\* a file that was written starts with exactly one header
OneHeader == (exists /\ file # <<>>) => (file[1] = 0 /\ \A i \in 2..Len(file) : file[i] # 0)

Emit == (Len(h) = Depth) => PrintT("HIST " \o ToJson(h))

-----------------------------------------------------------------------------
(* header-name mapping *)
Cols == Fields \cup {"X"}                         \* X: a column the struct does not have
Arrangements == UNION {{s \in [1..k -> Cols] : \A i, j \in 1..k : i # j => s[i] # s[j]} : k \in 1..Cardinality(Cols)}
\* for every struct field: the (1-based) column it is read from, 0 = not in the file (zero value)
Mapping(hd) == [f \in Fields |-> IF \E i \in 1..Len(hd) : hd[i] = f THEN CHOOSE i \in 1..Len(hd) : hd[i] = f ELSE 0]
EmitHeaders == \A hd \in Arrangements : PrintT("HDR " \o ToJson([header |-> hd, map |-> Mapping(hd)]))
=============================================================================
