------------------------------- MODULE Rules --------------------------------
(***************************************************************************)
(* Decision rules of the base strategies (property C06).                   *)
(*                                                                         *)
(* RulesData.tla is generated (tools/rulesgen.py) from the transcription   *)
(* of the documentation in spec/rules_documented.json: for every strategy  *)
(* the named quantities it compares, the comparison atoms                  *)
(* (atom k = sign of lhs_k - rhs_k: -1, 0, 1), and the documented Buy and  *)
(* Sell conditions as formulas over the atom values.                       *)
(*   Mode "iff":    the documentation gives a complete rule - the action   *)
(*                  is Buy iff the Buy condition holds, Sell iff the Sell  *)
(*                  condition holds, Hold otherwise.                       *)
(*   Mode "onlyif": the documentation gives the direction but the code     *)
(*                  adds conditions it does not spell out (MACD, Qstick,   *)
(*                  Triple RSI): Buy only if the Buy condition holds, Sell *)
(*                  only if the Sell condition holds.                      *)
(* A position where some compared quantities are equal (atom value 0) is   *)
(* exempt, as the property says.  TLC enumerates every atom valuation,     *)
(* checks that the documented conditions are exclusive, and prints the     *)
(* decision table the harness looks the real actions up in.                *)
(***************************************************************************)
EXTENDS Integers, Sequences, FiniteSets, TLC, Json, RulesData

VARIABLE x
Init == x = 0
Next == UNCHANGED x

Sell == -1
Hold == 0
Buy  == 1

\* only sign vectors that some assignment of reals to the compared quantities produces
Vals(s) == Realizable(s)
Exempt(v) == \E k \in DOMAIN v : v[k] = 0

Allowed(s, v) ==
  IF Mode(s) = "iff"
  THEN {IF BuyIf(s, v) THEN Buy ELSE IF SellIf(s, v) THEN Sell ELSE Hold}
  ELSE {Hold} \cup (IF BuyIf(s, v) THEN {Buy} ELSE {}) \cup (IF SellIf(s, v) THEN {Sell} ELSE {})

\* the documented Buy and Sell conditions never hold together (on non-exempt valuations)
\* (Assume(s, v): the known order of the levels / bands the rule compares against)
Exclusive == \A s \in Strategies : \A v \in Vals(s) : (~Exempt(v) /\ Assume(s, v)) => ~(BuyIf(s, v) /\ SellIf(s, v))
\* every strategy can recommend each of Buy and Sell for some valuation (the table is not vacuous)
\* C18 on the documented rules: every comparison is between quantities of the same degree of homogeneity in price and in
\* volume, or against the literal 0 - so no documented recommendation depends on the currency or volume unit
Dimensional == \A s \in Strategies : \A i \in 1..NAtoms(s) :
                 LET l == AtomDims(s)[i][1] r == AtomDims(s)[i][2] IN l[3] \/ r[3] \/ (l[1] = r[1] /\ l[2] = r[2])
NotVacuous == \A s \in Strategies : (\E v \in Vals(s) : ~Exempt(v) /\ BuyIf(s, v)) /\
                                    (NoSell(s) \/ \E v \in Vals(s) : ~Exempt(v) /\ SellIf(s, v))

EmitTables ==
  \A s \in Strategies : \A v \in Vals(s) :
     PrintT("ROW " \o ToJson([s |-> s, v |-> v, exempt |-> Exempt(v), allowed |-> Allowed(s, v)]))
=============================================================================
