------------------------------ MODULE Helpers -------------------------------
(***************************************************************************)
(* Slice models of the stream helpers (property C16): what each helper     *)
(* must produce, as a function on finite sequences.  TLC enumerates every  *)
(* input sequence over a small alphabet (with zero, a negative value and   *)
(* ties) up to a length bound and every parameter in the helper's domain   *)
(* up to a bound, and prints each case with the expected outputs; the Go   *)
(* harness runs the real helper on the same inputs and compares.           *)
(* Quotients are printed as <<numerator, denominator>> pairs: the harness  *)
(* performs the one IEEE division the real helper performs.                *)
(***************************************************************************)
EXTENDS Integers, Sequences, FiniteSets, TLC, Json

CONSTANTS Alpha,     \* value alphabet
          MaxLen,    \* bound on the length of single inputs
          MaxLen2,   \* bound on the length of each of two inputs
          MaxLen3,   \* bound on the length of each of three inputs
          MaxPar     \* bound on integer parameters

VARIABLE x
Init == x = 0
Next == UNCHANGED x

Min(a, b) == IF a < b THEN a ELSE b
SeqsUpTo(n) == UNION {[1..k -> Alpha] : k \in 0..n}

\* ---- slice models ---------------------------------------------------------
SkipM(s, n)     == SubSeq(s, Min(n, Len(s)) + 1, Len(s))
FirstM(s, n)    == SubSeq(s, 1, Min(n, Len(s)))                 \* Head and First
LastM(s, n)     == SubSeq(s, Len(s) - Min(n, Len(s)) + 1, Len(s))
ShiftM(s, n, f) == [i \in 1..n |-> f] \o s
IdM(s)          == s                                            \* Buffered, Pipe, Waitable, Duplicate (each copy)
CountM(from, s) == [i \in 1..Len(s) |-> from + i - 1]
\* Since: number of positions since the value last changed
RECURSIVE RunLen(_, _)
RunLen(s, i) == IF i = 1 \/ s[i] # s[i - 1] THEN 0 ELSE 1 + RunLen(s, i - 1)
SinceM(s)       == [i \in 1..Len(s) |-> RunLen(s, i)]
ChangeM(s, n)   == [i \in 1..(IF Len(s) > n THEN Len(s) - n ELSE 0) |-> s[i + n] - s[i]]
RatioM(s, n)    == [i \in 1..(IF Len(s) > n THEN Len(s) - n ELSE 0) |-> <<s[i + n] - s[i], s[i]>>]
Zip2(a, b, Op(_, _))       == [i \in 1..Min(Len(a), Len(b)) |-> Op(a[i], b[i])]
Zip3(a, b, c, Op(_, _, _)) == [i \in 1..Min(Len(a), Min(Len(b), Len(c))) |-> Op(a[i], b[i], c[i])]
MapM(s, F(_))   == [i \in 1..Len(s) |-> F(s[i])]
RECURSIVE FoldPrev(_, _, _)
\* MapWithPrevious with f(prev, n) = prev + 2 n
FoldPrev(s, i, init) == IF i = 0 THEN init ELSE FoldPrev(s, i - 1, init) + 2 * s[i]
PrevM(s, init)  == [i \in 1..Len(s) |-> FoldPrev(s, i, init)]
EvenM(s)        == SelectSeq(s, LAMBDA v : v % 2 = 0)
SeqM(from, to, inc) == [i \in 1..(IF to > from THEN ((to - from) + inc - 1) \div inc ELSE 0) |-> from + (i - 1) * inc]
\* Echo(last, count) when the input is at least `last` long (the regime the documentation fixes)
EchoM(s, last, count) == s \o [i \in 1..(last * count) |-> s[Len(s) - last + ((i - 1) % last) + 1]]

Abs(v)  == IF v < 0 THEN -v ELSE v
Sign(v) == IF v > 0 THEN 1 ELSE IF v < 0 THEN -1 ELSE 0

Case(h, p, ins, outs) == PrintT("CASE " \o ToJson([h |-> h, p |-> p, ins |-> ins, outs |-> outs]))

Pars == 0..MaxPar

Emit1 ==
  \A s \in SeqsUpTo(MaxLen) :
    /\ \A n \in Pars :
         /\ Case("Skip", <<n>>, <<s>>, <<SkipM(s, n)>>)
         /\ Case("First", <<n>>, <<s>>, <<FirstM(s, n)>>)
         /\ Case("Head", <<n>>, <<s>>, <<FirstM(s, n)>>)
         /\ (n >= 1 => Case("Last", <<n>>, <<s>>, <<LastM(s, n)>>))
         /\ Case("Shift", <<n, 7>>, <<s>>, <<ShiftM(s, n, 7)>>)
         /\ Case("Buffered", <<n>>, <<s>>, <<IdM(s)>>)
         /\ Case("Duplicate", <<n>>, <<s>>, [k \in 1..n |-> IdM(s)])
         /\ Case("Count", <<n>>, <<s>>, <<CountM(n, s)>>)
         /\ Case("Change", <<n>>, <<s>>, <<ChangeM(s, n)>>)
         /\ Case("ChangeRatio", <<n>>, <<s>>, <<RatioM(s, n)>>)
         /\ Case("ChangePercent", <<n>>, <<s>>, <<RatioM(s, n)>>)
         /\ Case("IncrementBy", <<n>>, <<s>>, <<MapM(s, LAMBDA v : v + n)>>)
         /\ Case("DecrementBy", <<n>>, <<s>>, <<MapM(s, LAMBDA v : v - n)>>)
         /\ Case("MultiplyBy", <<n>>, <<s>>, <<MapM(s, LAMBDA v : v * n)>>)
         /\ Case("DivideBy", <<n>>, <<s>>, <<MapM(s, LAMBDA v : <<v, n>>)>>)
         /\ Case("MapWithPrevious", <<n>>, <<s>>, <<PrevM(s, n)>>)
         /\ \A k \in 0..2 : (n >= 1 /\ Len(s) >= n) => Case("Echo", <<n, k>>, <<s>>, <<EchoM(s, n, k)>>)
    /\ Case("Since", <<>>, <<s>>, <<SinceM(s)>>)
    /\ Case("Map", <<>>, <<s>>, <<MapM(s, LAMBDA v : 3 * v + 1)>>)
    /\ Case("Apply", <<>>, <<s>>, <<MapM(s, LAMBDA v : 3 * v + 1)>>)
    /\ Case("Filter", <<>>, <<s>>, <<EvenM(s)>>)
    /\ Case("Abs", <<>>, <<s>>, <<MapM(s, Abs)>>)
    /\ Case("Sign", <<>>, <<s>>, <<MapM(s, Sign)>>)
    /\ Case("KeepPositives", <<>>, <<s>>, <<MapM(s, LAMBDA v : IF v > 0 THEN v ELSE 0)>>)
    /\ Case("KeepNegatives", <<>>, <<s>>, <<MapM(s, LAMBDA v : IF v < 0 THEN v ELSE 0)>>)
    /\ Case("Pow2", <<>>, <<s>>, <<MapM(s, LAMBDA v : v * v)>>)
    /\ Case("ChanToSlice", <<>>, <<s>>, <<IdM(s)>>)

Emit2 ==
  \A a \in SeqsUpTo(MaxLen2) : \A b \in SeqsUpTo(MaxLen2) :
    /\ Case("Add", <<>>, <<a, b>>, <<Zip2(a, b, LAMBDA u, v : u + v)>>)
    /\ Case("Subtract", <<>>, <<a, b>>, <<Zip2(a, b, LAMBDA u, v : u - v)>>)
    /\ Case("Multiply", <<>>, <<a, b>>, <<Zip2(a, b, LAMBDA u, v : u * v)>>)
    /\ Case("Divide", <<>>, <<a, b>>, <<Zip2(a, b, LAMBDA u, v : <<u, v>>)>>)
    /\ Case("Operate", <<>>, <<a, b>>, <<Zip2(a, b, LAMBDA u, v : 10 * u + v)>>)

Emit3 ==
  \A a \in SeqsUpTo(MaxLen3) : \A b \in SeqsUpTo(MaxLen3) : \A c \in SeqsUpTo(MaxLen3) :
    Case("Operate3", <<>>, <<a, b, c>>, <<Zip3(a, b, c, LAMBDA u, v, w : 100 * u + 10 * v + w)>>)

\* scalar helpers and the period synchronisation built on Skip
RECURSIVE GcdM(_, _)
GcdM(a, b) == IF b = 0 THEN a ELSE GcdM(b, a % b)
LcmM(a, b) == (a * b) \div GcdM(a, b)
MaxM(a, b) == IF a < b THEN b ELSE a
\* what makes a number the greatest common divisor / least common multiple (checked by TLC next to the recursion)
IsGcd(g, a, b) == a % g = 0 /\ b % g = 0 /\ \A d \in 1..MaxM(a, b) : (a % d = 0 /\ b % d = 0) => g % d = 0
IsLcm(m, a, b) == m % a = 0 /\ m % b = 0 /\ \A k \in 1..(a * b) : (k % a = 0 /\ k % b = 0) => k % m = 0
ScalarsOK == \A a \in 1..12, b \in 1..12 : IsGcd(GcdM(a, b), a, b) /\ IsLcm(LcmM(a, b), a, b)
EmitScalars ==
  /\ \A a \in 1..9, b \in 1..9, c \in 1..4 :
        /\ Case("Gcd", <<a, b, c>>, <<>>, <<<<GcdM(GcdM(a, b), c)>>>>)
        /\ Case("Lcm", <<a, b, c>>, <<>>, <<<<LcmM(LcmM(a, b), c)>>>>)
        /\ Case("CommonPeriod", <<a, b, c>>, <<>>, <<<<MaxM(MaxM(a, b), c)>>>>)
  /\ \A s \in SeqsUpTo(MaxLen) : \A common \in 0..4, period \in 0..4 :
        Case("SyncPeriod", <<common, period>>, <<s>>, <<SkipM(s, IF common > period THEN common - period ELSE 0)>>)

EmitSeq ==
  \A f \in 0..2 : \A t \in 0..5 : \A i \in 1..3 : Case("Seq", <<f, t, i>>, <<>>, <<SeqM(f, t, i)>>)

\* ---- capacity of the returned channel as a function of the input's capacity -------------
CapM(h, n, capIn) ==
  CASE h \in {"Skip", "Head", "First", "Last", "Duplicate", "Waitable"} -> capIn
    [] h = "Shift" -> capIn + n
    [] h = "Buffered" -> n
    [] OTHER -> 0     \* Map, Apply, Filter, Operate, Count, Echo, MapWithPrevious, Change ... are unbuffered

EmitCap ==
  \A h \in {"Skip", "Head", "First", "Last", "Duplicate", "Shift", "Buffered", "Map", "Apply", "Filter", "Count",
             "Echo", "MapWithPrevious", "Change", "ChangeRatio", "Add", "Operate3", "Since", "Abs"} :
    \A n \in 1..MaxPar : \A capIn \in {0, 1, 3} :
      PrintT("CAP " \o ToJson([h |-> h, n |-> n, capIn |-> capIn, cap |-> CapM(h, n, capIn)]))

ASSUME ScalarsOK
ASSUME Emit1 /\ Emit2 /\ Emit3 /\ EmitSeq /\ EmitScalars /\ EmitCap
=============================================================================
