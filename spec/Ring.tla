-------------------------------- MODULE Ring --------------------------------
(***************************************************************************)
(* helper.Ring[T]: the implementation-shaped state (buffer, begin, end,    *)
(* empty) with the code's Put / Get / At / IsEmpty / IsFull, next to the   *)
(* abstract model the property C17 states: a bounded FIFO q that           *)
(* overwrites its oldest element when full.  TLC checks the refinement     *)
(* (Abs = q and every observer agrees) over all histories; the history     *)
(* variable h is only used to emit behaviours for replay on the real code  *)
(* and is hidden from the state space by a VIEW in the exhaustive config.  *)
(***************************************************************************)
EXTENDS Integers, Sequences, TLC, Json

CONSTANTS Size,     \* capacity of the ring (>= 1)
          Vals,     \* values that are put (0 is the Go zero value and is not in Vals)
          Depth     \* bound on the history length for behaviour emission (0 = no history kept)

VARIABLES buffer, begin, end, empty,   \* implementation
          q,                           \* abstract bounded FIFO
          ret,                         \* result of the last operation
          h                            \* history of operations [op, arg, ret, q]

impl == <<buffer, begin, end, empty>>
vars == <<buffer, begin, end, empty, q, ret, h>>

NextIndex(i) == (i + 1) % Size
IsFull  == ~empty /\ end = begin
IsEmpty == empty
At(i)   == buffer[((begin + i) % Size) + 1]          \* buffer is 1-based here, 0-based in Go

\* The abstraction function: content of the ring from the oldest to the newest element.
Count == IF empty THEN 0 ELSE IF end > begin THEN end - begin ELSE end - begin + Size
Abs   == [i \in 1..Count |-> At(i - 1)]

Log(op, arg, r, nq) == IF Depth = 0 THEN h' = h ELSE h' = Append(h, [op |-> op, arg |-> arg, ret |-> r, q |-> nq])

Init == /\ buffer = [i \in 1..Size |-> 0]
        /\ begin = 0 /\ end = 0 /\ empty = TRUE
        /\ q = <<>> /\ ret = <<"init">> /\ h = <<>>

\* func (r *Ring[T]) Put(t T) T
Put(v) ==
  LET b1 == IF IsFull THEN NextIndex(begin) ELSE begin
      o  == buffer[end + 1]
      nq == IF Len(q) = Size THEN Append(Tail(q), v) ELSE Append(q, v) IN
  /\ begin' = b1
  /\ buffer' = [buffer EXCEPT ![end + 1] = v]
  /\ end' = NextIndex(end)
  /\ empty' = FALSE
  /\ ret' = <<"put", o>>
  /\ q' = nq
  /\ Log("put", v, o, nq)

\* func (r *Ring[T]) Get() (T, bool)
Get ==
  IF empty
  THEN /\ ret' = <<"get", 0, FALSE>>
       /\ UNCHANGED <<buffer, begin, end, empty, q>>
       /\ Log("get", 0, <<0, FALSE>>, q)
  ELSE LET t == buffer[begin + 1]  b1 == NextIndex(begin) IN
       /\ begin' = b1
       /\ empty' = (b1 = end)
       /\ ret' = <<"get", t, TRUE>>
       /\ q' = Tail(q)
       /\ UNCHANGED <<buffer, end>>
       /\ Log("get", 0, <<t, TRUE>>, Tail(q))

Next == (\E v \in Vals : Put(v)) \/ Get
Spec == Init /\ [][Next]_vars

-----------------------------------------------------------------------------
(* C17, ring part *)

\* the implementation state always represents the abstract FIFO
Refines   == Abs = q
Observers == /\ IsEmpty = (q = <<>>)
             /\ IsFull = (Len(q) = Size)
             /\ \A i \in 0..(Len(q) - 1) : At(i) = q[i + 1]      \* positional reads count from the oldest
Bounded   == Len(q) <= Size

\* put returns what it displaced; get returns the oldest (action properties)
PutDisplaces == [][\A v \in Vals : (Put(v) /\ Len(q) = Size) => ret'[2] = Head(q)]_vars
GetOldest    == [][Get => IF q = <<>> THEN ret' = <<"get", 0, FALSE>>
                               ELSE ret' = <<"get", Head(q), TRUE>> /\ q' = Tail(q)]_vars

View == <<buffer, begin, end, empty, q>>

DepthBound == Len(h) <= Depth
Emit == (Depth > 0 /\ Len(h) = Depth) => PrintT("HIST " \o ToJson(h))
=============================================================================
