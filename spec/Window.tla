------------------------------- MODULE Window -------------------------------
(***************************************************************************)
(* The moving-window and recurrence cores of the indicators whose          *)
(* documented formula can be evaluated exactly on an integer lattice       *)
(* (the slice of property C01 this family of technique can decide):        *)
(*   MovingSum / MovingMax / MovingMin   f(s[k .. k+P-1])                  *)
(*   SMA at power-of-two periods          sum / P                          *)
(*   OBV                                  +volume / -volume / unchanged by *)
(*                                        the sign of close - previous close*)
(* Each has (a) the documented function of the input and (b) the           *)
(* construction the code uses - Duplicate; Shift(P, 0) on one branch;      *)
(* a closure holding a running sum or a multiset (Insert(c); Remove(b));   *)
(* Skip(P-1) - written as a fold over the zipped streams.  TLC compares    *)
(* (a) and (b) on every sequence over a small alphabet with zero, a        *)
(* negative value and ties, and prints each sequence with the documented   *)
(* result for the replay on the real indicators.                           *)
(* GuardedRemove = FALSE is the code at the pinned commit: the multiset    *)
(* removes the Shift's fill value 0 during warm-up, which deletes a        *)
(* genuine 0 of the window (MovingMin(3) of 0,5,7 = 5).                    *)
(***************************************************************************)
EXTENDS Integers, Sequences, FiniteSets, TLC, Json

CONSTANTS Alpha, MaxLen, MaxP,
          GuardedRemove   \* TRUE: nothing is removed before the window is full (code since the fix)

VARIABLE x
Init == x = 0
Next == UNCHANGED x

Seqs == UNION {[1..k -> Alpha] : k \in 0..MaxLen}
Periods == 1..MaxP

\* ---- (a) documented functions ----------------------------------------------
Win(s, k, P) == {s[j] : j \in k..(k + P - 1)}
RECURSIVE SumR(_, _, _)
SumR(s, a, b) == IF a > b THEN 0 ELSE s[a] + SumR(s, a + 1, b)
MaxS(S) == CHOOSE m \in S : \A y \in S : y <= m
MinS(S) == CHOOSE m \in S : \A y \in S : y >= m
NOut(s, P) == IF Len(s) >= P THEN Len(s) - P + 1 ELSE 0
DocSum(s, P) == [k \in 1..NOut(s, P) |-> SumR(s, k, k + P - 1)]
DocMax(s, P) == [k \in 1..NOut(s, P) |-> MaxS(Win(s, k, P))]
DocMin(s, P) == [k \in 1..NOut(s, P) |-> MinS(Win(s, k, P))]

\* ---- (b) the construction of the code ----------------------------------------
\* stream b = P fills (0) followed by the input: b[i] = 0 for i <= P, s[i-P] afterwards
B(s, P, i) == IF i <= P THEN 0 ELSE s[i - P]
\* running sum: sum = sum + c - b
RECURSIVE RunSum(_, _, _)
RunSum(s, P, i) == IF i = 0 THEN 0 ELSE RunSum(s, P, i - 1) + s[i] - B(s, P, i)
CodeSum(s, P) == [k \in 1..NOut(s, P) |-> RunSum(s, P, k + P - 1)]           \* Skip(P-1)
\* multiset as a function value -> count; Insert(c); Remove(b) (removes one occurrence if there is one)
RECURSIVE Bag(_, _, _)
Bag(s, P, i) ==
  IF i = 0 THEN [v \in Alpha \cup {0} |-> 0]
  ELSE LET prev == Bag(s, P, i - 1)
           ins  == [prev EXCEPT ![s[i]] = @ + 1]
           b    == B(s, P, i)
       IN IF GuardedRemove /\ i <= P THEN ins
          ELSE IF ins[b] > 0 THEN [ins EXCEPT ![b] = @ - 1] ELSE ins
BagVals(bg) == {v \in DOMAIN bg : bg[v] > 0}
\* Bst.Max / Min return 0 on the empty tree
CodeMax(s, P) == [k \in 1..NOut(s, P) |-> LET S == BagVals(Bag(s, P, k + P - 1)) IN IF S = {} THEN 0 ELSE MaxS(S)]
CodeMin(s, P) == [k \in 1..NOut(s, P) |-> LET S == BagVals(Bag(s, P, k + P - 1)) IN IF S = {} THEN 0 ELSE MinS(S)]

\* ---- C01 (slice): construction = documented function ------------------------
SumOK == \A s \in Seqs, P \in Periods : CodeSum(s, P) = DocSum(s, P)
MaxOK == \A s \in Seqs, P \in Periods : CodeMax(s, P) = DocMax(s, P)
MinOK == \A s \in Seqs, P \in Periods : CodeMin(s, P) = DocMin(s, P)

\* ---- OBV: documented recurrence ----------------------------------------------
\*   Closing[i] > Closing[i-1]: OBV[i] = OBV[i-1] + Volume[i];  = : unchanged;  < : OBV[i-1] - Volume[i]
\* The first position has no previous close (formula undefined there): only the increments from the second
\* position on are prescribed.
ObvInc(c, v, i) == IF c[i] > c[i - 1] THEN v[i] ELSE IF c[i] < c[i - 1] THEN -v[i] ELSE 0

Emit ==
  /\ \A s \in Seqs, P \in Periods :
       PrintT("WIN " \o ToJson([s |-> s, p |-> P, sum |-> DocSum(s, P), max |-> DocMax(s, P), min |-> DocMin(s, P)]))
EmitObv(L) ==
  \A k \in 1..L : \A c \in [1..k -> {10, 11, 12}] : \A v \in [1..k -> {1, 2}] :
       PrintT("OBV " \o ToJson([c |-> c, v |-> v, inc |-> [i \in 2..k |-> ObvInc(c, v, i)]]))
=============================================================================
