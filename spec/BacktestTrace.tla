--------------------------- MODULE BacktestTrace ----------------------------
(***************************************************************************)
(* Code -> model: the calls a recording Report received from a real        *)
(* Backtest.Run (one global sequence number under a mutex) replayed        *)
(* against Backtest.tla.  Worker identity is not logged; taking a job and  *)
(* the repository read are silent steps.                                   *)
(***************************************************************************)
EXTENDS Backtest, BacktestTraceData     \* BacktestTraceData.tla is generated: TraceLog == << [op, a, s], ... >>

VARIABLE l
tvars == <<phase, queue, wk, results, begun, ended, best, log, run, l>>

TraceInit == Init /\ l = 1
Ev == TraceLog[l]

Matched ==
  /\ l <= Len(TraceLog)
  /\ \/ (Ev.op = "begin" /\ Begin)
     \/ (Ev.op = "end" /\ End)
     \/ \E w \in Workers :
          \/ (Ev.op = "assetbegin" /\ wk[w].pc = "abegin" /\ wk[w].a = Ev.a /\ AssetBegin(w))
          \/ (Ev.op = "write" /\ wk[w].a = Ev.a /\ wk[w].s = Ev.s /\
                ((wk[w].pc = "write" /\ Locked /\ Write(w)) \/ (wk[w].pc = "write2" /\ Write2(w))))
          \/ (Ev.op = "assetend" /\ wk[w].a = Ev.a /\
                ((wk[w].pc = "aend" /\ Locked /\ ~TwoSectionEnd /\ AssetEnd(w)) \/ (wk[w].pc = "aend2" /\ AssetEnd2(w))))
  /\ l' = l + 1

Silent ==
  /\ \E w \in Workers : Take(w) \/ GetSince(w) \/ (~Locked /\ wk[w].pc = "write" /\ Write(w)) \/ ((~Locked \/ TwoSectionEnd) /\ wk[w].pc = "aend" /\ AssetEnd(w))
  /\ UNCHANGED l

TraceNext == Matched \/ Silent
Accepted == (l = Len(TraceLog) + 1 /\ phase = "over") => PrintT("ACC " \o ToJson([ok |-> TRUE]))
=============================================================================
